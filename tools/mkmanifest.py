#!/venv/bin/python
"""Regenerate MANIFEST.json from the table below and validate it against the schema."""

import json
import sys
from pathlib import Path

ROOT = Path(__file__).resolve().parent.parent
sys.path.insert(0, str(ROOT))

BASELINE = ("cd /repo && /venv/bin/python -m pytest -ra -q -p no:cacheprovider --timeout=900 "
            "--continue-on-collection-errors")

# property id -> (technique, level text, level note, DESIGN section)
CHECKS = {
    "C01": (
        "Hypothesis-generated operands (values, units, dtypes, shapes) vs closed forms in 50-digit mpmath; "
        "differential between routes; round trips",
        "Generated-input search: every public elastic kernel, every pair of routes to the same quantity, "
        "every invertible conversion and the graph wiring are compared with the de Broglie/Bragg closed "
        "forms evaluated in 50-digit arithmetic on the exact stored operands, at the 1e-11 / 1e-5 bounds "
        "the property states. Held = held on all generated cases; no absence claim.",
        "Trusted: mpmath, scipp.constants values of h and m_n, scipp Variable construction. Float32 cases "
        "whose intermediates leave the single-precision range are generated but not compared.",
        "4/C01",
    ),
    "C10": (
        "Hypothesis-generated chopper configurations vs an independent rotating-disk simulator (reference model); "
        "constructed invalid inputs for the rejection clauses",
        "Generated-input search against a reference model: every reported open/close pair of DiskChopper and of "
        "Chopper.from_disk_chopper(npulses=1..4) is replayed on a rotating-disk simulator written from the module "
        "documentation (open inside, closed just outside, duration, multiset equality with the simulator's openings in "
        "the covered span, so duplicates and omissions are both caught); out-of-phase frequencies and overlapping slit "
        "sets (also modulo 360 deg) are constructed and must raise ValueError.",
        "Trusted: the disk kinematics stated in the module docs; tolerance bands: |delta| in [1e-6,1e-2] rejected, "
        "<= 1e-10 accepted. Which time span the result covers is not asserted (the property does not state it).",
        "4/C10",
    ),
}

NOT_YET = "check not built yet (work in progress; every property is planned to be claimed, see DESIGN.md section 4)"


def main():
    props = [json.loads(line) for line in (ROOT / "properties.jsonl").read_text().splitlines() if line.strip()]
    checks = []
    na = []
    for p in props:
        pid = p["id"]
        if pid in CHECKS and (ROOT / "vf" / "props" / f"{pid.lower()}.py").exists():
            tech, text, note, ref = CHECKS[pid]
            checks.append({
                "property_id": pid,
                "quick_cmd": f"/venv/bin/python -m vf {pid} --tier quick",
                "thorough_cmd": f"/venv/bin/python -m vf {pid} --tier thorough",
                "evidence_file": f"evidence/{pid}.json",
                "replay_cmd_template": f"/venv/bin/python -m vf {pid} --replay {{path}}",
                "engine": "vf",
                "level_claimed": {"category": "exploration", "text": text, "design_ref": "DESIGN.md " + ref},
                "level_note": note,
                "technique": tech,
            })
        else:
            na.append({"property_id": pid, "reason": NOT_YET})
    manifest = {
        "version": 1,
        "setup_cmd": ("/venv/bin/pip install --quiet --no-index --find-links /opt/veriftools/wheels "
                      "--target .deps --upgrade mpmath hypothesis"),
        "hooks": {
            "guard": "SCIPPNEUTRON_VERIF",
            "enable": "no hooks are needed: every property is observable through public return values, "
                      "exceptions and produced bytes; checks import scippneutron from /repo/src as it is",
            "baseline_off_cmd": BASELINE,
            "source_commits": [],
            "add_only": True,
        },
        "engines": [{
            "name": "vf",
            "path": "vf/",
            "serves_properties": [c["property_id"] for c in checks],
            "kind_free_text": "Hypothesis-driven property-based testing with independent reference oracles "
                              "(mpmath closed forms, simulators, decoders/parsers), sharded over 16 processes; "
                              "complete enumeration where the domain is finite",
        }],
        "checks": checks,
        "not_applicable": na,
        "notes": "Run from /verif. VERIF_SEED selects the Hypothesis seed (default 1). Exit 0 held, 1 VIOLATION, "
                 "2 harness error. Known findings: known_findings.json.",
    }
    (ROOT / "MANIFEST.json").write_text(json.dumps(manifest, indent=1) + "\n")
    try:
        import jsonschema

        schema = json.loads(Path("/root/.vp/MANIFEST.schema.json").read_text())
        jsonschema.validate(manifest, schema)
        es = json.loads(Path("/root/.vp/EVIDENCE.schema.json").read_text())
        for c in checks:
            ev = ROOT / c["evidence_file"]
            if ev.exists():
                jsonschema.validate(json.loads(ev.read_text()), es)
            else:
                print("missing evidence", ev)
        print(f"MANIFEST.json valid: {len(checks)} checks, {len(na)} not_applicable")
    except ImportError:
        print("jsonschema not available; not validated")


if __name__ == "__main__":
    main()
