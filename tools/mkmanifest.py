#!/venv/bin/python
"""Regenerate MANIFEST.json from the table below and validate it against the schema."""

import json
import sys
from pathlib import Path

ROOT = Path(__file__).resolve().parent.parent
sys.path.insert(0, str(ROOT))

BASELINE = ("cd /repo && /venv/bin/python -m pytest -ra -q -p no:cacheprovider --timeout=900 "
            "--continue-on-collection-errors")

# property id -> (technique, level text, level note, DESIGN section)
CHECKS = {
    "C01": (
        "Hypothesis-generated operands (values, units, dtypes, shapes) vs closed forms in 50-digit mpmath; "
        "differential between routes; round trips",
        "Generated-input search: every public elastic kernel, every pair of routes to the same quantity, "
        "every invertible conversion and the graph wiring are compared with the de Broglie/Bragg closed "
        "forms evaluated in 50-digit arithmetic on the exact stored operands, at the 1e-11 / 1e-5 bounds "
        "the property states. Held = held on all generated cases; no absence claim.",
        "Trusted: mpmath, scipp.constants values of h and m_n, scipp Variable construction. Float32 cases "
        "whose intermediates leave the single-precision range are generated but not compared.",
        "4/C01",
    ),
    "C10": (
        "Hypothesis-generated chopper configurations vs an independent rotating-disk simulator (reference model); "
        "constructed invalid inputs for the rejection clauses",
        "Generated-input search against a reference model: every reported open/close pair of DiskChopper and of "
        "Chopper.from_disk_chopper(npulses=1..6) is replayed on a rotating-disk simulator written from the module "
        "documentation (open inside, closed just outside, duration, multiset equality with the simulator's openings in "
        "the covered span, so duplicates and omissions are both caught); out-of-phase frequencies and overlapping slit "
        "sets (also modulo 360 deg) are constructed and must raise ValueError, through the DiskChopper methods and "
        "through the cascade entry point alike.",
        "Trusted: the disk kinematics stated in the module docs; tolerance bands: |delta| in [1e-6,1e-2] rejected, "
        "<= 1e-10 accepted. Which rotations exactly the result covers is not asserted (the property does not state "
        "it); only that an expansion over n pulses spans n pulse periods up to one rotation at either end.",
        "4/C10",
    ),
    "C07": (
        "complete enumeration of the per-kernel unit x dtype grid (thorough; seeded sample in quick) against closed "
        "forms in 50-digit mpmath on the stored operands",
        "Enumerated generated-input search: for each conversion / gravity / propagation kernel every combination of "
        "unit per argument and dtype per argument is evaluated at three numeric points and compared with the mpmath "
        "closed form (equivariance by transitivity through the physical reference), with the documented output unit and "
        "the float32/float64 contract asserted. Thorough tier covers the grid completely (exhaustive).",
        "Trusted: mpmath, exact unit factors. int32 operands for which scipp raises DTypeError are counted, not flagged. "
        "The dtype contract is asserted for the kernels that document one (elastic, inelastic, gravity); "
        "time_at_sample_from_tof / propagate_times / wavelength_to_inverse_velocity are checked for values and units only.",
        "4/C07",
    ),
    "C08": (
        "Hypothesis-generated beams, rotations (quaternions), lattices (B with cond <= 1e6) vs mpmath linear algebra; "
        "metamorphic exact transforms (2^k scaling, signed permutations)",
        "Generated-input search against a 50-digit reference: Q vector vs (2 pi/lambda)(e_i - e_f), |Q| vs scalar Q and "
        "2theta, scale invariance (bit-exact for powers of two), rotation equivariance, hkl as the solution of "
        "2 pi R UB hkl = Q with a cond-aware rounding bound, UB = U B, lossless split/reassemble, and graph wiring.",
        "Trusted: mpmath. hkl bound eps*(128 cond + cond^2): the code inverts R*UB explicitly, measured worst 8 eps*cond / "
        "0.1 eps*cond^2.",
        "4/C08",
    ),
    "C11": (
        "Hypothesis-generated programs (pulse, chopper cascades, chop/propagate/lookup sequences) vs an independent "
        "neutron-transmission model; metamorphic order/grouping/two-step relations; invariants on every frame",
        "Model-based generated-input search: sampled neutrons are propagated through an independent transmission model "
        "and compared with point-in-polygon membership of the reported subframes; every subframe of every frame must "
        "stay in the source band, be regular, and have subbounds()/bounds() equal to its vertex extremes; results must "
        "not depend on chopper list order, grouping of chop calls, or one- vs two-step propagation.",
        "Trusted: arrival time = t0 + d*lambda*m_n/h; samples within 1e-9 of a window edge / 1e-7 of a polygon edge are "
        "skipped (counted). Window times in s and propagate/lookup distances in m (implicit preconditions of the code).",
        "4/C11",
    ),
    "C15": (
        "Hypothesis-generated float64 bit patterns, headers and coordinate layouts; bit-exact round trip; independent "
        "text re-parse; complete enumeration of refused inputs",
        "Generated-input search with a round-trip oracle at bit level (coordinate and values identical, variances within "
        "4 ulp), an independent parse of the written text, adversarial headers, files up to 1e4 rows, and an enumerated "
        "refusal facet (documented exception, target untouched).",
        "Trusted: Python float()/repr round trip. 4 ulp is the reading of 'a few units in the last place' (analytic bound 1).",
        "4/C15",
    ),
    "C19": (
        "Hypothesis-generated series (lattice values making slope == tolerance decidable, noise around the tolerance, "
        "float/int/datetime coordinates) vs an exact-rational re-implementation of the definition",
        "Generated-input search against a reference model written from the statement in exact Fraction arithmetic: "
        "plateau bins equal the maximal runs with >= min_n_points points (content bit-for-bit), collapse gives mean and "
        "half-open interval containing all points, in-phase filter keeps exactly the near multiples/divisors.",
        "Trusted: Fraction arithmetic. Cases within rounding of the tolerance are skipped unless numpy certifies the "
        "quotient exact; distance == rtol exactly is left undecided (statement says 'within').",
        "4/C19",
    ),
    "C20": (
        "complete enumeration of all 4046 table rows against an independent CSV re-parse; Hypothesis-generated near-miss "
        "names, lookup sequences and attenuation inputs vs mpmath",
        "All rows of the three bundled tables are enumerated in both tiers (exhaustive) and compared field by field with "
        "an independent csv-module parse; generated one-edit near-miss names must be rejected unless they are genuine "
        "rows; lookup sequences check cache isolation; attenuation vs n*(sigma_s + sigma_a*lambda/1.7982 A) in mpmath.",
        "Trusted: Python csv module, Fraction, mpmath. Variance compared to the exact square within 2e-15 (glibc pow).",
        "4/C20",
    ),
    "C03": (
        "Hypothesis-generated positions/beams in near-degenerate angle classes vs exact mpmath differences, norms and "
        "Kahan angle; metamorphic exact transforms (swap, 2^k scaling, signed permutations, dyadic translations)",
        "Generated-input search against a 50-digit reference on the stored inputs: beams, L1, L2, Ltotal (scatter and "
        "no-scatter) to 4 ulp through kernels, data-array wrappers and graphs; 2theta to 4e-15 rad absolute in every "
        "angle class (which arccos(dot) cannot meet), in [0, pi]; swap and 2^k scaling bit-identical.",
        "Trusted: mpmath. Layouts where the incident beam has a dimension the scattered beam lacks are outside the domain "
        "(two_theta refuses them).",
        "4/C03",
    ),
    "C05": (
        "Hypothesis-generated flight paths, energies, units and dtypes with arrival times constructed in mpmath; "
        "bisection over representable times for the NaN boundary",
        "Generated-input search against a 50-digit reference: direct and indirect kernels and convert() vs the exact "
        "energy transfer of the stored time with a conditioning-aware tolerance; energy conservation across the two "
        "geometries; the NaN switch located by sectioning the representable times and required within 8 ulp (+1e-12 t0) "
        "of the exact t0, NaN below, finite above; never +-inf.",
        "Trusted: mpmath. The 1e-12*t0 allowance covers scipp's own to_unit error for compound units (up to 550 eps).",
        "4/C05",
    ),
    "C16": (
        "Hypothesis-generated parameters, prefixes, units and composites vs the docstring formulas in mpmath; "
        "Gauss-Legendre quadrature for normalisation; exact mirror points for symmetry",
        "Generated-input search against analytic oracles: integral equals amplitude (1e-9), symmetry at exactly "
        "representable mirror points, half maximum at loc +- fwhm/2 with the model's own fwhm, pointwise values vs mpmath "
        "(1e-12), composite = sum of parts bit-exact, prefix independence bit-exact, unit propagation and refusal of "
        "missing/unknown/unprefixed parameters and inconsistent units.",
        "Trusted: mpmath, numpy Gauss-Legendre nodes. Integral/symmetry/fwhm facets draw |loc| <= 100..1e3 scale so the "
        "quadrature nodes are representable; arbitrary locations are covered by the pointwise facet.",
        "4/C16",
    ),
    "C04": (
        "Hypothesis-generated beam/gravity/detector geometries on both sides of the dispatch vs the documented "
        "construction in 50-digit mpmath; differential continuity relation between the two code paths; limits",
        "Generated-input search against a 50-digit reference of the documented construction (raised beam, Kahan angle, "
        "azimuth in the beam-aligned frame) for tilts 0 and 1e-12..1 rad, all detector directions, |g| 0+..100, "
        "wavelength 0..100 A, dense/binned, float32/float64; a metamorphic continuity facet compares tilt 0 with tilt "
        "1e-9..1e-7 (the two implementations); limits lambda->0, g->0; reflectometry variant incl. its refusal.",
        "Trusted: mpmath; the documented L2' ~ L2 approximation is part of the construction. Tolerance 1e-9 rad "
        "(float64), 5e-6 (float32), widened by 2e-10/|b1| where the dispatch may legitimately pick the optimised path.",
        "4/C04",
    ),
    "C12": (
        "Hypothesis-generated builder programs (call order/subset, byte order, pixel count vs chunk size, targets) "
        "decoded by an independent SQW v4 decoder; metamorphic permutation of the calls",
        "Model-based generated-input search: every produced file is decoded byte by byte by an independent decoder "
        "written from the format document: header, BAT size, unique names, expected block set/types, extents start at "
        "the BAT end, are contiguous and end at EOF, each block decodes in exactly its declared size; re-open byte "
        "order and data_block_names; the same calls in another order give the same BAT order and sizes.",
        "Trusted: vf/ref/sqw.py (self-tested on hand-assembled bytes), the format document. Targets: BytesIO, paths "
        "(any suffix) and binary files opened by the caller. Non-ASCII text may be refused (ValueError) but never "
        "written inconsistently; DND metadata always has the 4 axes of the format.",
        "4/C12",
    ),
    "C13": (
        "same generated builder programs; independent decoder vs expectations computed from the inputs "
        "(bit-exact float32 pixels), then differential against the package's own reader with unit-dimension check",
        "Generated-input search with a decode-and-compare oracle: all N pixels in order as float32(value in row unit) "
        "bit for bit (1 ulp when a unit conversion applies), pixel metadata, one experiment record per run (1-based id, "
        "meV, rad), shared instrument/sample containers, DND metadata and zero histogram; Sqw.read_data_block for every "
        "block returns the same numbers/strings/shapes with units convertible to the written ones.",
        "Trusted: vf/ref/sqw.py, exact decimal unit factors. A one-element array and a scalar are identified (the format "
        "cannot distinguish them).",
        "4/C13",
    ),
    "C02": (
        "complete enumeration of the configuration lattice (origin x target x scatter x 2^11 coordinate subsets; "
        "thorough) / stratified seeded sample (quick) against an independent derivability-and-formula model",
        "Enumerated generated-input search against a reference model written from the user guide: for every "
        "configuration, convert() must return the target equal (rtol 1e-9) to the documented formulas evaluated with "
        "present-takes-precedence on deliberately inconsistent coordinate values, or raise exactly RuntimeError when "
        "the target is not derivable or the energy mode is ambiguous; deduce_conversion_graph/conversion_graph fed to "
        "transform_coords reproduces convert. Thorough tier: all 344064 configurations (exhaustive).",
        "Trusted: vf/ref/convmodel.py (numpy, self-tested). Complete over configurations, sampled over coordinate values "
        "(32 value sets per seed). 'Derivable' means derivable in the graph documented for that origin.",
        "4/C02",
    ),
    "C14": (
        "Hypothesis-generated values / documents / builder programs (structure-bearing string fragments) parsed by an "
        "independent CIF 1.1 parser; round-trip comparison with expectations computed from the inputs",
        "Generated-input search with a parse-back oracle: every written document must tokenise under the CIF 1.1 grammar "
        "(independent parser) and yield exactly the supplied tags, values (strings up to surrounding blanks, numbers "
        "re-read exactly, value(su) to printed precision, _su columns = sqrt(variance)), loop shapes and order; comments "
        "only in the comment channel; role ids refer to exactly one author; ASCII only. Builder programs are generated "
        "as call sequences incl. copy and repeated save; targets are StringIO, str / Path (any suffix) and text files "
        "opened by the caller; tags that are not data names (blanks, line breaks, empty, non-ASCII) must be refused or "
        "escaped, never written as they are.",
        "Trusted: vf/ref/cif.py (self-tested on valid and invalid documents). Values <= 200 chars (no line wrapping by "
        "the writer); any ASCII escape of non-ASCII text is accepted; unrepresentable strings may be refused with "
        "ValueError; block names non-empty.",
        "4/C14",
    ),
    "C06": (
        "Hypothesis-generated binned layouts (explicit begin/end, empty bins, gaps, 1-d/2-d grids, dtypes) plus an "
        "enumerated layout grid; differential oracle: dense kernels per bin, bit for bit; preservation invariants",
        "Generated-input differential search: for every bin the event values of the converted coordinate must equal, "
        "bit for bit, the dense kernel chain applied to that bin's events with its pixel's geometry; the bin-edge "
        "coordinate is converted by the same function; weights, variances, event order, bin membership, masks and "
        "unrelated coordinates are preserved and every buffer of the input is bitwise unchanged.",
        "Trusted: the dense kernels (verified against closed forms by C01/C05/C04). Geometry coordinates are kept in the "
        "dim order of the data (scipp refuses transposed event coordinates); raw begin/end indices may be compacted.",
        "4/C06",
    ),
    "C09": (
        "Hypothesis-generated call recipes with aliasing unit/dtype choices and deep argument snapshots; generated "
        "call histories (factory calls interleaved with mutations) checked against pristine expectations",
        "Generated-input search with snapshot and history oracles: 22 recipes covering 210 public callables draw "
        "arguments (incl. the units/dtypes that make internal copy=False conversions aliasing), freeze every argument "
        "before the call and compare after it (also when it raises); histories of factory/lookup calls and mutations of "
        "their results must leave fresh results equal to an independent pristine source (CSV re-parse, subprocess "
        "snapshot, constructor arguments); a registry meta-check fails if a new public callable has no recipe.",
        "Trusted: vf/ref/snapshot.py deep freeze/diff; vf/ref/csvtab.py. 10 public names are explicitly excluded "
        "(plotting / repr helpers), listed in the evidence.",
        "4/C09",
    ),
    "C18": (
        "Hypothesis-generated cylinders, rays, detectors and materials vs an independent ray-cylinder reference "
        "(Gram-Schmidt frame, 50-digit arithmetic), analytic moments, a fine product quadrature; metamorphic rigid "
        "motions and end swap",
        "Generated-input search against geometric reference models: path lengths vs an exact ray/solid intersection "
        "(conditioning-aware tolerance), quadrature points inside the solid with positive weights summing to the volume "
        "and exact low-degree moments, transmission in (0,1], = 1 without attenuation, decreasing with density, "
        "agreement with a fine reference quadrature and invariance under rigid motions / other-end description within "
        "the calibrated accuracy of each quadrature kind.",
        "Trusted: vf/ref/geom.py. Polynomial exactness only to degree 1 (3 for 'cheap') by design of the rules; "
        "weights sum to the volume to 1e-6 (tabulated 8-digit rules); 'mc' kind excluded (random).",
        "4/C18",
    ),
    "C17": (
        "Hypothesis-generated synthetic spectra (peaks, backgrounds, seeded noise, estimates incl. edges/outside, "
        "window widths from sub-grid to full range, model specs) with statistics recomputed from the returned values; "
        "differential batch-vs-single fits",
        "Generated-input search with recomputation oracles: one result per estimate in order and never an exception; "
        "'window too narrow' for windows with fewer points than parameters; batch result of each peak equals fitting it "
        "alone; red-chi2, p (mpmath incomplete gamma) and AIC recomputed from popt and the window data to 1e-9; every "
        "'success' re-checked against each stated requirement; automatic windows inside the data range, containing the "
        "estimate and keeping the neighbour separation; remove_peaks = input minus fitted peaks inside successful "
        "windows, bit-identical outside, input unchanged.",
        "Trusted: vf/ref/fitstats.py, scipy's least-squares (as the code under test uses it). Noise is expanded from a "
        "seed stored in the case (numpy PCG64). Fits are slow: quick tier ~150 fitted data sets.",
        "4/C17",
    ),
}

NOT_YET = "check not built yet (work in progress; every property is planned to be claimed, see DESIGN.md section 4)"


def main():
    props = [json.loads(line) for line in (ROOT / "properties.jsonl").read_text().splitlines() if line.strip()]
    checks = []
    na = []
    for p in props:
        pid = p["id"]
        if pid in CHECKS and (ROOT / "vf" / "props" / f"{pid.lower()}.py").exists():
            tech, text, note, ref = CHECKS[pid]
            checks.append({
                "property_id": pid,
                "quick_cmd": f"/venv/bin/python -m vf {pid} --tier quick",
                "thorough_cmd": f"/venv/bin/python -m vf {pid} --tier thorough",
                "evidence_file": f"evidence/{pid}.json",
                "replay_cmd_template": f"/venv/bin/python -m vf {pid} --replay {{path}}",
                "engine": "vf",
                "level_claimed": {"category": "exploration", "text": text, "design_ref": "DESIGN.md " + ref},
                "level_note": note,
                "technique": tech,
            })
        else:
            na.append({"property_id": pid, "reason": NOT_YET})
    manifest = {
        "version": 1,
        "setup_cmd": ("/venv/bin/pip install --quiet --no-index --find-links /opt/veriftools/wheels "
                      "--target .deps --upgrade mpmath hypothesis atheris"),
        "hooks": {
            "guard": "SCIPPNEUTRON_VERIF",
            "enable": "no hooks are needed: every property is observable through public return values, "
                      "exceptions and produced bytes; checks import scippneutron from /repo/src as it is",
            "baseline_off_cmd": BASELINE,
            "source_commits": [],
            "add_only": True,
        },
        "engines": [{
            "name": "vf",
            "path": "vf/",
            "serves_properties": [c["property_id"] for c in checks],
            "kind_free_text": "Hypothesis-driven property-based testing with independent reference oracles "
                              "(mpmath closed forms, simulators, decoders/parsers), sharded over 16 processes; "
                              "complete enumeration where the domain is finite",
        }],
        "checks": checks,
        "not_applicable": na,
        "notes": "Run from /verif. VERIF_SEED selects the Hypothesis seed (default 1). Exit 0 held, 1 VIOLATION, "
                 "2 harness error. Known findings: known_findings.json.",
    }
    (ROOT / "MANIFEST.json").write_text(json.dumps(manifest, indent=1) + "\n")
    try:
        import jsonschema

        schema = json.loads(Path("/root/.vp/MANIFEST.schema.json").read_text())
        jsonschema.validate(manifest, schema)
        es = json.loads(Path("/root/.vp/EVIDENCE.schema.json").read_text())
        for c in checks:
            ev = ROOT / c["evidence_file"]
            if ev.exists():
                jsonschema.validate(json.loads(ev.read_text()), es)
            else:
                print("missing evidence", ev)
        print(f"MANIFEST.json valid: {len(checks)} checks, {len(na)} not_applicable")
    except ImportError:
        print("jsonschema not available; not validated")


if __name__ == "__main__":
    main()
