#!/venv/bin/python
"""Scratch-copy mutation driver.

    tools/mut.py <PROP> <relative file under src/scippneutron> <old> <new> [--tier quick] [--facet f]

Copies /repo/src to a scratch directory under /tmp, replaces exactly one occurrence of <old> by
<new> in the named file, runs the property's check against the copy (VERIF_REPO) and removes the
copy. Prints KILLED / SURVIVED and appends a line to MUTATION_LOG.jsonl.
"""

import argparse
import json
import os
import shutil
import subprocess
import sys
import tempfile
import time
from pathlib import Path

ROOT = Path(__file__).resolve().parent.parent


def main():
    ap = argparse.ArgumentParser()
    ap.add_argument("prop")
    ap.add_argument("file")
    ap.add_argument("old")
    ap.add_argument("new")
    ap.add_argument("--tier", default="quick")
    ap.add_argument("--facet", action="append")
    ap.add_argument("--count", type=int, default=1, help="expected number of occurrences")
    ap.add_argument("--nth", type=int, default=0, help="which occurrence to replace")
    ap.add_argument("--note", default="")
    a = ap.parse_args()
    tmp = Path(tempfile.mkdtemp(prefix="vfmut-"))
    try:
        shutil.copytree("/repo/src", tmp / "src", ignore=shutil.ignore_patterns("__pycache__"))
        f = tmp / "src" / "scippneutron" / a.file
        text = f.read_text()
        n = text.count(a.old)
        if n != a.count:
            print(f"expected {a.count} occurrence(s) of {a.old!r}, found {n}")
            return 3
        parts = text.split(a.old)
        text = a.old.join(parts[: a.nth + 1]) + a.new + a.old.join(parts[a.nth + 1:])
        f.write_text(text)
        env = dict(os.environ, VERIF_REPO=str(tmp))
        cmd = [sys.executable, "-m", "vf", a.prop, "--tier", a.tier]
        for fc in a.facet or []:
            cmd += ["--facet", fc]
        t0 = time.time()
        r = subprocess.run(cmd, cwd=ROOT, env=env, capture_output=True, text=True)
        wall = time.time() - t0
        out = r.stdout + r.stderr
        viol = [ln for ln in out.splitlines() if "violation in" in ln or ln.startswith("VIOLATION")]
        status = {0: "SURVIVED", 1: "KILLED"}.get(r.returncode, f"HARNESS({r.returncode})")
        if r.returncode == 1 and not any(ln.startswith("VIOLATION") for ln in out.splitlines()):
            status = "HARNESS(1: no VIOLATION line)"
        print(f"{status} {a.prop} {a.file}: {a.old!r} -> {a.new!r} [{wall:.0f}s]")
        for ln in viol[:4]:
            print("   ", ln[:300])
        if r.returncode not in (0, 1):
            print(out[-3000:])
        with open(ROOT / "MUTATION_LOG.jsonl", "a") as fh:
            fh.write(json.dumps({
                "property": a.prop, "file": a.file, "old": a.old, "new": a.new, "nth": a.nth,
                "tier": a.tier, "status": status, "wall_s": round(wall, 1),
                "first": viol[0][:300] if viol else "", "note": a.note}) + "\n")
        return 0
    finally:
        shutil.rmtree(tmp, ignore_errors=True)


if __name__ == "__main__":
    sys.exit(main())
