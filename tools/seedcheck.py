#!/venv/bin/python
"""Confirm a seeded change and run the checks against it.

    tools/seedcheck.py <seed id> <property> <patch file> <demo file> [--needs "..."] [--also C07,C09]
                       [--tier quick] [--skip-suite]

In a scratch worktree of /repo HEAD (removed afterwards):
 1. the demo must exit 0 on the clean tree,
 2. the patch must apply, the package must import, the demo must exit non-zero,
 3. the package's own test suite must pass exactly the tests it passes without the change,
 4. the property's check (and any --also checks) is run against the patched tree (VERIF_REPO).
Everything is recorded in seeded/<seed id>/{patch.diff, demo.py, meta.json}.
"""

import argparse
import json
import os
import shutil
import subprocess
import sys
import tempfile
import time
import xml.etree.ElementTree as ET
from pathlib import Path

ROOT = Path(__file__).resolve().parent.parent
PY = "/venv/bin/python"
BASE_XML = ROOT / ".scratch_evidence" / "baseline_junit.xml"


def passed_set(xml_path):
    tree = ET.parse(xml_path)
    out = set()
    for tc in tree.iter("testcase"):
        if not any(ch.tag in ("failure", "error", "skipped") for ch in tc):
            out.add(f"{tc.get('classname')}::{tc.get('name')}")
    return out


def run_suite(tree, xml_path):
    env = dict(os.environ, PYTHONPATH=f"{tree}/src")
    subprocess.run([PY, "-m", "pytest", "-q", "-p", "no:cacheprovider", "--timeout=900",
                    "--continue-on-collection-errors", f"--junitxml={xml_path}"],
                   cwd=tree, env=env, capture_output=True, text=True)
    return passed_set(xml_path)


def main():
    ap = argparse.ArgumentParser()
    ap.add_argument("seed")
    ap.add_argument("prop")
    ap.add_argument("patch")
    ap.add_argument("demo")
    ap.add_argument("--needs", default="")
    ap.add_argument("--what", default="")
    ap.add_argument("--also", default="")
    ap.add_argument("--tier", default="quick")
    ap.add_argument("--skip-suite", action="store_true")
    a = ap.parse_args()
    head = subprocess.run(["git", "-C", "/repo", "rev-parse", "--short", "HEAD"], capture_output=True, text=True).stdout.strip()
    wt = Path(tempfile.mkdtemp(prefix="vfseed-"))
    wt.rmdir()
    meta = {"seed": a.seed, "property": a.prop, "base_commit": head, "needs_to_manifest": a.needs, "what": a.what}
    try:
        subprocess.run(["git", "-C", "/repo", "worktree", "add", "-q", "--detach", str(wt), "HEAD"], check=True)
        env = dict(os.environ, PYTHONPATH=f"{wt}/src")
        demo = Path(a.demo).resolve()
        r0 = subprocess.run([PY, str(demo)], cwd=wt, env=env, capture_output=True, text=True, timeout=1800)
        meta["demo_clean_exit"] = r0.returncode
        if not a.skip_suite and not BASE_XML.exists():
            BASE_XML.parent.mkdir(exist_ok=True)
            run_suite(wt, BASE_XML)
        ap_ = subprocess.run(["git", "-C", str(wt), "apply", str(Path(a.patch).resolve())], capture_output=True, text=True)
        if ap_.returncode != 0:
            ap_ = subprocess.run(["git", "-C", str(wt), "apply", "--3way", str(Path(a.patch).resolve())],
                                 capture_output=True, text=True)
            subprocess.run(["git", "-C", str(wt), "reset", "-q"], capture_output=True)
        if ap_.returncode != 0:
            print("patch does not apply:", ap_.stderr)
            return 3
        imp = subprocess.run([PY, "-c", "import scippneutron, scippneutron.io.sqw, scippneutron.io.cif, scippneutron.peaks, "
                              "scippneutron.absorption, scippneutron.tof.chopper_cascade, scippneutron.atoms"],
                             cwd=wt, env=env, capture_output=True, text=True)
        meta["imports"] = imp.returncode == 0
        r1 = subprocess.run([PY, str(demo)], cwd=wt, env=env, capture_output=True, text=True, timeout=1800)
        meta["demo_patched_exit"] = r1.returncode
        meta["demo_patched_tail"] = (r1.stdout + r1.stderr)[-600:]
        if not a.skip_suite:
            base = passed_set(BASE_XML)
            t0 = time.time()
            now = run_suite(wt, wt / "junit.xml")
            meta["suite"] = {"baseline_passed": len(base), "patched_passed": len(now),
                             "newly_failing": sorted(base - now)[:20], "wall_s": round(time.time() - t0)}
        results = {}
        for prop in [a.prop, *[p for p in a.also.split(",") if p]]:
            t0 = time.time()
            r = subprocess.run([PY, "-m", "vf", prop, "--tier", a.tier], cwd=ROOT,
                               env=dict(os.environ, VERIF_REPO=str(wt)), capture_output=True, text=True)
            out = r.stdout + r.stderr
            results[prop] = {
                "exit": r.returncode, "wall_s": round(time.time() - t0, 1),
                "violations": [ln.strip()[:400] for ln in out.splitlines() if "violation in" in ln][:6],
                "tail": out[-500:] if r.returncode not in (0, 1) else "",
            }
        meta["checks"] = results
        # exit 1 alone is not enough (a crashing harness also exits 1): a violation line must be there
        meta["detected"] = results[a.prop]["exit"] == 1 and bool(results[a.prop]["violations"])
        meta["ran"] = (f"tools/seedcheck.py: demo on clean tree (exit {meta['demo_clean_exit']}), patch applied to a scratch "
                       f"worktree of {head}, demo (exit {meta['demo_patched_exit']}), full pytest suite vs baseline, "
                       f"`python -m vf {a.prop} --tier {a.tier}` with VERIF_REPO=<scratch>")
        d = ROOT / "seeded" / a.seed
        d.mkdir(parents=True, exist_ok=True)
        if Path(a.patch).resolve() != (d / "patch.diff").resolve():
            shutil.copy(a.patch, d / "patch.diff")
        if Path(a.demo).resolve() != (d / "demo.py").resolve():
            shutil.copy(a.demo, d / "demo.py")
        old = d / "meta.json"
        if old.exists():
            prev = json.loads(old.read_text())
            if "suite" in prev and "suite" not in meta:
                meta["suite"] = prev["suite"]
            if prev.get("detected") is False and meta["detected"]:
                meta["first_run_missed"] = True
                meta["history"] = prev.get("history", []) + [
                    {"detected": False, "checks": prev.get("checks"), "note": "before the check was strengthened"}]
            elif "history" in prev:
                meta["history"] = prev["history"]
                meta["first_run_missed"] = prev.get("first_run_missed", False)
        (d / "meta.json").write_text(json.dumps(meta, indent=1) + "\n")
        ok = (meta["demo_clean_exit"] == 0 and meta["demo_patched_exit"] != 0 and meta["imports"]
              and (a.skip_suite or not meta["suite"]["newly_failing"]))
        print(json.dumps({k: meta[k] for k in ("seed", "demo_clean_exit", "demo_patched_exit", "detected")}
                         | {"valid_seed": ok, "suite": meta.get("suite", {}).get("newly_failing", "skipped"),
                            "violations": results[a.prop]["violations"][:2], "exit": results[a.prop]["exit"]}, indent=1))
        return 0
    finally:
        subprocess.run(["git", "-C", "/repo", "worktree", "remove", "--force", str(wt)], capture_output=True)
        shutil.rmtree(wt, ignore_errors=True)


if __name__ == "__main__":
    sys.exit(main())
