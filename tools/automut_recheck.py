#!/venv/bin/python
"""Second pass over automut/<PROP>.jsonl: a mutant that the property's own check did not kill is run
against the checks of the *other* properties anchored in the same file (the anchored files are
shared: conversion/tof.py belongs to six properties).  Adds `killed_by_other` to the record.

    tools/automut_recheck.py [PROP ...] [--workers 3] [--jobs 4]
"""

import argparse
import json
import os
import shutil
import subprocess
import sys
import tempfile
from concurrent.futures import ThreadPoolExecutor
from pathlib import Path

sys.path.insert(0, str(Path(__file__).resolve().parent))
import automut  # noqa: E402

ROOT = automut.ROOT
OUT = automut.OUT
PY = automut.PY


OWN = False


def recheck(rec, jobs):
    others = [p for p in automut.props_anchored_in(rec["file"]) if p != rec["property"]]
    if OWN:
        # the property's own check again (it has been strengthened since the first pass)
        others = [rec["property"]]
        rec.pop("killed_by_other", None)
    rec["rechecked"] = others
    if not others:
        return rec
    tmp = Path(tempfile.mkdtemp(prefix="vfam-"))
    try:
        shutil.copytree("/repo/src", tmp / "src", ignore=shutil.ignore_patterns("__pycache__"))
        f = tmp / rec["file"]
        srcb = f.read_bytes()
        new, old = automut.apply(srcb, automut.offsets(srcb.decode("utf-8")), rec)
        if old != rec.get("old"):
            rec["recheck_note"] = "source moved since the first pass"
            return rec
        f.write_bytes(new)
        env = dict(os.environ, VERIF_REPO=str(tmp), VERIF_JOBS=str(jobs), VERIF_SEED="1")
        for p in others:
            r = subprocess.run([PY, "-m", "vf", p, "--tier", "quick"], cwd=ROOT, env=env, capture_output=True, text=True)
            lines = (r.stdout + r.stderr).splitlines()
            if r.returncode == 1 and any(ln.startswith("VIOLATION") for ln in lines):
                rec["killed_by_other"] = p + (" (strengthened)" if OWN else "")
                rec["other_first"] = next((ln.strip() for ln in lines if "violation in" in ln), "")[:300]
                break
        return rec
    finally:
        shutil.rmtree(tmp, ignore_errors=True)


def main():
    ap = argparse.ArgumentParser()
    ap.add_argument("props", nargs="*")
    ap.add_argument("--workers", type=int, default=3)
    ap.add_argument("--jobs", type=int, default=4)
    ap.add_argument("--own", action="store_true", help="re-run the property's own (strengthened) check")
    ap.add_argument("--tests-only", action="store_true", help="only mutants that the package's tests notice")
    a = ap.parse_args()
    global OWN
    OWN = a.own
    files = sorted(OUT.glob("C*.jsonl"))
    if a.props:
        files = [f for f in files if f.stem in {p.upper() for p in a.props}]
    for f in files:
        recs = [json.loads(ln) for ln in f.read_text().splitlines()]
        todo = [r for r in recs if r["status"] != "KILLED" and not r["status"].startswith(("SYNTAX", "NOOP"))
                and ("rechecked" not in r or (OWN and not r.get("killed_by_other")))]
        if a.tests_only:
            todo = [r for r in todo if "TESTS-KILL" in r["status"] and "hypothesis" not in r.get("suite_first", "")]
        print(f.stem, len(todo), "to recheck", flush=True)
        with ThreadPoolExecutor(a.workers) as ex:
            for r in ex.map(lambda r: recheck(r, a.jobs), todo):
                print(f"  {r['status']:12s} {r['file'].split('/')[-1]}:{r['line']} {r['op']} -> "
                      f"{r.get('killed_by_other', '-')}", flush=True)
        f.write_text("".join(json.dumps(r) + "\n" for r in recs))


if __name__ == "__main__":
    main()
