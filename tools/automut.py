#!/venv/bin/python
"""Generic (AST-driven) mutation sweep over the code each property is anchored in.

    tools/automut.py C10 [--max 120] [--seed 1] [--workers 4] [--jobs 4] [--whole-file]
                     [--ops cmp,binop,...] [--no-suite]

For the files named in the property's anchors (restricted to the anchored functions unless
--whole-file), enumerate one-node mutants (comparison / arithmetic / boolean operator swaps,
constants, call-name swaps such as min<->max, argument swaps, dropped statements, dropped
`raise`, forced `if` conditions), take a seeded sample of at most --max, and for each

  1. write it into a scratch copy of /repo/src under /tmp (removed afterwards),
  2. run the property's quick check against the copy (VERIF_REPO),
  3. only if the check stays green: run the package's own test suite against the copy
     (baseline failures deselected, stop at the first new failure).

A mutant that survives both is what matters: either it is equivalent / outside the property
(to be said in AUTOMUT_REPORT.md) or the check has a hole.  Results: automut/<PROP>.jsonl.
Nothing is ever written to /repo.
"""

from __future__ import annotations

import argparse
import ast
import copy
import json
import os
import random
import shutil
import subprocess
import sys
import tempfile
import time
from concurrent.futures import ThreadPoolExecutor
from pathlib import Path

ROOT = Path(__file__).resolve().parent.parent
PY = "/venv/bin/python"
OUT = Path(os.environ.get("AUTOMUT_OUT", ROOT / "automut"))

CMP = {ast.Lt: ast.LtE, ast.LtE: ast.Lt, ast.Gt: ast.GtE, ast.GtE: ast.Gt, ast.Eq: ast.NotEq,
       ast.NotEq: ast.Eq, ast.Is: ast.IsNot, ast.IsNot: ast.Is, ast.In: ast.NotIn, ast.NotIn: ast.In}
CMP2 = {ast.Lt: ast.Gt, ast.Gt: ast.Lt, ast.LtE: ast.GtE, ast.GtE: ast.LtE}
BIN = {ast.Add: ast.Sub, ast.Sub: ast.Add, ast.Mult: ast.Div, ast.Div: ast.Mult, ast.Pow: ast.Mult,
       ast.FloorDiv: ast.Div, ast.Mod: ast.FloorDiv, ast.BitAnd: ast.BitOr, ast.BitOr: ast.BitAnd,
       ast.MatMult: ast.Mult}
NAMES = {}
for a, b in [("min", "max"), ("minimum", "maximum"), ("nanmin", "nanmax"), ("argmin", "argmax"),
             ("floor", "ceil"), ("sin", "cos"), ("any", "all"), ("begin", "end"), ("time_open", "time_close"),
             ("lower", "upper"), ("left", "right"), ("start", "stop"), ("L1", "L2"), ("cumsum", "cumprod"),
             ("incident_beam", "scattered_beam"), ("incident_energy", "final_energy"), ("sqrt", "abs"),
             ("floor_divide", "divide"), ("zeros", "ones"), ("zeros_like", "ones_like"), ("first", "last"),
             ("time_offset_open", "time_offset_close"), ("variances", "values"), ("append", "insert_first"),
             ("little", "big"), ("write_u32", "write_u64"), ("read_u32", "read_u64"), ("sorted", "list"),
             ("exp", "expm1"), ("log", "log1p"), ("atan2", "hypot"), ("cross", "dot_not"), ("round", "floor_r"),
             ("isfinite", "isnan"), ("start_time", "end_time"), ("start_wavelength", "end_wavelength")]:
    NAMES[a] = b
    if not b.endswith(("_first", "_not", "_r")):
        NAMES[b] = a
# one-directional entries whose target does not exist are removed
for k in [k for k, v in NAMES.items() if v in ("insert_first", "dot_not", "floor_r")]:
    del NAMES[k]


def anchored(prop):
    for line in open(ROOT / "properties.jsonl"):
        p = json.loads(line)
        if p["id"] == prop:
            files = [f for f in p["anchors"]["files"] if f.endswith(".py")]
            funcs = {}
            for m in p["anchors"].get("mechanism", []):
                w = m.get("where", "")
                if ":" not in w:
                    continue
                path, names = w.split(":", 1)
                for n in names.replace(";", ",").split(","):
                    n = n.strip().split("(")[0].strip()
                    if n:
                        funcs.setdefault(path.strip(), set()).add(n.split(".")[-1])
                        if "." in n:
                            funcs[path.strip()].add(n.split(".")[0])
            return files, funcs
    raise SystemExit(f"unknown property {prop}")


class Collector(ast.NodeVisitor):
    def __init__(self, src, wanted):
        self.src = src
        self.wanted = wanted          # set of function/class names or None (whole file)
        self.stack = []
        self.muts = []                # (op, node, replacement source)
        self.docstrings = set()

    def inside(self):
        return self.wanted is None or any(n in self.wanted for n in self.stack)

    def add(self, op, node, new_src, note=""):
        if not self.inside():
            return
        self.muts.append({"op": op, "line": node.lineno, "col": node.col_offset,
                          "end_line": node.end_lineno, "end_col": node.end_col_offset,
                          "new": new_src, "where": ".".join(self.stack), "note": note})

    def _scope(self, node):
        self.stack.append(node.name)
        body = node.body
        if body and isinstance(body[0], ast.Expr) and isinstance(getattr(body[0], "value", None), ast.Constant) \
                and isinstance(body[0].value.value, str):
            self.docstrings.add(id(body[0]))
            self.docstrings.add(id(body[0].value))
        # do not mutate decorators / annotations / defaults' annotations
        for st_ in body:
            self.visit(st_)
        if isinstance(node, (ast.FunctionDef, ast.AsyncFunctionDef)):
            for d in node.args.defaults + [d for d in node.args.kw_defaults if d is not None]:
                self.visit(d)
        self.stack.pop()

    visit_FunctionDef = visit_AsyncFunctionDef = visit_ClassDef = _scope

    def visit_AnnAssign(self, node):
        if node.value is not None:
            self.visit(node.value)

    def visit_Compare(self, node):
        if len(node.ops) == 1:
            for table, tag in ((CMP, "cmp"), (CMP2, "cmp-flip")):
                t = table.get(type(node.ops[0]))
                if t is not None:
                    n = copy.deepcopy(node)
                    n.ops = [t()]
                    self.add(tag, node, "(" + ast.unparse(n) + ")")
        self.generic_visit(node)

    def visit_BinOp(self, node):
        t = BIN.get(type(node.op))
        if t is not None and not (isinstance(node.op, ast.Mod) and isinstance(node.left, ast.Constant)
                                  and isinstance(node.left.value, str)):
            n = copy.deepcopy(node)
            n.op = t()
            self.add("binop", node, "(" + ast.unparse(n) + ")")
        if isinstance(node.op, (ast.Sub, ast.Div, ast.Pow, ast.MatMult)):
            n = copy.deepcopy(node)
            n.left, n.right = n.right, n.left
            self.add("binop-swap", node, "(" + ast.unparse(n) + ")")
        self.generic_visit(node)

    def visit_BoolOp(self, node):
        n = copy.deepcopy(node)
        n.op = ast.Or() if isinstance(node.op, ast.And) else ast.And()
        self.add("boolop", node, "(" + ast.unparse(n) + ")")
        self.generic_visit(node)

    def visit_UnaryOp(self, node):
        if isinstance(node.op, (ast.Not, ast.USub)):
            self.add("unary-drop", node, "(" + ast.unparse(node.operand) + ")")
        self.generic_visit(node)

    def visit_Constant(self, node):
        if id(node) in self.docstrings:
            return
        v = node.value
        if isinstance(v, bool):
            self.add("const-bool", node, repr(not v))
        elif isinstance(v, int):
            self.add("const-int+1", node, repr(v + 1))
            if v != 0:
                self.add("const-int-1", node, repr(v - 1))
        elif isinstance(v, float):
            self.add("const-float*1.01", node, repr(v * 1.01 if v else 1e-3))
            self.add("const-float*(1+1e-7)", node, repr(v * (1 + 1e-7)) if v else "1e-12")

    def visit_JoinedStr(self, node):       # f-strings: messages, not logic
        return

    def visit_Call(self, node):
        if len(node.args) >= 2 and not any(isinstance(a, ast.Starred) for a in node.args):
            n = copy.deepcopy(node)
            n.args[0], n.args[1] = n.args[1], n.args[0]
            if ast.unparse(n) != ast.unparse(node):
                self.add("arg-swap", node, ast.unparse(n))
        self.generic_visit(node)

    def visit_Name(self, node):
        if isinstance(node.ctx, ast.Load) and node.id in NAMES:
            self.add("name-swap", node, NAMES[node.id])

    def visit_Attribute(self, node):
        if isinstance(node.ctx, ast.Load) and node.attr in NAMES:
            n = copy.deepcopy(node)
            n.attr = NAMES[node.attr]
            self.add("name-swap", node, ast.unparse(n))
        self.generic_visit(node)

    def visit_keyword(self, node):
        self.visit(node.value)

    def visit_Expr(self, node):
        if id(node) in self.docstrings:
            return
        if isinstance(node.value, ast.Call):
            self.add("stmt-drop", node, "pass")
        self.generic_visit(node)

    def visit_AugAssign(self, node):
        self.add("stmt-drop", node, "pass")
        self.generic_visit(node)

    def visit_Raise(self, node):
        self.add("raise-drop", node, "pass")

    def visit_If(self, node):
        self.add("if-true", node.test, "True")
        self.add("if-false", node.test, "False")
        self.generic_visit(node)

    def visit_IfExp(self, node):
        self.add("ifexp-true", node.test, "True")
        self.add("ifexp-false", node.test, "False")
        self.generic_visit(node)

    def visit_Return(self, node):
        self.generic_visit(node)

    def visit_Subscript(self, node):
        # mutate the index expression (slices), not type subscripts in annotations (not visited)
        self.generic_visit(node)


def offsets(src):
    offs = [0]
    for ln in src.splitlines(keepends=True):
        offs.append(offs[-1] + len(ln.encode("utf-8")))
    return offs


def apply(src_bytes, offs, m):
    a = offs[m["line"] - 1] + m["col"]
    b = offs[m["end_line"] - 1] + m["end_col"]
    return src_bytes[:a] + m["new"].encode("utf-8") + src_bytes[b:], src_bytes[a:b].decode("utf-8")


def enumerate_mutants(prop, whole_file):
    files, funcs = anchored(prop)
    out = []
    for rel in files:
        path = Path("/repo") / rel
        src = path.read_text()
        tree = ast.parse(src)
        wanted = None if whole_file or not funcs.get(rel) else funcs[rel]
        c = Collector(src, wanted)
        for node in tree.body:
            c.visit(node)
        for m in c.muts:
            m["file"] = rel
            out.append(m)
    return out


def baseline_deselect():
    f = OUT / "baseline_fail.json"
    if f.exists():
        return json.loads(f.read_text())
    OUT.mkdir(exist_ok=True)
    xml = OUT / "_baseline.xml"
    subprocess.run([PY, "-m", "pytest", "-q", "-p", "no:cacheprovider", "--timeout=900", "-n", "8",
                    "--continue-on-collection-errors", f"--junitxml={xml}"], cwd="/repo",
                   env=dict(os.environ, PYTHONPATH="/repo/src"), capture_output=True, text=True)
    import xml.etree.ElementTree as ET
    bad = []
    for tc in ET.parse(xml).iter("testcase"):
        if any(ch.tag in ("failure", "error") for ch in tc):
            bad.append((tc.get("classname"), tc.get("name")))
    xml.unlink()
    # node ids: tests/a/b_test.py::name
    # a collection error is reported as a testcase without a name whose classname is the module
    ids = sorted({("IGNORE:" + n.replace(".", "/") + ".py") if not c else (c.replace(".", "/") + ".py::" + n)
                  for c, n in bad})
    f.write_text(json.dumps(ids, indent=1))
    return ids


_ANCHORED_IN = {}


def props_anchored_in(rel):
    if not _ANCHORED_IN:
        for line in open(ROOT / "properties.jsonl"):
            p = json.loads(line)
            for f in p["anchors"]["files"]:
                _ANCHORED_IN.setdefault(f, []).append(p["id"])
    return _ANCHORED_IN.get(rel, [])


def run_one(prop, m, jobs, suite, desel, extra_props):
    tmp = Path(tempfile.mkdtemp(prefix="vfam-"))
    rec = dict(m, property=prop)
    if extra_props == ["AUTO"]:
        extra_props = [p for p in props_anchored_in(m["file"]) if p != prop]
    rec["checks_tried"] = [prop, *extra_props]
    try:
        shutil.copytree("/repo/src", tmp / "src", ignore=shutil.ignore_patterns("__pycache__"))
        f = tmp / m["file"]
        srcb = f.read_bytes()
        new, old = apply(srcb, offsets(srcb.decode("utf-8")), m)
        rec["old"] = old
        if new == srcb:
            rec["status"] = "NOOP"
            return rec
        f.write_bytes(new)
        try:
            compile(new, str(f), "exec")
        except SyntaxError as e:
            rec["status"] = "SYNTAX"
            rec["detail"] = str(e)
            return rec
        env = dict(os.environ, VERIF_REPO=str(tmp), VERIF_JOBS=str(jobs), VERIF_SEED="1")
        killed_by = None
        t0 = time.time()
        for p in [prop, *extra_props]:
            r = subprocess.run([PY, "-m", "vf", p, "--tier", "quick"], cwd=ROOT, env=env,
                               capture_output=True, text=True)
            lines = (r.stdout + r.stderr).splitlines()
            if r.returncode == 1 and any(ln.startswith("VIOLATION") for ln in lines):
                killed_by = p
                rec["first"] = next((ln.strip() for ln in lines if "violation in" in ln), "")[:300]
                break
            if r.returncode not in (0, 1):
                rec.setdefault("harness", []).append({p: "\n".join(lines[-6:])[-600:]})
        rec["check_wall_s"] = round(time.time() - t0, 1)
        if killed_by:
            rec["status"] = "KILLED"
            rec["killed_by"] = killed_by
            return rec
        if rec.get("harness"):
            rec["status"] = "HARNESS"
            # a harness error is not a detection; fall through to the suite so that we know
            # whether the mutant is a realistic one
        if not suite:
            rec.setdefault("status", "SURVIVED(check)")
            return rec
        t0 = time.time()
        # tests/masking_tool_test.py (a matplotlib widget) fails under xdist on the clean tree as well
        args = [PY, "-m", "pytest", "-q", "-x", "-p", "no:cacheprovider", "--timeout=600", "-n", "4", "tests",
                "--ignore=tests/masking_tool_test.py"]
        for d in desel:
            args += ["--ignore=" + d[7:]] if d.startswith("IGNORE:") else ["--deselect", d]
        r = subprocess.run(args, cwd="/repo", env=dict(os.environ, PYTHONPATH=str(tmp / "src")),
                           capture_output=True, text=True)
        rec["suite_wall_s"] = round(time.time() - t0, 1)
        tail = (r.stdout + r.stderr).strip().splitlines()[-1:] or [""]
        rec["suite_tail"] = tail[0][-200:]
        if r.returncode == 0:
            rec["status"] = ("HARNESS+" if rec.get("harness") else "") + "SURVIVED"
        else:
            rec["status"] = ("HARNESS+" if rec.get("harness") else "") + "TESTS-KILL"
            fl = [ln for ln in (r.stdout + r.stderr).splitlines() if ln.startswith(("FAILED", "ERROR"))]
            rec["suite_first"] = fl[0][:200] if fl else ""
        return rec
    finally:
        shutil.rmtree(tmp, ignore_errors=True)


def main():
    ap = argparse.ArgumentParser()
    ap.add_argument("prop")
    ap.add_argument("--max", type=int, default=120)
    ap.add_argument("--seed", type=int, default=1)
    ap.add_argument("--workers", type=int, default=4)
    ap.add_argument("--jobs", type=int, default=4)
    ap.add_argument("--whole-file", action="store_true")
    ap.add_argument("--ops", default="")
    ap.add_argument("--no-suite", action="store_true")
    ap.add_argument("--also", default="", help="other properties to try before declaring a survivor")
    ap.add_argument("--list", action="store_true")
    a = ap.parse_args()
    prop = a.prop.upper()
    muts = enumerate_mutants(prop, a.whole_file)
    if a.ops:
        keep = set(a.ops.split(","))
        muts = [m for m in muts if m["op"] in keep]
    rng = random.Random(a.seed)
    # stratified: shuffle, then round-robin over (file, op) classes
    by = {}
    for m in muts:
        by.setdefault((m["file"], m["op"]), []).append(m)
    for v in by.values():
        rng.shuffle(v)
    keys = sorted(by)
    rng.shuffle(keys)
    sample = []
    while len(sample) < a.max and any(by.values()):
        for k in keys:
            if by[k] and len(sample) < a.max:
                sample.append(by[k].pop())
    print(f"{prop}: {len(muts)} mutants enumerated, {len(sample)} sampled", flush=True)
    if a.list:
        for m in sample:
            print(m["file"], m["line"], m["op"], "->", m["new"][:60])
        return 0
    OUT.mkdir(exist_ok=True)
    done = set()
    outp = OUT / f"{prop}.jsonl"
    if outp.exists():
        for ln in outp.read_text().splitlines():
            r = json.loads(ln)
            done.add((r["file"], r["line"], r["col"], r["op"], r["new"]))
    sample = [m for m in sample if (m["file"], m["line"], m["col"], m["op"], m["new"]) not in done]
    desel = [] if a.no_suite else baseline_deselect()
    extra = [p for p in a.also.upper().split(",") if p]
    counts = {}
    with ThreadPoolExecutor(a.workers) as ex, open(outp, "a") as fh:
        for rec in ex.map(lambda m: run_one(prop, m, a.jobs, not a.no_suite, desel, extra), sample):
            counts[rec["status"]] = counts.get(rec["status"], 0) + 1
            fh.write(json.dumps(rec) + "\n")
            fh.flush()
            print(f"{rec['status']:12s} {rec['file'].split('/')[-1]}:{rec['line']} {rec['op']}: "
                  f"{rec.get('old', '')[:50]!r} -> {rec['new'][:50]!r}", flush=True)
    print(prop, counts)
    return 0


if __name__ == "__main__":
    sys.exit(main())
