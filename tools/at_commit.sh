#!/bin/bash
# tools/at_commit.sh <commit> <command...> : run a command with VERIF_REPO pointing at a scratch
# worktree of /repo at <commit>; the worktree is removed afterwards.
set -u
commit=$1; shift
dir=$(mktemp -d /tmp/vfwt-XXXXXX)
git -C /repo worktree add -q --detach "$dir" "$commit" || exit 3
VERIF_REPO="$dir" "$@"
rc=$?
git -C /repo worktree remove --force "$dir"
exit $rc
