#!/venv/bin/python
"""Summarise MUTATION_LOG.jsonl (appended by tools/mut.py) into MUTATION_REPORT.md."""

import json
from collections import defaultdict
from pathlib import Path

ROOT = Path(__file__).resolve().parent.parent

NOTES = {
    # (property, old snippet prefix) -> why a survivor is acceptable
}


def main():
    rows = [json.loads(line) for line in (ROOT / "MUTATION_LOG.jsonl").read_text().splitlines() if line.strip()]
    # keep the last run of each distinct mutant
    last = {}
    for r in rows:
        last[(r["property"], r["file"], r["old"], r["new"], r.get("nth", 0))] = r
    by_prop = defaultdict(list)
    for r in last.values():
        by_prop[r["property"]].append(r)
    out = ["# Mutation report", "",
           "One-place textual mutants applied to a scratch copy of `/repo/src` by `tools/mut.py` and run against the "
           "property's quick tier (`VERIF_REPO=<scratch>`). KILLED = the check exited 1 with a VIOLATION line; "
           "SURVIVED = exit 0. Mutants that made the check fail for harness reasons are listed as HARNESS. "
           "Generated from `MUTATION_LOG.jsonl` (last run of each distinct mutant).", ""]
    tot = defaultdict(int)
    for prop in sorted(by_prop):
        rs = by_prop[prop]
        k = sum(r["status"] == "KILLED" for r in rs)
        s = sum(r["status"] == "SURVIVED" for r in rs)
        out += [f"## {prop}: {k} killed, {s} survived, {len(rs) - k - s} other", "",
                "| status | file | mutation | first violation / note |", "|---|---|---|---|"]
        for r in sorted(rs, key=lambda r: (r["status"] != "SURVIVED", r["file"], r["old"])):
            tot[r["status"]] += 1
            old = r["old"].strip().replace("\n", " ⏎ ").replace("|", "\\|")[:80]
            new = r["new"].strip().replace("\n", " ⏎ ").replace("|", "\\|")[:80]
            note = (r.get("note") or r.get("first") or "").replace("|", "\\|")[:160]
            out.append(f"| {r['status']} | {r['file']} | `{old}` → `{new}` | {note} |")
        out.append("")
    out.insert(3, f"Totals: {dict(tot)}")
    out.insert(4, "")
    (ROOT / "MUTATION_REPORT.md").write_text("\n".join(out) + "\n")
    print(dict(tot))


if __name__ == "__main__":
    main()
