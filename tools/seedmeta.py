#!/venv/bin/python
"""Fill 'what' / 'needs_to_manifest' of seeded/<id>/meta.json (descriptions taken from the reports of the
independent sub-agents that wrote the changes) and print a summary table (markdown)."""

import json
from pathlib import Path

ROOT = Path(__file__).resolve().parent.parent

INFO = {
    "C01-s1": ("conversion/tof.py: memoised h^2/(n m_n) constant cached per unit without the precision class, stored "
               "already cast to the first caller's dtype",
               "history: a float32 call of energy_from_wavelength / wavelength_from_energy / dspacing_from_energy before "
               "the first float64 call with the same unit in one process; then float64 results are off by 2-4e-8"),
    "C01-s2": ("conversion/tof.py:_wavelength_Q_conversions: fast path np.sin(two_theta.value / 2) for 0-d angles ignores "
               "the angle unit", "a scalar (0-d) two_theta given in degrees"),
    "C02-s1": ("core/conversions.py:_deduce_energy_mode: ambiguity guard only when elastic energy is the *target*",
               "origin='energy' with incident_energy or final_energy present: elastic answer instead of RuntimeError"),
    "C02-s2": ("core/conversions.py:conversion_graph: energy mode dispatched before the scatter flag",
               "scatter=False, target energy_transfer, exactly one of incident/final energy present"),
    "C03-s1": ("conversion/beamline.py:two_theta: beams normalised by (L + eps) as 'zero-length protection'",
               "beam norm 1e-6..1e-3 in its own unit together with a nearly (anti)parallel geometry"),
    "C03-s2": ("conversion/beamline.py:two_theta: Kahan denominator replaced by sqrt(|2(1 + b1.b2)|)",
               "angles within ~1e-7 of pi (back-scattering)"),
    "C04-s1": ("conversion/beamline.py:_scattering_angles_with_gravity_generic: beam raised perpendicular to the incident "
               "beam instead of against gravity", "tilted incident beam (general path) and a visible drop"),
    "C04-s2": ("conversion/beamline.py:beam_aligned_unit_vectors: basis from cross products of unit vectors, not normalised",
               "tilted incident beam and a detector off the vertical and horizontal planes (phi only)"),
    "C05-s1": ("conversion/tof.py: NaN mask factored into a helper testing delta_tof < 0 instead of <= 0",
               "arrival time bit-identical to the kernel's own t0: -inf / +inf instead of NaN"),
    "C05-s2": ("conversion/tof.py: _energy_constant cast to the working dtype (free-energy leg)",
               "float32 tof and energy, energy in J, lengths in angstrom/nm with tof in s/ms"),
    "C06-s1": ("conversion/tof.py: energy-transfer kernels subtract t0 in place on tof.astype(copy=False) for binned tof",
               "event mode, target energy_transfer, event tof dtype equal to the result dtype: input events shifted"),
    "C06-s2": ("core/conversions.py:convert: integer event coordinates promoted by rebuilding the event table",
               "binned data with int32/int64 origin events that carry event-level masks: masks dropped"),
    "C07-s1": ("conversion/beamline.py:_drop_due_to_gravity: unit conversion before the dtype conversion",
               "integer wavelength: converted to the metre-scale unit in integer arithmetic, drop becomes 0"),
    "C07-s2": ("conversion/tof.py:_energy_transfer_t0: constant cast to float32 before the division",
               "float32 energy in J with the t0 length in angstrom and tof in s or ms"),
    "C08-s1": ("conversion/tof.py:Q_elements_from_wavelength: fast path for incident beams with x == y == 0 assumes +z",
               "incident beam exactly along -z"),
    "C08-s2": ("conversion/tof.py:hkl_elements_from_hkl_vec: components relabelled 'dimensionless' dropping a scale-only unit",
               "wavelength/Q length unit differing from the B matrix unit (e.g. nm vs 1/angstrom)"),
    "C09-s1": ("conversion/beamline.py:_drop_due_to_gravity: wavelength.to(..., copy=False)",
               "wavelength already in the derived target unit (metres with positions in metres): caller's buffer overwritten"),
    "C09-s2": ("core/conversions.py: lru_cache on _inelastic_scatter_graph plus a dropped dict() copy in conversion_graph",
               "history: obtain an inelastic graph, mutate it, call conversion_graph / convert again"),
    "C10-s1": ("chopper/disk_chopper.py:_is_int_or_inverse_int rewritten with sc.isclose (default rtol 1e-5 sneaks in)",
               "frequency ratios 1e-8..1e-5 (relative) off an integer or inverse integer"),
    "C10-s2": ("chopper/disk_chopper.py: two edits that keep integer slit edges integer through the rad conversion",
               "slit edges given as integer-dtype degrees"),
    "C11-s1": ("tof/chopper_cascade.py:Frame.chop: early break assuming time_open ascending",
               "a chopper whose windows are not listed in ascending time"),
    "C11-s2": ("tof/chopper_cascade.py:FrameSequence.chop: choppers keyed by distance in a dict",
               "two choppers at exactly the same distance"),
    "C12-s1": ("io/sqw/_build.py:_PixWrap.write: one-chunk buffer with (n-1)//chunk full chunks + n % chunk tail",
               "n_pixels a positive multiple of the chunk size (last chunk never written)"),
    "C12-s2": ("io/sqw/_build.py:_DndPlaceholder.write: seek over the zero histogram instead of writing it",
               "add_empty_dnd_data without add_pixel_data (nd_data is the last block)"),
    "C13-s1": ("io/sqw/_low_level_io.py:write_array: BytesIO branch writes ravel(order='K')",
               "indirect-mode 2-d en supplied as (energy_transfer, detector) with > 1 detector and > 1 energy"),
    "C13-s2": ("io/sqw/_build.py: data_range of the error row from the variances of the min/max *signal* pixels",
               "more than one pixel with variance extremes not at the signal extremes"),
    "C14-s1": ("io/cif.py: author ids numbered per category", "authors with roles in both the contact and the regular category"),
    "C14-s2": ("io/cif.py:Loop.write: vertical layout chosen from newlines in the raw strings",
               "loop value containing both quote kinds and no newline anywhere in the loop"),
    "C15-s1": ("io/xye.py:save_xye: uncertainty column written with %.12e", "any variance whose square root needs more than 13 digits"),
    "C15-s2": ("io/xye.py: block writer that writes table[-0:] again", "row count an exact multiple of 1024"),
    "C16-s1": ("peaks/model.py:PseudoVoigtModel._call: params['scale'] /= sqrt(2 ln 2) in place",
               "re-using the same parameter objects after one evaluation"),
    "C16-s2": ("peaks/model.py: cached prefix-length slice not updated by with_prefix",
               "with_prefix to a prefix of a different length, then a call"),
    "C17-s1": ("peaks/_remove_peaks.py: window slices assigned instead of accumulated",
               "two successful results with overlapping windows"),
    "C17-s2": ("peaks/_fit_peaks.py: background-only statistics cached across peaks",
               "two or more estimates whose windows differ in how well the background alone explains them"),
    "C18-s1": ("absorption/cylinder.py:_line_slab_intersection: origin-in-slab test abs(bdota) <= h",
               "ray exactly perpendicular to the axis starting outside the solid within h below the base plane"),
    "C18-s2": ("absorption/cylinder.py:Cylinder.quadrature: trig-free Rodrigues rotation dividing by 1 + cos",
               "axis within ~1e-6 rad of -z but not exactly -z"),
    "C19-s1": ("chopper/filtering.py:_next_highest: x + np.spacing(x)", "float coordinate, plateau maximum strictly negative"),
    "C19-s2": ("chopper/filtering.py:_is_in_phase: reference cast to the frequency dtype",
               "integer-dtype frequencies with a non-integer float reference"),
    "C20-s1": ("atoms/__init__.py:_assemble_scalar: blank check after float conversion", "table cells whose value is exactly 0"),
    "C20-s2": ("absorption/material.py: wavelength converted to angstrom keeping its dtype",
               "integer-dtype wavelengths in pm/fm"),
}

# round 2 (s3..s5): descriptions derived from each patch and its demo
NOT_CAUGHT = {}
for _f in ("seedinfo_round2.json", "seedinfo_round3.json", "seedinfo_round4.json", "seedinfo_round5.json",
           "seedinfo_round6.json"):
    if (ROOT / "tools" / _f).exists():
        for _k, _v in json.loads((ROOT / "tools" / _f).read_text()).items():
            INFO[_k] = (_v["what"], _v["needs"])
            if _v.get("not_caught_reason"):
                NOT_CAUGHT[_k] = _v["not_caught_reason"]


def main():
    rows = []
    for d in sorted((ROOT / "seeded").iterdir()):
        mp = d / "meta.json"
        if not mp.exists():
            continue
        m = json.loads(mp.read_text())
        if d.name in INFO:
            m["what"], m["needs_to_manifest"] = INFO[d.name]
            mp.write_text(json.dumps(m, indent=1) + "\n")
        chk = m["checks"][m["property"]]
        facets = sorted({v.split("violation in ")[1].split(":")[0] for v in chk["violations"] if "violation in " in v})
        valid = (m["demo_clean_exit"] == 0 and m["demo_patched_exit"] != 0 and not m.get("suite", {}).get("newly_failing"))
        caught = "caught" if m["detected"] else "MISSED"
        if not m["detected"] and d.name in NOT_CAUGHT:
            caught = "not caught (by decision, see note)"
            m["not_caught_reason"] = NOT_CAUGHT[d.name]
            mp.write_text(json.dumps(m, indent=1) + "\n")
        if m["detected"] and m.get("first_run_missed"):
            caught = "caught after strengthening"
        others = sorted(p for p, c in m["checks"].items()
                        if p != m["property"] and c["exit"] == 1 and c["violations"])
        if not m["detected"] and others:
            caught = "caught by " + ", ".join(others) + " (not by " + m["property"] + ")"
            facets = sorted({v.split("violation in ")[1].split(":")[0] for p in others
                             for v in m["checks"][p]["violations"] if "violation in " in v})
        rows.append((d.name, m["property"], "yes" if valid else "NO", caught,
                     ", ".join(facets), m.get("needs_to_manifest", "")))
    print("| seed | property | valid seed | quick check | facets that fired | needs to manifest |")
    print("|---|---|---|---|---|---|")
    for r in rows:
        print("| " + " | ".join(r) + " |")


if __name__ == "__main__":
    main()
