#!/venv/bin/python
"""AUTOMUT_REPORT.md from automut/<PROP>.jsonl and automut/classification.json.

classification.json: list of {"match": {"file": "...", "line": N, "op": "...", "new_contains": "..."},
"class": "equivalent|outside-property|by-decision|hole-closed|hole-open", "why": "..."}; the first
entry whose `match` fields all agree classifies a record.
"""

import json
from collections import Counter
from pathlib import Path

ROOT = Path(__file__).resolve().parent.parent
OUT = ROOT / "automut"


def classify(rec, rules):
    for r in rules:
        m = r["match"]
        if "file" in m and not rec["file"].endswith(m["file"]):
            continue
        if "line" in m and rec["line"] != m["line"]:
            continue
        if "lines" in m and not (m["lines"][0] <= rec["line"] <= m["lines"][1]):
            continue
        if "op" in m and rec["op"] != m["op"] and not (m["op"].endswith("*") and rec["op"].startswith(m["op"][:-1])):
            continue
        if "old_contains" in m and m["old_contains"] not in rec.get("old", ""):
            continue
        if "new_contains" in m and m["new_contains"] not in rec.get("new", ""):
            continue
        return r["class"], r["why"]
    return "UNCLASSIFIED", ""


def main():
    rules = json.loads((OUT / "classification.json").read_text()) if (OUT / "classification.json").exists() else []
    lines = ["# Generic mutation sweep (tools/automut.py)", "",
             "One-node AST mutants of the code each property is anchored in (restricted to the anchored",
             "functions), a seeded stratified sample of at most 100 per property, each run against the",
             "property's quick check; survivors were run against the quick checks of the other properties",
             "anchored in the same file (`tools/automut_recheck.py`) and against the package's own test",
             "suite.  `killed` = a check printed a VIOLATION line.", "",
             "| property | sampled | killed by own check | killed by another property's check | only the package's tests notice | "
             "nothing notices | harness error |", "|---|---|---|---|---|---|---|"]
    detail = []
    tot = Counter()
    for f in sorted(OUT.glob("C*.jsonl")):
        recs = [json.loads(ln) for ln in f.read_text().splitlines()]
        recs = [r for r in recs if r["status"] not in ("SYNTAX", "NOOP")]
        c = Counter()
        for r in recs:
            if r["status"] == "KILLED":
                c["own"] += 1
            elif r.get("killed_by_other"):
                c["other"] += 1
            elif "HARNESS" in r["status"]:
                c["harness"] += 1
                detail.append((f.stem, r))
            elif "TESTS-KILL" in r["status"]:
                c["tests"] += 1
                detail.append((f.stem, r))
            else:
                c["none"] += 1
                detail.append((f.stem, r))
        tot.update(c)
        lines.append(f"| {f.stem} | {len(recs)} | {c['own']} | {c['other']} | {c['tests']} | {c['none']} | {c['harness']} |")
    lines.append(f"| **all** | {sum(tot.values())} | {tot['own']} | {tot['other']} | {tot['tests']} | {tot['none']} | {tot['harness']} |")
    lines += ["", "## Mutants no check kills", "",
              "| sampled for | file:line | operator | original | mutant | package tests | class | why |",
              "|---|---|---|---|---|---|---|---|"]
    cls_count = Counter()
    for prop, r in detail:
        k, why = classify(r, rules)
        cls_count[k] += 1
        esc = lambda s: s.replace("|", "\\|").replace("\n", " ")[:70]  # noqa: E731
        lines.append(f"| {prop} | {r['file'].split('scippneutron/')[-1]}:{r['line']} | {r['op']} | `{esc(r.get('old', ''))}` | "
                     f"`{esc(r['new'])}` | {'fail' if 'TESTS-KILL' in r['status'] else 'pass'} | {k} | {why} |")
    lines += ["", "Classes: " + ", ".join(f"{k}: {v}" for k, v in sorted(cls_count.items())), ""]
    (ROOT / "AUTOMUT_REPORT.md").write_text("\n".join(lines))
    print("\n".join(lines[:32]))
    print(cls_count)


if __name__ == "__main__":
    main()
