"""python -m vf <property id> [--tier quick|thorough] [--replay path] [--facet name ...]"""

import argparse
import os
import sys


def main() -> int:
    ap = argparse.ArgumentParser(prog="vf")
    ap.add_argument("property")
    ap.add_argument("--tier", default=os.environ.get("VERIF_TIER", "quick"),
                    choices=["quick", "thorough"])
    ap.add_argument("--replay", default=None)
    ap.add_argument("--facet", action="append", default=None)
    ap.add_argument("--jobs", type=int, default=int(os.environ.get("VERIF_JOBS", "16")))
    args = ap.parse_args()

    if os.environ.get("PYTHONHASHSEED") != "0":
        os.environ["PYTHONHASHSEED"] = "0"
        os.execv(sys.executable, [sys.executable, "-m", "vf", *sys.argv[1:]])

    from vf import core

    try:
        core.ensure_deps()
    except Exception as e:  # noqa: BLE001
        print(f"HARNESS ERROR: cannot install dependencies: {e}", file=sys.stderr)
        return 2
    seed = int(os.environ.get("VERIF_SEED", "1") or "1")
    prop = args.property.upper()
    try:
        if args.replay:
            return core.replay_file(prop, args.replay)
        return core.run_property(prop, args.tier, seed, args.facet, args.jobs)
    except core.HarnessError as e:
        print(f"HARNESS ERROR: {e}", file=sys.stderr)
        return 2


if __name__ == "__main__":
    sys.exit(main())
