"""C16 — peak and background models satisfy their analytic definitions."""

import math
import string
from fractions import Fraction

import mpmath as mp
import numpy as np
from hypothesis import strategies as st

from ..core import HarnessError, Facet, Violation
from ..gen import logfloat, signed
from ..ref import peakshape as ps

PROPERTY = "C16"
RULE = (
    "Hypothesis draws a model description: a peak (Gaussian / Lorentzian / pseudo-Voigt) with "
    "amplitude +-(1e-6..1e6), scale 1e-6..1e6, fraction in [0,1] (endpoints and 1e-12-neighbours "
    "over-weighted) and a location either anywhere in +-1e6 (incl. 0) or within 1e3 (quadrature "
    "facet) / 1e2 (FWHM facet) scales of 0, a polynomial of degree 1..6 with coefficients +-(1e-6..1e6) or 0, "
    "or a composite (depth <= 2, built by CompositeModel or '+') of those; every node carries a "
    "prefix from arbitrary short text (empty, ASCII, Unicode, strings equal to parameter names); "
    "x and y units come from {angstrom, us, meV, counts, dimensionless} and the parameter units are "
    "derived (amplitude y*x, loc/scale x, a_i y/x^i). Oracles: the docstring formulas in 50-digit "
    "arithmetic on the exact stored inputs, a 2000-node Gauss-Legendre rule in u with "
    "x = mu + sigma tan u, exactly representable mirror points, the model's own fwhm(), my own "
    "concatenation of prefixes, and the unit algebra above. Non-trivial: integral - always (the "
    "amplitude is never 0); symmetry - some mirrored pair has a non-zero value; fwhm - always; "
    "values - some compared element is non-zero and x is not the location only; prefix - the "
    "second prefix assignment or the with_prefix() argument differs from the first; refusal - "
    "always (each case carries one mutation of names or units). Distinct = distinct descriptor "
    "hash."
)
TOLERANCES = {
    "integral_rel": 1e-9,
    "symmetry_rel": 1e-13,
    "fwhm_rel": 1e-12,
    "peak_value_rel": "1e-12 for the Lorentzian term, 1e-12*max(1, z/50) for the Gaussian term "
                      "exp(-z) (condition number of exp), plus 1e-300*|A|/scale absolute "
                      "(underflow of exp)",
    "polynomial_abs": "1e-12 * sum_i |a_i x^i| + 1e-280 (float64 underflow of x^i for |x| < 1e-50)",
    "composite_vs_parts": "bit-identical to left(x) + right(x)",
    "prefix": "bit-identical",
}
ASSUMPTIONS = [
    "mpmath at 50 digits is exact enough to serve as ground truth for 1e-12",
    "parameters are float64 scalars without variances; x is float64 (0-d, 1-d or 2-d)",
    "'inconsistent units' means dimensionally different units from the pool (e.g. loc in meV for x "
    "in us); scaled variants of the same dimension (us vs ms) are not generated",
    "a Gaussian tail below 1e-300*|A|/scale is compared absolutely (float64 underflow)",
    "guess(): only the key set (prefixed, subset of param_names) and prefix independence of the "
    "values are checked, not the quality of the estimate (C17)",
]

UNIT_POOL = ["angstrom", "us", "meV", "counts", "dimensionless"]
PEAKS = ("gaussian", "lorentzian", "pseudo_voigt")
PEAK_NAMES = {
    "gaussian": ["amplitude", "loc", "scale"],
    "lorentzian": ["amplitude", "loc", "scale"],
    "pseudo_voigt": ["amplitude", "loc", "scale", "fraction"],
}
TOL = mp.mpf("1e-12")
UNDERFLOW_ABS = mp.mpf("1e-280")   # |x| << 1: powers of x below the float64 range may flush to 0

# worst observed error / tolerance per oracle (diagnostic only: written, never read, by the checks)
WORST = {}


def _note(key, ratio):
    if ratio > WORST.get(key, 0.0):
        WORST[key] = float(ratio)


# ------------------------------------------------------------------ strategies

PREFIX_POOL = [
    "", "p_", "lorentz_", "normal-", "amplitude", "a", "a1", "a0", "loc", "scale", "fraction",
    " ", "x", "self", "params", "é_", "μ", "\x00", "1", "_", "A", "def ", "\U0001f642", "a b", "**",
]


# strategies are built once (building them per draw dominated the run time in a first version)
_PREFIXES = st.one_of(
    st.just(""),
    st.sampled_from(PREFIX_POOL),
    st.text(max_size=5),
    st.text(alphabet=string.ascii_letters + string.digits + "_", max_size=8),
)
_NONEMPTY_PREFIXES = st.one_of(st.sampled_from([p for p in PREFIX_POOL if p]),
                               st.text(min_size=1, max_size=5))
_TINY = st.floats(-12, -1).map(lambda e: 10.0**e)
_FRACTIONS = st.one_of(
    st.just(0.0), st.just(1.0), st.just(0.5),
    st.floats(0.0, 1.0, allow_nan=False), st.floats(0.0, 1.0, allow_nan=False),
    _TINY, _TINY.map(lambda d: 1.0 - d),
)
_SIGNED_MAG = signed(logfloat(-6, 6))          # +-(1e-6 .. 1e6)
_SCALES = logfloat(-6, 6)
_LOC_ANY = st.one_of(_SIGNED_MAG, _SIGNED_MAG, _SIGNED_MAG, st.just(0.0), st.sampled_from([1e6, -1e6]))
_LOC_REL = st.one_of(st.just(0.0), signed(logfloat(-3, 3)), signed(logfloat(-3, 3)), signed(logfloat(-3, 3)))
_LOC_REL100 = st.one_of(st.just(0.0), signed(logfloat(-3, 2)), signed(logfloat(-3, 2)), signed(logfloat(-3, 2)))
_COEF = st.one_of(_SIGNED_MAG, _SIGNED_MAG, _SIGNED_MAG, st.just(0.0), st.sampled_from([1.0, -1.0]))
_UNITS = st.sampled_from(UNIT_POOL)
# an x point: (mode, peak index, t in [-1, 1]); turned into a value by _x_value
_XPOINT = st.tuples(st.integers(0, 6), st.integers(0, 2), st.floats(-1.0, 1.0, allow_nan=False))


def prefixes():
    return _PREFIXES


def fractions01():
    return _FRACTIONS


def locations_any():
    return _LOC_ANY


@st.composite
def peak_spec(draw, mode, kinds=PEAKS, prefix=None):
    kind = draw(st.sampled_from(kinds))
    amplitude = draw(_SIGNED_MAG)
    if mode == "any":
        # "for all parameter values": a peak of amplitude exactly +-0 is the zero function *in the unit
        # of y* (seeded/C16-s9: an early return for zero amplitude forgot to divide the unit by x)
        amplitude = draw(st.integers(0, 11).flatmap(
            lambda k: st.sampled_from([0.0, -0.0]) if k == 0 else st.just(amplitude)))
    scale = draw(_SCALES)
    if mode in ("near", "near100"):
        r = draw(_LOC_REL if mode == "near" else _LOC_REL100)
        loc = max(-1e6, min(1e6, r * scale))
    else:
        loc = draw(locations_any())
    params = {"amplitude": amplitude, "loc": loc, "scale": scale}
    if kind == "pseudo_voigt":
        params["fraction"] = draw(fractions01())
    return {"kind": kind, "prefix": draw(prefixes()) if prefix is None else prefix, "params": params}


@st.composite
def poly_spec(draw):
    degree = draw(st.integers(1, 6))
    coeffs = [draw(_COEF) for _ in range(degree + 1)]
    return {"kind": "polynomial", "prefix": draw(prefixes()), "coeffs": coeffs}


_LEAF = None


def leaf_spec():
    global _LEAF
    if _LEAF is None:
        _LEAF = st.one_of(peak_spec("any"), peak_spec("any"), poly_spec())
    return _LEAF


def full_names(spec):
    """Parameter names including all prefixes — my own concatenation, per the class docs."""
    p = spec["prefix"]
    if spec["kind"] == "composite":
        return [p + n for n in full_names(spec["left"]) + full_names(spec["right"])]
    if spec["kind"] == "polynomial":
        return [p + f"a{i}" for i in range(len(spec["coeffs"]))]
    return [p + n for n in PEAK_NAMES[spec["kind"]]]


def clashes(spec):
    """True if some composite node has children with overlapping parameter names."""
    if spec["kind"] != "composite":
        return False
    if clashes(spec["left"]) or clashes(spec["right"]):
        return True
    return bool(set(full_names(spec["left"])) & set(full_names(spec["right"])))


def disambiguate(spec):
    """Make children's names disjoint by construction (suffix on the right child's prefix)."""
    if spec["kind"] != "composite":
        return spec
    disambiguate(spec["left"])
    disambiguate(spec["right"])
    k = 0
    while set(full_names(spec["left"])) & set(full_names(spec["right"])):
        spec["right"]["prefix"] = spec["right"]["prefix"] + "r" + str(k)
        k += 1
    return spec


@st.composite
def composite_spec(draw, depth=2, free_prefixes=False):
    def node(d):
        if d > 0 and draw(st.integers(0, 2)) == 0:
            return {"kind": "composite", "prefix": draw(prefixes()), "left": node(d - 1),
                    "right": node(d - 1), "via_add": False}
        return draw(leaf_spec())

    spec = {"kind": "composite", "prefix": draw(prefixes()), "left": node(depth - 1),
            "right": node(depth - 1), "via_add": False}
    if draw(st.booleans()):
        spec["prefix"] = ""
        spec["via_add"] = True
    return spec if free_prefixes else disambiguate(spec)


_MODEL = None


def model_spec():
    global _MODEL
    if _MODEL is None:
        _MODEL = st.one_of(peak_spec("any"), peak_spec("any"), poly_spec(), composite_spec())
    return _MODEL


def peak_leaves(spec):
    if spec["kind"] == "composite":
        return peak_leaves(spec["left"]) + peak_leaves(spec["right"])
    return [spec] if spec["kind"] in PEAKS else []


def _x_value(pt, leaves):
    mode, j, t = pt
    if mode >= 3 and not leaves:
        mode %= 3
    if mode == 0:       # anywhere, log-uniform magnitude 1e-6..1e6, either sign
        return math.copysign(10.0 ** (12.0 * abs(t) - 6.0), t)
    if mode == 1:       # anywhere, uniform
        return t * 1e6
    if mode == 2:
        return 0.0
    lf = leaves[j % len(leaves)]["params"]
    if mode == 3:       # out to +-40 scales around a peak
        return lf["loc"] + 40.0 * t * lf["scale"]
    if mode in (4, 5):  # within +-3 scales
        return lf["loc"] + 3.0 * t * lf["scale"]
    return lf["loc"]


@st.composite
def x_points(draw, spec, min_size=1, max_size=8):
    """x values: around the peaks (in units of their scale), at the locations, anywhere, 0."""
    leaves = peak_leaves(spec)
    pts = draw(st.lists(_XPOINT, min_size=min_size, max_size=max_size))
    return [_x_value(pt, leaves) for pt in pts]


_UNITS_XY = st.tuples(_UNITS, _UNITS)


def units_xy():
    return _UNITS_XY


# ------------------------------------------------------------------ building

_DIMS = {"0d": [], "1d": ["x"], "2d": ["row", "col"]}


def build_model(spec):
    from scippneutron.peaks import model as M

    k = spec["kind"]
    if k == "gaussian":
        return M.GaussianModel(prefix=spec["prefix"])
    if k == "lorentzian":
        return M.LorentzianModel(prefix=spec["prefix"])
    if k == "pseudo_voigt":
        return M.PseudoVoigtModel(prefix=spec["prefix"])
    if k == "polynomial":
        return M.PolynomialModel(degree=len(spec["coeffs"]) - 1, prefix=spec["prefix"])
    left, right = build_model(spec["left"]), build_model(spec["right"])
    # two models can be added (ValueError for clashing parameter names is the documented refusal and is
    # left to the caller; "unsupported operand" is not)
    try:
        if spec.get("via_add"):
            return left + right
        return M.CompositeModel(left, right, prefix=spec["prefix"])
    except TypeError as e:
        raise Violation("unexpected-exception:TypeError", f"{type(left).__name__} + {type(right).__name__}: {e}") from e


def param_table(spec, yunit=None):
    """full name -> (value, role, y unit of the leaf); role in amplitude/loc/scale/fraction/a<i>."""
    p = spec["prefix"]
    y = spec.get("yunit", yunit)
    if spec["kind"] == "composite":
        out = {}
        for child in (spec["left"], spec["right"]):
            for n, v in param_table(child, y).items():
                out[p + n] = v
        return out
    if spec["kind"] == "polynomial":
        return {p + f"a{i}": (c, f"a{i}", y) for i, c in enumerate(spec["coeffs"])}
    return {p + n: (spec["params"][n], n, y) for n in PEAK_NAMES[spec["kind"]]}


def role_unit(role, xunit, yunit):
    import scipp as sc

    X, Y = sc.Unit(xunit), sc.Unit(yunit)
    if role == "amplitude":
        return Y * X
    if role in ("loc", "scale"):
        return X
    if role == "fraction":
        return sc.units.one
    return Y / X ** int(role[1:])


def build_params(spec, xunit, yunit, unit_override=None):
    import scipp as sc

    out = {}
    for name, (value, role, y) in param_table(spec, yunit).items():
        unit = role_unit(role, xunit, y)
        if unit_override and name in unit_override:
            unit = unit_override[name]
        out[name] = sc.scalar(float(value), unit=unit)
    return out


def build_x(xs, xunit, shape="1d"):
    import scipp as sc

    if shape == "0d":
        return sc.scalar(float(xs[0]), unit=xunit)
    if shape == "2d":
        n = len(xs) - len(xs) % 2
        return sc.array(dims=_DIMS["2d"], values=np.asarray(xs[:n], dtype=float).reshape(2, n // 2),
                        unit=xunit)
    return sc.array(dims=["x"], values=np.asarray(xs, dtype=float), unit=xunit)


def used_xs(xs, shape):
    if shape == "0d":
        return xs[:1]
    if shape == "2d":
        return xs[: len(xs) - len(xs) % 2]
    return xs


def check_result_meta(got, x, yunit, what):
    import scipp as sc

    if got.unit != sc.Unit(yunit):
        raise Violation("unit", f"{what}: result unit {got.unit!r}, expected {yunit} (= y unit)")
    if got.dims != x.dims or got.shape != x.shape:
        raise Violation("shape", f"{what}: result sizes {got.sizes}, x sizes {x.sizes}")
    if str(got.dtype) != "float64":
        raise Violation("dtype", f"{what}: result dtype {got.dtype}")


# ------------------------------------------------------------------ reference evaluation


def ref_eval(spec, xv):
    """(reference value, absolute tolerance) of the model described by spec at the stored x."""
    k = spec["kind"]
    if k == "composite":
        a, ta = ref_eval(spec["left"], xv)
        b, tb = ref_eval(spec["right"], xv)
        return a + b, ta + tb
    if k == "polynomial":
        v, s = ps.polynomial(xv, spec["coeffs"])
        return v, TOL * s + UNDERFLOW_ABS
    p = spec["params"]
    A, mu, s = p["amplitude"], p["loc"], p["scale"]
    floor = mp.mpf("1e-300") * abs(mp.mpf(A)) / mp.mpf(s)
    if k == "lorentzian":
        v = ps.lorentzian(xv, A, mu, s)
        return v, TOL * abs(v)
    if k == "gaussian":
        v = ps.gaussian(xv, A, mu, s)
        z = ps.gaussian_exponent(xv, mu, s)
        return v, TOL * max(1, z / 50) * abs(v) + floor
    al = mp.mpf(p["fraction"])
    sg = ps.sigma_g_equal_fwhm(s)
    lo = al * ps.lorentzian(xv, A, mu, s)
    ga = (1 - al) * ps.gaussian(xv, A, mu, sg)
    z = ps.gaussian_exponent(xv, mu, sg)
    return lo + ga, TOL * abs(lo) + TOL * max(1, z / 50) * abs(ga) + floor


def compare_values(got, spec, xs, what):
    """Compare a flat list of results with the reference; returns #non-zero compared elements."""
    nonzero = 0
    for i, (xv, gv) in enumerate(zip(xs, got, strict=True)):
        gv = float(gv)
        ref, tol = ref_eval(spec, xv)
        if not math.isfinite(gv):
            raise Violation("non-finite", f"{what}: f({xv!r}) = {gv}, reference {mp.nstr(ref, 17)}")
        err = abs(mp.mpf(gv) - ref)
        if tol > 0:
            _note("value:" + spec["kind"], err / tol)
        if err > tol:
            rel = err / abs(ref) if ref != 0 else mp.inf
            raise Violation(
                "value",
                f"{what}: f({xv!r}) = {gv!r}, reference {mp.nstr(ref, 20)}, |diff| {mp.nstr(err, 3)} "
                f"(rel {mp.nstr(rel, 3)}) > tolerance {mp.nstr(tol, 3)}",
                {"index": i, "abs_err": float(err)},
            )
        if ref != 0 and gv != 0:
            nonzero += 1
    return nonzero


# ------------------------------------------------------------------ labels


def prefix_class(p):
    if p == "":
        return "prefix:empty"
    if p in ("amplitude", "loc", "scale", "fraction", "a", "a0", "a1"):
        return "prefix:param-like"
    if all(c in string.ascii_letters + string.digits + "_" for c in p):
        return "prefix:identifier"
    if all(ord(c) < 128 for c in p):
        return "prefix:ascii-other"
    return "prefix:unicode"


def spec_labels(spec, top=True):
    labs = ["kind:" + spec["kind"]]
    if top:
        labs.append(prefix_class(spec["prefix"]))
    if spec["kind"] == "composite":
        labs.append("composite:via_add" if spec.get("via_add") else "composite:ctor")
        depth = 1 + max(_depth(spec["left"]), _depth(spec["right"]))
        labs.append(f"composite:depth{depth}")
        for ch in (spec["left"], spec["right"]):
            labs += ["part:" + lab.split(":", 1)[1] for lab in spec_labels(ch, False)
                     if lab.startswith("kind:")]
        return labs
    if spec["kind"] == "polynomial":
        labs.append(f"degree:{len(spec['coeffs']) - 1}")
        return labs
    p = spec["params"]
    labs.append("amplitude:" + ("neg" if p["amplitude"] < 0 else "pos"))
    labs.append(f"scale:1e{3 * math.floor(math.log10(p['scale']) / 3):+d}..")
    if p["loc"] == 0:
        labs.append("loc:0")
    else:
        r = abs(p["loc"]) / p["scale"]
        labs.append("loc/scale:" + ("<1" if r < 1 else "<1e3" if r <= 1e3 else "<1e6" if r <= 1e6 else ">1e6"))
    if "fraction" in p:
        f = p["fraction"]
        labs.append("fraction:" + ("0" if f == 0 else "1" if f == 1 else "interior"))
    return labs


def _depth(spec):
    if spec["kind"] != "composite":
        return 0
    return 1 + max(_depth(spec["left"]), _depth(spec["right"]))


def unit_labels(case):
    return [f"xunit:{case['xunit']}", f"yunit:{case['yunit']}"]


# ------------------------------------------------------------------ facet 1: integral

_GL = {}


def _gauss_legendre(n=2000):
    if n not in _GL:
        t, w = np.polynomial.legendre.leggauss(n)
        _GL[n] = (t * (math.pi / 2), w * (math.pi / 2))
    return _GL[n]


@st.composite
def integral_cases(draw):
    xu, yu = draw(units_xy())
    return {"spec": draw(peak_spec("near")), "xunit": xu, "yunit": yu}


def check_integral(case):
    import scipp as sc

    spec = case["spec"]
    p = spec["params"]
    u, w = _gauss_legendre()
    tn = np.tan(u)
    xs = p["loc"] + p["scale"] * tn
    x = sc.array(dims=["x"], values=xs, unit=case["xunit"])
    m = build_model(spec)
    got = m(x, **build_params(spec, case["xunit"], case["yunit"]))
    check_result_meta(got, x, case["yunit"], spec["kind"])
    y = got.values
    if not np.all(np.isfinite(y)):
        raise Violation("non-finite", f"{spec['kind']}: non-finite values on the quadrature nodes")
    # int f dx = int f(mu + s tan u) s sec^2(u) du
    integral = math.fsum(y * w * p["scale"] * (1.0 + tn * tn))
    err = abs(integral / p["amplitude"] - 1.0)
    _note("integral:" + spec["kind"], err / TOLERANCES["integral_rel"])
    if not err <= TOLERANCES["integral_rel"]:
        raise Violation(
            "integral",
            f"{spec['kind']}: integral over the real line = {integral!r}, amplitude = {p['amplitude']!r} "
            f"(rel. difference {err:.3e} > {TOLERANCES['integral_rel']:.0e})",
            {"rel_err": err},
        )
    return [*spec_labels(spec), *unit_labels(case)], True


# ------------------------------------------------------------------ facet 2: symmetry


@st.composite
def symmetry_cases(draw):
    xu, yu = draw(units_xy())
    spec = draw(peak_spec("any"))
    s = spec["params"]["scale"]
    e = math.floor(math.log2(s)) - 10          # grid spacing 2^e ~ scale / 1024
    mmax = max(1, min(2**26, int(1e6 / math.ldexp(1.0, e))))   # |loc| <= 1e6
    m = draw(st.one_of(st.just(0), st.integers(-mmax, mmax), st.integers(-min(mmax, 2**12), min(mmax, 2**12))))
    ks = draw(st.lists(st.one_of(st.integers(1, 2**14), st.integers(1, 2**11), st.integers(1, 64)),
                       min_size=1, max_size=6, unique=True))
    spec["params"]["loc"] = math.ldexp(m, e)
    return {"spec": spec, "xunit": xu, "yunit": yu, "e": e, "m": m, "ks": ks}


def check_symmetry(case):
    spec = case["spec"]
    e, m, ks = case["e"], case["m"], case["ks"]
    mu = spec["params"]["loc"]
    two_e = Fraction(2) ** e
    if Fraction(mu) != m * two_e:
        raise HarnessError("symmetry case: loc is not m * 2^e")
    lo = [math.ldexp(m - k, e) for k in ks]
    hi = [math.ldexp(m + k, e) for k in ks]
    for k, a, b in zip(ks, lo, hi, strict=True):
        if Fraction(a) != (m - k) * two_e or Fraction(b) != (m + k) * two_e:
            raise HarnessError("symmetry case: mirror points not exactly representable")
    x = build_x(lo + hi, case["xunit"])
    model = build_model(spec)
    got = model(x, **build_params(spec, case["xunit"], case["yunit"]))
    check_result_meta(got, x, case["yunit"], spec["kind"])
    y = got.values
    n = len(ks)
    nonzero = 0
    for j in range(n):
        a, b = float(y[j]), float(y[n + j])
        if not (math.isfinite(a) and math.isfinite(b)):
            raise Violation("non-finite", f"{spec['kind']}: f(mu-d)={a}, f(mu+d)={b}")
        if a != b:
            _note("symmetry:" + spec["kind"], abs(a - b) / (TOLERANCES["symmetry_rel"] * max(abs(a), abs(b))))
        if abs(a - b) > TOLERANCES["symmetry_rel"] * max(abs(a), abs(b)):
            raise Violation(
                "symmetry",
                f"{spec['kind']}: f(mu - d) = {a!r} but f(mu + d) = {b!r} for mu = {mu!r}, "
                f"d = {math.ldexp(ks[j], e)!r} (both arguments exact)",
                {"k": ks[j]},
            )
        if a != 0:
            nonzero += 1
    labs = [*spec_labels(spec), *unit_labels(case)]
    labs.append("mirror:all-underflow" if nonzero == 0 else "mirror:nonzero")
    return labs, nonzero > 0


# ------------------------------------------------------------------ facet 3: FWHM


@st.composite
def fwhm_cases(draw):
    xu, yu = draw(units_xy())
    return {"spec": draw(peak_spec("near100")), "xunit": xu, "yunit": yu}


def check_fwhm(case):
    import scipp as sc

    spec = case["spec"]
    p = spec["params"]
    model = build_model(spec)
    params = build_params(spec, case["xunit"], case["yunit"])
    w = model.fwhm(params)
    if not isinstance(w, sc.Variable) or w.unit != sc.Unit(case["xunit"]):
        raise Violation("fwhm-unit", f"{spec['kind']}: fwhm = {w!r}, expected a length in {case['xunit']}")
    if w.dims != ():
        raise Violation("fwhm-shape", f"{spec['kind']}: fwhm has dims {w.dims}")
    h = float(w.value) / 2
    if not (math.isfinite(h) and h > 0):
        raise Violation("fwhm-value", f"{spec['kind']}: fwhm = {w.value!r} for scale {p['scale']!r}")
    # the parameters of a sum of peaks live in one dict; the FWHM a model reports is that of its own
    # (prefixed) parameters, whatever else the dict holds (seeded/C16-s12: a sibling's bare 'scale' was
    # picked up by a prefixed model).  The sibling is of the same kind, three times as wide, and carries
    # no prefix when the model has one, the prefix 'sib_' otherwise.
    sib = {"kind": spec["kind"], "prefix": "" if spec["prefix"] else "sib_",
           "params": {**p, "scale": 3.0 * p["scale"]}}
    joint = {**build_params(sib, case["xunit"], case["yunit"]), **params}
    if len(joint) == 2 * len(params):
        w2 = model.fwhm(joint)
        if not (isinstance(w2, sc.Variable) and sc.identical(w2, w)):
            raise Violation("fwhm-sibling", f"{spec['kind']} with prefix {spec['prefix']!r}: fwhm = {w!r} from its own "
                                            f"parameters but {w2!r} when the dict also holds the parameters "
                                            f"{sorted(set(joint) - set(params))} of another peak")
    mu = p["loc"]
    xs = [mu, mu - h, mu + h]
    x = build_x(xs, case["xunit"])
    got = model(x, **params)
    check_result_meta(got, x, case["yunit"], spec["kind"])
    peak, left, right = (mp.mpf(float(v)) for v in got.values)
    if peak == 0 or not all(math.isfinite(float(v)) for v in got.values):
        raise Violation("fwhm-value", f"{spec['kind']}: f(loc) = {got.values[0]!r}")
    for side, fv in (("-", left), ("+", right)):
        # forming loc +- fwhm/2 in float64 perturbs the argument by <= ulp(100 scale)/2, i.e. the
        # value by <= 1.39 * 1.1e-14 relative (|f'/f| <= 1.39/scale at half maximum): inside 1e-12
        tol = TOL
        err = abs(fv / (peak / 2) - 1)
        _note("fwhm:" + spec["kind"], err / tol)
        if err > tol:
            raise Violation(
                "fwhm",
                f"{spec['kind']}: f(loc {side} fwhm/2) / (f(loc)/2) - 1 = {mp.nstr(err, 3)} "
                f"(> {mp.nstr(tol, 3)}) with the reported fwhm {w.value!r}, scale {p['scale']!r}",
                {"rel_err": float(err)},
            )
    return [*spec_labels(spec), *unit_labels(case)], True


# ------------------------------------------------------------------ facet 4: values


@st.composite
def value_cases(draw):
    xu, yu = draw(units_xy())
    spec = draw(model_spec())
    shape = draw(st.sampled_from(["1d", "1d", "1d", "0d", "2d"]))
    xs = draw(x_points(spec, min_size=2 if shape == "2d" else 1))
    return {"spec": spec, "xunit": xu, "yunit": yu, "shape": shape, "xs": xs}


@st.composite
def integer_x_cases(draw):
    """Polynomial (the model whose powers of x can overflow an integer) on integer-typed x."""
    xu, yu = draw(units_xy())
    spec = draw(poly_spec())
    dtype = draw(st.sampled_from(["int64", "int32"]))
    big = draw(st.integers(1, 4000))
    n = draw(st.integers(1, 6))
    xs = [float(draw(st.integers(-big, big))) for _ in range(n)]
    return {"spec": spec, "xunit": xu, "yunit": yu, "shape": "1d", "xs": xs, "x_dtype": dtype}


def check_integer_x(case):
    import scipp as sc

    spec, xu, yu = case["spec"], case["xunit"], case["yunit"]
    xs = case["xs"]
    x = sc.array(dims=["x"], values=np.asarray(xs, dtype=case["x_dtype"]), unit=xu, dtype=case["x_dtype"])
    model = build_model(spec)
    got = model(x, **build_params(spec, xu, yu))
    if got.unit != sc.Unit(yu):
        raise Violation("unit", f"polynomial on {case['x_dtype']} x: result unit {got.unit!r}, expected {yu}")
    flat = np.asarray(got.values, dtype=float).reshape(-1)
    nonzero = compare_values(flat, spec, xs, f"polynomial of degree {len(spec['coeffs']) - 1} on {case['x_dtype']} x")
    big = max(abs(v) for v in xs)
    labs = ["x:" + case["x_dtype"], f"degree:{len(spec['coeffs']) - 1}",
            "x^deg:" + (">int64" if big ** (len(spec["coeffs"]) - 1) > 2**63 else ">int32" if big ** (len(spec["coeffs"]) - 1) > 2**31 else "small")]
    return labs, nonzero > 0


def check_values(case):
    import scipp as sc

    spec = case["spec"]
    xu, yu, shape = case["xunit"], case["yunit"], case["shape"]
    xs = used_xs(case["xs"], shape)
    x = build_x(case["xs"], xu, shape)
    model = build_model(spec)
    params = build_params(spec, xu, yu)
    got = model(x, **params)
    what = spec["kind"]
    check_result_meta(got, x, yu, what)
    flat = np.asarray(got.values, dtype=float).reshape(-1)
    nonzero = compare_values(flat, spec, xs, what)
    # The definition must also hold when the same parameter objects are used again (a model that
    # rescales one of its arguments in place is right once and wrong afterwards; seeded/C16-s1).
    again = model(x, **params)
    compare_values(np.asarray(again.values, dtype=float).reshape(-1), spec, xs, what + " (second evaluation, same parameter objects)")
    labs = [*spec_labels(spec), *unit_labels(case), "x:" + shape]
    if spec["kind"] == "composite":
        # a composite equals the sum of its parts, each part evaluated as a model of its own
        lm, rm = build_model(spec["left"]), build_model(spec["right"])
        lv = lm(x, **build_params(spec["left"], xu, yu))
        rv = rm(x, **build_params(spec["right"], xu, yu))
        total = lv + rv
        if not sc.identical(got, total):
            d = float(np.max(np.abs(np.asarray(got.values) - np.asarray(total.values))))
            raise Violation(
                "composite-sum",
                f"composite differs from left(x) + right(x) (max |diff| {d:.3e}); "
                f"composite {np.asarray(got.values).reshape(-1)[:4].tolist()}, "
                f"sum {np.asarray(total.values).reshape(-1)[:4].tolist()}",
            )
    locs_only = all(any(xv == lf["params"]["loc"] for lf in peak_leaves(spec)) for xv in xs)
    return labs, nonzero > 0 and not locs_only


# ------------------------------------------------------------------ facet 5: prefix independence


def nodes_preorder(spec):
    out = [spec]
    if spec["kind"] == "composite":
        out += nodes_preorder(spec["left"]) + nodes_preorder(spec["right"])
    return out


def with_prefixes(spec, plist):
    """Deep copy of spec with the node prefixes replaced (preorder)."""
    it = iter(plist)

    def rec(s):
        c = {k: v for k, v in s.items() if k not in ("left", "right")}
        c["prefix"] = next(it)
        if s["kind"] == "composite":
            if s.get("via_add"):
                c["prefix"] = ""
            c["left"], c["right"] = rec(s["left"]), rec(s["right"])
        return c

    return disambiguate(rec(spec))


@st.composite
def prefix_cases(draw):
    xu, yu = draw(units_xy())
    spec = draw(model_spec())
    n = len(nodes_preorder(spec))
    alt = draw(st.lists(prefixes(), min_size=n, max_size=n))
    new_top = draw(prefixes())
    xs = draw(x_points(spec, min_size=1, max_size=6))
    npts = draw(st.integers(8, 24))
    x0 = draw(st.floats(-100, 100, allow_nan=False))
    dx = draw(logfloat(-2, 1))
    ys = draw(st.lists(st.one_of(st.integers(-5, 50).map(float), st.floats(-1e3, 1e3, allow_nan=False)),
                       min_size=npts, max_size=npts))
    return {"spec": spec, "alt_prefixes": alt, "new_top": new_top, "xunit": xu, "yunit": yu,
            "xs": xs, "guess_x0": x0, "guess_dx": dx, "guess_y": ys}


def _strip(d, prefix, what):
    out = {}
    for k, v in d.items():
        if not k.startswith(prefix):
            raise Violation("prefix-missing", f"{what}: key {k!r} does not carry the prefix {prefix!r}")
        out[k[len(prefix):]] = v
    return out


def _expect_names(model, spec, what):
    exp = set(full_names(spec))
    got = model.param_names
    if got != exp:
        raise Violation("param-names", f"{what}: param_names {sorted(got)!r}, expected {sorted(exp)!r}")
    if model.prefix != spec["prefix"]:
        raise Violation("prefix-attr", f"{what}: prefix {model.prefix!r}, expected {spec['prefix']!r}")


def _same_vars(a, b, what):
    import scipp as sc

    if a.keys() != b.keys():
        raise Violation("prefix-dependence", f"{what}: keys differ: {sorted(a)!r} vs {sorted(b)!r}")
    for k in a:
        same = sc.identical(a[k], b[k], equal_nan=True) if isinstance(a[k], sc.Variable) else a[k] == b[k]
        if not same:
            raise Violation("prefix-dependence", f"{what}: entry {k!r} differs: {a[k]!r} vs {b[k]!r}")


def check_prefix(case):
    import scipp as sc

    spec1 = case["spec"]
    spec2 = with_prefixes(spec1, case["alt_prefixes"])
    top3 = case["new_top"]
    spec3 = dict(spec1, prefix=top3, via_add=False) if spec1["kind"] == "composite" else dict(spec1, prefix=top3)
    xu, yu = case["xunit"], case["yunit"]
    x = build_x(case["xs"], xu)
    m1, m2 = build_model(spec1), build_model(spec2)
    _expect_names(m1, spec1, "model")
    _expect_names(m2, spec2, "model with other prefixes")
    m3 = m1.with_prefix(top3)
    _expect_names(m3, spec3, f"with_prefix({top3!r})")
    _expect_names(m1, spec1, "original after with_prefix")
    if type(m3) is not type(m1):
        raise Violation("with-prefix-type", f"with_prefix returned {type(m3).__name__}")

    p1, p2, p3 = (build_params(s, xu, yu) for s in (spec1, spec2, spec3))
    r1, r2, r3 = m1(x, **p1), m2(x, **p2), m3(x, **p3)
    check_result_meta(r1, x, yu, spec1["kind"])
    for r, what in ((r2, "other prefixes"), (r3, "with_prefix")):
        if not sc.identical(r1, r, equal_nan=True):
            raise Violation(
                "prefix-dependence",
                f"{spec1['kind']}: result changes with the prefix ({what}): "
                f"{np.asarray(r1.values).tolist()} vs {np.asarray(r.values).tolist()}")

    # bounds: keys are prefixed parameter names; content independent of the prefix
    nm1 = dict(zip(full_names(spec1), full_names(spec2), strict=True))
    b1, b2, b3 = m1.param_bounds, m2.param_bounds, m3.param_bounds
    for b, m, what in ((b1, m1, "param_bounds"), (b2, m2, "param_bounds (other prefixes)"),
                       (b3, m3, "param_bounds (with_prefix)")):
        extra = set(b) - m.param_names
        if extra:
            raise Violation("bounds-keys", f"{what}: keys {sorted(extra)!r} are not parameter names "
                                           f"{sorted(m.param_names)!r}")
    _same_vars({nm1[k]: v for k, v in b1.items()}, b2, "param_bounds")
    _same_vars(_strip(b1, spec1["prefix"], "param_bounds"), _strip(b3, top3, "param_bounds"),
               "param_bounds after with_prefix")

    # guess: keys are prefixed parameter names, values independent of the prefix
    n = len(case["guess_y"])
    gx = sc.array(dims=["t"], values=case["guess_x0"] + case["guess_dx"] * np.arange(n), unit=xu)
    gy = sc.array(dims=["t"], values=np.asarray(case["guess_y"], dtype=float), unit=yu)
    da = sc.DataArray(gy, coords={"t": gx})
    g1, g2, g3 = m1.guess(da), m2.guess(da), m3.guess(da)
    for g, m, what in ((g1, m1, "guess"), (g2, m2, "guess (other prefixes)"), (g3, m3, "guess (with_prefix)")):
        extra = set(g) - m.param_names
        if extra:
            raise Violation("guess-keys", f"{what}: keys {sorted(extra)!r} are not parameter names "
                                          f"{sorted(m.param_names)!r}")
    # a complete guess is a parameter set: it carries the units the parameters imply, i.e. the model
    # can be called with it on the same x and answers in the unit of y (a polynomial guess with
    # inverted coefficient units makes every fit fail with UnitError)
    if set(g1) == m1.param_names:
        try:
            gv = m1(gx, **g1)
        except sc.UnitError as e:
            raise Violation("guess-units", f"model(x, **model.guess(data)) raises UnitError: the guessed parameters "
                                           f"{ {k: str(v.unit) for k, v in sorted(g1.items())} } do not carry the units "
                                           f"implied by x [{xu}] and y [{yu}]: {str(e)[:120]}") from None
        if gv.unit != sc.Unit(yu):
            raise Violation("guess-units", f"model(x, **model.guess(data)) has unit {gv.unit!r}, data are in {yu}")
    _same_vars({nm1[k]: v for k, v in g1.items()}, g2, "guess")
    _same_vars(_strip(g1, spec1["prefix"], "guess"), _strip(g3, top3, "guess"), "guess after with_prefix")

    labs = [*spec_labels(spec1), *unit_labels(case), "alt:" + prefix_class(spec2["prefix"]),
            "with_prefix:" + prefix_class(top3),
            "guess:complete" if set(g1) == m1.param_names else "guess:incomplete"]
    if spec1["kind"] in PEAKS:
        w1, w2, w3 = m1.fwhm(p1), m2.fwhm(p2), m3.fwhm(p3)
        if not (sc.identical(w1, w2) and sc.identical(w1, w3)):
            raise Violation("prefix-dependence", f"fwhm changes with the prefix: {w1!r}, {w2!r}, {w3!r}")
    differ = full_names(spec1) != full_names(spec2) or spec1["prefix"] != top3
    return labs, differ


# ------------------------------------------------------------------ facet 6: units and refusal

NAME_MUTATIONS = ["missing", "extra", "unprefixed", "wrong_prefix", "renamed", "empty"]
UNIT_MUTATIONS = ["bad_unit", "amplitude_unit", "mixed_y"]
# bad_unit first and twice: Hypothesis over-weights the first element, and it has the most sub-classes
_MUTATION_KINDS = st.sampled_from(UNIT_MUTATIONS + NAME_MUTATIONS + ["bad_unit", "clash"])


def _other_unit(draw, not_this):
    others = [u for u in UNIT_POOL if u != not_this]
    return others[draw(st.integers(0, len(others) - 1))]


@st.composite
def refusal_cases(draw):
    xu, yu = draw(units_xy())
    spec = draw(model_spec())
    names = full_names(spec)
    table = param_table(spec, yu)
    xs = draw(x_points(spec, min_size=1, max_size=4))
    kind = draw(_MUTATION_KINDS)
    mut = {"type": kind}
    if kind == "missing":
        mut["name"] = draw(st.sampled_from(names))
    elif kind == "extra":
        base = draw(st.one_of(
            st.sampled_from(["fraction", "a7", "sigma", "amplitude", "loc", "scale", "a0", "x", "self",
                             "params", "prefix"]),
            st.text(min_size=1, max_size=6)))
        name = draw(st.sampled_from([base, spec["prefix"] + base]))
        while name in names or name in ("x", "self"):
            name += "_"
        mut["name"] = name
    elif kind in ("unprefixed", "wrong_prefix"):
        if spec["prefix"] == "":
            # needs a non-empty top-level prefix ('+' always gives an empty one: use the constructor)
            if spec["kind"] == "composite":
                spec["via_add"] = False
            spec["prefix"] = draw(_NONEMPTY_PREFIXES)
            names = full_names(spec)
        if kind == "wrong_prefix":
            other = draw(prefixes())
            if other == spec["prefix"]:
                other += "~"
            mut["prefix"] = other
    elif kind == "renamed":
        victim = draw(st.sampled_from(names))
        how = draw(st.sampled_from(["upper", "suffix", "space", "swap"]))
        new = {"upper": victim.upper(), "suffix": victim + "_", "space": " " + victim,
               "swap": victim[::-1]}[how]
        while new in names or new in ("x", "self"):
            new += "'"
        mut["name"], mut["new"] = victim, new
    elif kind == "bad_unit":
        cands = [n for n in names if table[n][1] != "amplitude"]
        victim = draw(st.sampled_from(cands))
        role = table[victim][1]
        mut["name"] = victim
        if role in ("loc", "scale"):
            mut["unit"] = {"x": _other_unit(draw, xu), "y": None, "power": 1}
        elif role == "fraction":
            mut["unit"] = {"x": _other_unit(draw, "dimensionless"), "y": None, "power": 1}
        else:  # a_i: wrong y unit, keep the power of x
            mut["unit"] = {"x": xu, "y": _other_unit(draw, yu), "power": -int(role[1:])}
    elif kind == "amplitude_unit":
        cands = [n for n in names if table[n][1] == "amplitude"]
        if not cands or spec["kind"] == "composite":
            spec = draw(peak_spec("any"))
            names = full_names(spec)
            cands = [names[0]]
        mut["name"] = cands[0]
        mut["unit"] = {"x": draw(st.sampled_from(UNIT_POOL)), "y": draw(st.sampled_from(UNIT_POOL)),
                       "power": draw(st.sampled_from([0, 1, 2, -1]))}
    elif kind == "mixed_y":
        if spec["kind"] != "composite":
            spec = draw(composite_spec(depth=1))
        spec["right"]["yunit"] = _other_unit(draw, yu)
    elif kind == "clash":
        if spec["kind"] != "composite":
            spec = draw(composite_spec(depth=1))
        k = draw(st.sampled_from(["polynomial", *PEAKS]))
        # both children of the same family under the same prefix: names overlap
        common = draw(prefixes())
        if k == "polynomial":
            spec["left"], spec["right"] = draw(poly_spec()), draw(poly_spec())
        else:
            spec["left"], spec["right"] = draw(peak_spec("any")), draw(peak_spec("any"))
        spec["left"]["prefix"] = spec["right"]["prefix"] = common
    return {"spec": spec, "xunit": xu, "yunit": yu, "xs": xs, "mutation": mut}


def _mut_unit(u):
    import scipp as sc

    unit = sc.Unit(u["x"]) ** u["power"] if u["power"] >= 0 else sc.units.one / sc.Unit(u["x"]) ** (-u["power"])
    if u["y"] is not None:
        unit = sc.Unit(u["y"]) * unit
    return unit


def check_refusal(case):
    import scipp as sc

    spec, mut = case["spec"], case["mutation"]
    xu, yu = case["xunit"], case["yunit"]
    kind = mut["type"]
    labs = [*spec_labels(spec), *unit_labels(case), "mutation:" + kind]
    x = build_x(case["xs"], xu)

    if kind == "clash":
        if not clashes(spec):
            raise HarnessError("clash case without overlapping names")
        try:
            build_model(spec)
        except ValueError:
            return labs, True
        raise Violation("clash-accepted", "composite of parts with overlapping parameter names was accepted: "
                        f"{sorted(set(full_names(spec['left'])) & set(full_names(spec['right'])))!r}")

    model = build_model(spec)
    good = build_params(spec, xu, yu)

    if kind in NAME_MUTATIONS:
        params = dict(good)
        if kind == "missing":
            del params[mut["name"]]
        elif kind == "extra":
            params[mut["name"]] = sc.scalar(1.0, unit=xu)
        elif kind == "unprefixed":
            n = len(spec["prefix"])
            params = {k[n:]: v for k, v in good.items()}
        elif kind == "wrong_prefix":
            n = len(spec["prefix"])
            params = {mut["prefix"] + k[n:]: v for k, v in good.items()}
        elif kind == "renamed":
            params[mut["new"]] = params.pop(mut["name"])
        elif kind == "empty":
            params = {}
        if params.keys() == set(full_names(spec)):
            raise HarnessError(f"name mutation {kind} left the parameter names unchanged")
        try:
            r = model(x, **params)
        except ValueError:
            # the well-formed call must still succeed afterwards and carry the y unit
            check_result_meta(model(x, **good), x, yu, spec["kind"])
            return labs, True
        raise Violation(
            "names-accepted",
            f"{spec['kind']} with parameters {sorted(full_names(spec))!r} accepted {sorted(params)!r} "
            f"({kind}) and returned {r.values.tolist()!r}")

    if kind == "amplitude_unit":
        # no inconsistency: the result carries amplitude unit / x unit
        au = _mut_unit(mut["unit"])
        r = model(x, **build_params(spec, xu, yu, {mut["name"]: au}))
        if r.unit != au / sc.Unit(xu):
            raise Violation("unit", f"{spec['kind']}: amplitude in {au!r}, x in {xu}: result unit {r.unit!r}, "
                            f"expected {au / sc.Unit(xu)!r}")
        return [*labs, "amplitude-unit:" + ("implied-y" if au == sc.Unit(yu) * sc.Unit(xu) else "other")], True

    if kind == "bad_unit":
        bad = _mut_unit(mut["unit"])
        role = param_table(spec, yu)[mut["name"]][1]
        if bad == role_unit(role, xu, yu):
            raise HarnessError("bad_unit mutation produced the consistent unit")
        params = build_params(spec, xu, yu, {mut["name"]: bad})
        labs.append("bad-unit:" + ("a_i" if role.startswith("a") and role != "amplitude" else role))
        descr = f"{mut['name']!r} in {bad!r}"
    else:  # mixed_y
        params = good
        descr = f"parts with y units {yu} and {spec['right']['yunit']}"
    try:
        r = model(x, **params)
    except sc.UnitError:
        if kind == "bad_unit":
            check_result_meta(model(x, **good), x, yu, spec["kind"])
        return labs, True
    raise Violation(
        "units-accepted",
        f"{spec['kind']} (x in {xu}, y in {yu}) accepted inconsistent units ({descr}) and returned "
        f"{r.values.tolist()!r} {r.unit!r}")


# ------------------------------------------------------------------ facets

FACETS = [
    Facet("integral", check_integral, strategy=lambda tier: integral_cases(),
          quick=(2, 300), thorough=(16, 1500), min_nontrivial=0.5,
          doc="Gauss-Legendre (2000 nodes, x = mu + sigma tan u) integral over the real line = amplitude"),
    Facet("symmetry", check_symmetry, strategy=lambda tier: symmetry_cases(),
          quick=(2, 500), thorough=(16, 4000), min_nontrivial=0.5,
          doc="f(mu + d) = f(mu - d) at exactly representable mirror points"),
    Facet("fwhm", check_fwhm, strategy=lambda tier: fwhm_cases(),
          quick=(2, 500), thorough=(16, 4000), min_nontrivial=0.5,
          doc="f(loc +- fwhm/2) = f(loc)/2 with the model's own fwhm(params); fwhm carries the x unit"),
    Facet("values", check_values, strategy=lambda tier: value_cases(),
          quick=(4, 500), thorough=(16, 5000), min_nontrivial=0.5,
          doc="pointwise docstring formula in mpmath; polynomial = sum a_i x^i; composite = left + right; "
              "result unit = y unit, sizes = x sizes"),
    Facet("integer_x", check_integer_x, strategy=lambda tier: integer_x_cases(),
          quick=(1, 400), thorough=(8, 2000), min_nontrivial=0.3,
          doc="polynomial = sum a_i x^i on int32/int64 x whose powers exceed the integer range"),
    Facet("prefix", check_prefix, strategy=lambda tier: prefix_cases(),
          quick=(2, 300), thorough=(16, 2500), min_nontrivial=0.3,
          doc="two prefix assignments and with_prefix give bit-identical values, bounds, guesses, fwhm; "
              "param_names / param_bounds / guess keys carry the prefix"),
    Facet("refusal", check_refusal, strategy=lambda tier: refusal_cases(),
          quick=(2, 500), thorough=(16, 4000), min_nontrivial=0.5,
          doc="missing / extra / un-prefixed / renamed names raise ValueError; dimensionally inconsistent "
              "parameter units raise UnitError; amplitude unit / x unit is the result unit"),
]


def selftest():
    ps.selftest()
    # the quadrature rule itself, on closed forms evaluated in plain numpy
    u, w = _gauss_legendre()
    tn = np.tan(u)
    g = np.exp(-0.5 * tn * tn) / math.sqrt(2 * math.pi) * (1 + tn * tn)
    assert abs(math.fsum(g * w) - 1) < 1e-12
    lo = 1 / (math.pi * (1 + tn * tn)) * (1 + tn * tn)
    assert abs(math.fsum(lo * w) - 1) < 1e-12
    # prefix concatenation on a hand-written nested description
    spec = {"kind": "composite", "prefix": "c_", "via_add": False,
            "left": {"kind": "polynomial", "prefix": "p", "coeffs": [1.0, 2.0]},
            "right": {"kind": "pseudo_voigt", "prefix": "",
                      "params": {"amplitude": 1.0, "loc": 0.0, "scale": 1.0, "fraction": 0.5}}}
    assert full_names(spec) == ["c_pa0", "c_pa1", "c_amplitude", "c_loc", "c_scale", "c_fraction"]
    assert not clashes(spec)
    v, t = ref_eval(spec, 0.0)
    assert mp.almosteq(v, 1 + (0.5 / mp.pi + 0.5 * mp.sqrt(2 * mp.log(2)) / mp.sqrt(2 * mp.pi)),
                       rel_eps=mp.mpf(10) ** -40)
