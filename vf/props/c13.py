"""C13 — SQW content is what was supplied: pixels, run metadata, histogram metadata."""

import contextlib
import datetime
import warnings

import numpy as np

from ..core import Facet, Violation
from ..ref import sqw as ref
from . import sqwcase as sq

PROPERTY = "C13"
RULE = (
    "Same generated builder programs as C12 (see vf/props/sqwcase.py), always containing add_pixel_data "
    "in the second facet: pixel rows as arbitrary finite float64 in [-1e30, 1e30] (explicit Hypothesis "
    "draws incl. +-0, values not representable in float32, float32-subnormal magnitudes for <= 12 "
    "pixels; otherwise expanded from a stored seed), integer rows, row units equal to the declared ones "
    "or convertible (1/nm, 1/fm, eV, ueV, kilo count), 1..20 runs in direct (scalar efix, 1-d en) or "
    "indirect (per-detector efix, 2-d en in either dim order) mode with angles in deg or rad and "
    "energies in meV/eV/ueV, instrument, sample (lattice in angstrom or nm, angles deg or rad), DND "
    "metadata with mixed units, ASCII strings of length 0..300. Oracle: the independent decoder "
    "(vf/ref/sqw.py) vs expectations computed from the inputs; then Sqw.read_data_block for every block "
    "vs the same expectations, each returned Variable convertible to the unit the writer used. "
    "Non-trivial: n_pixels > chunk, or a unit conversion applied, or >= 2 runs."
)
TOLERANCES = {"unit_conversion_rel": 1e-13, "converted_pixel": "1 float32 ulp", "unconverted_pixel": "bit-exact"}
ASSUMPTIONS = [
    "expected pixel = float32(value * exact unit factor); one rounding to float32",
    "frequency of the instrument source is written as given (no unit documented); only Hz is generated",
]

REL = 1e-13


def close(a, b, rel=REL):
    a, b = np.asarray(a, dtype=float), np.asarray(b, dtype=float)
    if a.shape != b.shape:
        return False
    return bool(np.all((a == b) | (np.abs(a - b) <= rel * np.maximum(np.abs(a), np.abs(b)))))


def need(cond, kind, msg):
    if not cond:
        raise Violation(kind, msg)


def scalar_of(x):
    a = np.asarray(x)
    return a.reshape(-1)[0] if a.size == 1 else None


def expect_str(d, key, want, where):
    need(key in d, "missing-field", f"{where}: field {key!r} missing (have {list(d)})")
    need(d[key] == want, "string", f"{where}.{key} = {d[key]!r}, supplied {want!r}")


def expect_num(d, key, want, where, rel=REL):
    need(key in d, "missing-field", f"{where}: field {key!r} missing (have {list(d)})")
    got = np.asarray(d[key], dtype=float)
    want = np.asarray(want, dtype=float)
    need(got.shape == want.shape, "shape", f"{where}.{key} has shape {got.shape}, expected {want.shape}")
    need(close(got, want, rel), "number", f"{where}.{key} = {got.tolist()}, expected {want.tolist()}")


def expect_bool(d, key, want, where):
    need(key in d, "missing-field", f"{where}: field {key!r} missing")
    need(list(d[key]) == list(want), "logical", f"{where}.{key} = {d[key]}, expected {list(want)}")


def one_struct(v, where, serial, version):
    need(isinstance(v, list) and len(v) == 1 and isinstance(v[0], dict), "structure",
         f"{where}: expected one struct, got {type(v).__name__} of length {len(v) if isinstance(v, list) else '-'}")
    s = v[0]
    expect_str(s, "serial_name", serial, where)
    expect_num(s, "version", [version], where)
    return s


# ------------------------------------------------------------------ expectations


def pixel_expectation(case, rows):
    """(expected float32 matrix N x 9, per-column tolerance in ulps, float64 converted rows)."""
    u = case["pix"]["units"]
    n = case["pix"]["n"]
    f = {"u1": sq.INV_L_UNITS[u["u1"]], "u2": sq.INV_L_UNITS[u["u2"]], "u3": sq.INV_L_UNITS[u["u3"]],
         "u4": sq.E_UNITS[u["u4"]], "signal": sq.COUNT_UNITS[u["signal"]],
         "error": sq.COUNT_UNITS[u["signal"]] ** 2, "irun": 1, "idet": 1, "ien": 1}
    exp = np.empty((n, 9), dtype=np.float32)
    conv = np.empty((n, 9), dtype=np.float64)
    ulps = []
    for i, r in enumerate(sq.ROWS):
        x = np.asarray(rows[r], dtype=np.float64) * f[r] if f[r] != 1 else np.asarray(rows[r], dtype=np.float64)
        conv[:, i] = x
        with np.errstate(over="ignore"):
            exp[:, i] = x.astype(np.float32)
        ulps.append(0 if f[r] == 1 else 1)
    return exp, ulps, conv


def check_pixels(case, w, blocks):
    e = blocks[("pix", "data_wrap")]["value"]
    n = case["pix"]["n"]
    need(e["n_rows"] == 9, "pix-rows", f"pixel block declares {e['n_rows']} rows")
    need(e["n_pixels"] == n, "pix-count", f"pixel block declares {e['n_pixels']} pixels, {n} supplied")
    exp, ulps, conv = pixel_expectation(case, w.rows)
    got = e["data"]
    need(got.shape == exp.shape, "pix-shape", f"pixel matrix {got.shape}, expected {exp.shape}")
    for i, r in enumerate(sq.ROWS):
        g, x = got[:, i], exp[:, i]
        if ulps[i] == 0:
            same = (g.view(np.uint32) == x.view(np.uint32)) | ((g == 0) & (x == 0) & (np.signbit(g) == np.signbit(x)))
            if not np.all(same):
                k = int(np.argmin(same))
                raise Violation("pixel-value", f"row {r}, pixel {k}: stored {g[k]!r} ({g[k].view(np.uint32):#x}), "
                                               f"expected float32({w.rows[r][k]!r}) = {x[k]!r}")
        else:
            tol = np.spacing(np.abs(x)) * 1.0
            bad = ~(np.abs(g.astype(np.float64) - x.astype(np.float64)) <= tol.astype(np.float64))
            bad &= ~(np.isinf(x) & np.isinf(g))
            if np.any(bad):
                k = int(np.argmax(bad))
                raise Violation("pixel-value", f"row {r} (converted), pixel {k}: stored {g[k]!r}, expected {x[k]!r} +- 1 ulp")
    # pixel metadata
    m = one_struct(blocks[("pix", "metadata")]["value"], "pix/metadata", "pix_metadata", 1.0)
    expect_str(m, "full_filename", w.path or "in_memory", "pix/metadata")
    expect_num(m, "npix", [float(n)], "pix/metadata")
    if n > 0:
        rng = np.stack([conv.min(axis=0), conv.max(axis=0)], axis=1)  # (9, 2)
        expect_num(m, "data_range", rng, "pix/metadata")


def check_expdata(case, blocks):
    s = one_struct(blocks[("experiment_info", "expdata")]["value"], "expdata", "IX_experiment", 3.0)
    runs = s.get("array_dat")
    need(isinstance(runs, list) and len(runs) == len(case["runs"]), "run-count",
         f"expdata holds {len(runs) if isinstance(runs, list) else runs!r} experiment records, {len(case['runs'])} runs supplied")
    for k, (got, e) in enumerate(zip(runs, case["runs"], strict=True)):
        where = f"expdata[{k}]"
        expect_str(got, "filename", e["filename"], where)
        expect_str(got, "filepath", e["filepath"], where)
        expect_num(got, "run_id", [float(e["run_id"] + 1)], where)
        fe = sq.E_UNITS[e["e_unit"]]
        fn = sq.E_UNITS[e["en_unit"]]
        if e["mode"] == "direct":
            expect_num(got, "efix", [e["efix"] * fe], where)
            expect_num(got, "emode", [1.0], where)
            expect_num(got, "en", np.asarray([e["en"]], dtype=float) * fn, where)
        else:
            expect_num(got, "efix", np.asarray(e["efix"], dtype=float) * fe, where)
            expect_num(got, "emode", [2.0], where)
            expect_num(got, "en", np.asarray(e["en"], dtype=float) * fn, where)
        for a in ("psi", "omega", "dpsi", "gl", "gs"):
            expect_num(got, a, [sq.rad_of(*e[a])], where, rel=1e-14)
        expect_num(got, "u", e["u"], where)
        expect_num(got, "v", e["v"], where)
        expect_bool(got, "angular_is_degree", [False], where)


def check_container_of(blocks, name, baseclass, nruns, where):
    s = one_struct(blocks[name]["value"], where, "unique_references_container", 1.0)
    expect_str(s, "stored_baseclass", baseclass, where)
    inner = one_struct(s["unique_objects"], where + ".unique_objects", "unique_objects_container", 1.0)
    expect_str(inner, "baseclass", baseclass, where)
    objs = inner["unique_objects"]
    need(isinstance(objs, list) and len(objs) == 1, "shared-object",
         f"{where}: {len(objs) if isinstance(objs, list) else objs!r} stored objects, expected exactly one shared object")
    expect_num(inner, "idx", np.ones(nruns), where)
    return objs[0]


def check_instrument(case, blocks, nruns):
    obj = check_container_of(blocks, ("experiment_info", "instruments"), "IX_inst", nruns, "instruments")
    i = case["instrument"]
    s = one_struct(obj, "instrument", "IX_null_inst", 2.0)
    expect_str(s, "name", i["name"], "instrument")
    src = one_struct(s["source"], "instrument.source", "IX_source", 2.0)
    expect_str(src, "name", i["source_name"], "instrument.source")
    expect_str(src, "target_name", i["target_name"], "instrument.source")
    expect_num(src, "frequency", [i["frequency"]], "instrument.source")


def check_sample(case, blocks, nruns):
    obj = check_container_of(blocks, ("experiment_info", "samples"), "IX_samp", nruns, "samples")
    smp = case["sample"]
    s = one_struct(obj, "sample", "IX_sample", 3.0)
    expect_str(s, "name", smp["name"], "sample")
    fa = 1.0 if smp["alatt"][1] == "angstrom" else 10.0
    expect_num(s, "alatt", np.asarray(smp["alatt"][0]) * fa, "sample")
    expect_num(s, "angdeg", [sq.deg_of(x, smp["angdeg"][1]) for x in smp["angdeg"][0]], "sample", rel=1e-14)


UNITS4 = [sq.INV_L_UNITS, sq.INV_L_UNITS, sq.INV_L_UNITS, sq.E_UNITS]


def conv4(items):
    return [v * UNITS4[i][u] if not isinstance(v, list) else [x * UNITS4[i][u] for x in v]
            for i, (v, u) in enumerate(items)]


def check_dnd(case, w, blocks):
    d = case["dnd"]
    s = one_struct(blocks[("data", "metadata")]["value"], "data/metadata", "dnd_metadata", 1.0)
    need(isinstance(s.get("creation_date_str"), str) and _is_iso(s["creation_date_str"]), "date",
         f"data/metadata.creation_date_str = {s.get('creation_date_str')!r}")
    ax = one_struct(s["axes"], "axes", "line_axes", 7.0)
    import os

    expect_str(ax, "filename", os.path.basename(w.path) if w.path else "", "axes")
    expect_str(ax, "filepath", os.path.dirname(w.path) if w.path else "", "axes")
    expect_str(ax, "title", d["title"], "axes")
    need(ax.get("label") == list(d["label"]), "string", f"axes.label = {ax.get('label')!r}, supplied {d['label']!r}")
    expect_num(ax, "img_scales", conv4(d["img_scales"]), "axes")
    expect_num(ax, "img_range", np.asarray(conv4(d["img_range"]), dtype=float).reshape(4, 2), "axes")
    expect_num(ax, "nbins_all_dims", np.asarray(d["n_bins"], dtype=float), "axes")
    expect_bool(ax, "single_bin_defines_iax", d["single_bin"], "axes")
    expect_num(ax, "dax", np.asarray(d["dax"], dtype=float) + 1.0, "axes")
    expect_num(ax, "offset", conv4(d["offset"]), "axes")
    expect_bool(ax, "changes_aspect_ratio", [d["changes_aspect_ratio"]], "axes")
    p = d["proj"]
    pr = one_struct(s["proj"], "proj", "line_proj", 7.0)
    fa = 1.0 if p["alatt"][1] == "angstrom" else 10.0
    expect_num(pr, "alatt", np.asarray(p["alatt"][0]) * fa, "proj")
    expect_num(pr, "angdeg", [sq.deg_of(x, p["angdeg"][1]) for x in p["angdeg"][0]], "proj", rel=1e-14)
    expect_num(pr, "offset", conv4(p["offset"]), "proj")
    expect_str(pr, "title", p["title"], "proj")
    need(pr.get("label") == list(p["label"]), "string", f"proj.label = {pr.get('label')!r}, supplied {p['label']!r}")
    expect_num(pr, "u", np.asarray(p["u"][0]) * sq.INV_L_UNITS[p["u"][1]], "proj")
    expect_num(pr, "v", np.asarray(p["v"][0]) * sq.INV_L_UNITS[p["v"][1]], "proj")
    if p["w"] is None:
        need(np.asarray(pr.get("w")).size == 0, "number", f"proj.w = {pr.get('w')!r}, none supplied")
    else:
        expect_num(pr, "w", np.asarray(p["w"][0]) * sq.INV_L_UNITS[p["w"][1]], "proj")
    expect_bool(pr, "nonorthogonal", [p["non_orthogonal"]], "proj")
    expect_str(pr, "type", "aaa", "proj")
    # zero histogram of the declared shape
    nd = blocks[("data", "nd_data")]["value"]
    shape = tuple(d["n_bins"])
    need(tuple(nd["shape"]) == shape, "dnd-shape", f"histogram shape {nd['shape']}, declared {shape}")
    vol = int(np.prod(shape)) if shape else 1
    for k in ("values", "errors", "counts"):
        need(nd[k].size == vol and not np.any(nd[k]), "dnd-zero", f"histogram {k}: {nd[k].size} elements, "
             f"{int(np.count_nonzero(nd[k]))} non-zero; expected {vol} zeros")


def _is_iso(s):
    try:
        datetime.datetime.fromisoformat(s)
        return True
    except ValueError:
        return False


def check_main_header(case, w, blocks):
    s = one_struct(blocks[("", "main_header")]["value"], "main_header", "main_header_cl", 2.0)
    expect_str(s, "full_filename", w.path or "in_memory", "main_header")
    expect_str(s, "title", case["title"], "main_header")
    nruns = len(case["runs"]) if "pix" in case["calls"] else 0
    expect_num(s, "nfiles", [float(nruns)], "main_header")
    need(isinstance(s.get("creation_date"), str) and _is_iso(s["creation_date"]), "date",
         f"main_header.creation_date = {s.get('creation_date')!r}")
    return nruns


def decode_checked(w):
    dec = ref.decode(w.bytes)
    for name, e in dec["blocks"].items():
        if "error" in e:
            raise Violation("block-decode", f"block {name} does not decode: {e['error']}")
    return dec


def content_labels(case):
    labs = sq.labels_of(case)
    p = case.get("pix")
    nt = False
    if p is not None and "pix" in case["calls"]:
        c = 8192 if p["chunk"] is None else p["chunk"]
        nt = p["n"] > c or "pixel-unit-conversion" in labs or len(case["runs"]) >= 2
    return labs, nt


def require_blocks(case, present, who):
    """Everything that was supplied to the builder must come back: a block per supplied item."""
    missing = [n for n in sq.expected_blocks(case) if n not in present]
    if missing:
        raise Violation("missing-block", f"{who}: no block {missing} although calls {case['calls']} supplied it "
                                         f"(blocks present: {sorted(present)})")


def check_content(case):
    labs, nt = content_labels(case)
    with contextlib.ExitStack() as stack:
        tmp = sq.tmpdir_for(case)
        tmpdir = stack.enter_context(tmp) if tmp is not None else None
        try:
            w = sq.write(case, tmpdir=tmpdir)
        except sq.Refused:
            return [*labs, "non-ascii-text:refused"], False
        dec = decode_checked(w)
        blocks = dec["blocks"]
        calls = set(case["calls"])
        require_blocks(case, blocks, "file")
        nruns = check_main_header(case, w, blocks)
        if "pix" in calls:
            check_pixels(case, w, blocks)
            check_expdata(case, blocks)
        if "instrument" in calls:
            check_instrument(case, blocks, nruns)
        if "sample" in calls:
            check_sample(case, blocks, nruns)
        if "dnd" in calls:
            check_dnd(case, w, blocks)
        if "detpar" in calls:
            s = one_struct(blocks[("", "detpar")]["value"], "detpar", "unique_references_container", 1.0)
            expect_str(s, "stored_baseclass", "IX_detector_array", "detpar")
    return labs, nt


# ------------------------------------------------------------------ package's own reader


def var_in(var, unit, where):
    """Values of a scipp Variable converted to `unit`; a unit of another dimension is a violation."""
    import scipp as sc

    try:
        return np.asarray(var.to(unit=unit).values, dtype=float)
    except sc.UnitError:
        raise Violation("unit-dimension", f"reader labels {where} with unit {var.unit}, it was written in {unit}") from None


def rexpect(got, want, where, rel=REL):
    got, want = np.asarray(got, dtype=float), np.asarray(want, dtype=float)
    if got.size == 1 and want.size == 1:
        # a one-element array and a scalar are the same thing in the file format
        got, want = got.reshape(()), want.reshape(())
    need(got.shape == want.shape, "reader-shape", f"reader: {where} has shape {got.shape}, expected {want.shape}")
    need(close(got, want, rel), "reader-number", f"reader: {where} = {got.tolist()}, expected {want.tolist()}")


def check_reader(case):
    from scippneutron.io.sqw import Sqw

    labs, nt = content_labels(case)
    with contextlib.ExitStack() as stack:
        tmp = sq.tmpdir_for(case)
        tmpdir = stack.enter_context(tmp) if tmp is not None else None
        try:
            w = sq.write(case, tmpdir=tmpdir)
        except sq.Refused:
            return [*labs, "non-ascii-text:refused"], False
        dec = decode_checked(w)
        calls = set(case["calls"])
        nruns = len(case["runs"]) if "pix" in calls else 0
        target = w.target
        if w.path is None:
            target.seek(0)
        with warnings.catch_warnings(record=True) as caught:
            warnings.simplefilter("always")
            with Sqw.open(target) as f:
                names = list(f.data_block_names())
                out = {n: f.read_data_block(n) for n in names}
        unparsed = [str(c.message) for c in caught if "Unable to parse" in str(c.message)]
        need(not unparsed, "reader-unparsed", f"reader could not parse a block it wrote itself: {unparsed[:2]}")
        require_blocks(case, out, "reader")
        mh = out[("", "main_header")]
        need(mh.title == case["title"] and mh.full_filename == (w.path or "in_memory") and mh.nfiles == nruns,
             "reader-string", f"reader: main header {mh.title!r}, {mh.full_filename!r}, nfiles={mh.nfiles}")
        if "pix" in calls:
            pix = out[("pix", "data_wrap")]
            exp = dec["blocks"][("pix", "data_wrap")]["value"]["data"]
            need(pix.shape == exp.shape and pix.dtype.kind == "f" and pix.dtype.itemsize == 4
                 and np.array_equal(pix.astype("=f4").view(np.uint32), exp.view(np.uint32)),
                 "reader-pixels", f"reader: pixel array {pix.shape} {pix.dtype} differs from the bytes in the file {exp.shape}")
            pm = out[("pix", "metadata")]
            need(pm.npix == case["pix"]["n"], "reader-number", f"reader: npix {pm.npix}")
            if case["pix"]["n"] > 0:
                _, _, conv = pixel_expectation(case, w.rows)
                rexpect(pm.data_range, np.stack([conv.min(axis=0), conv.max(axis=0)], axis=1), "pix metadata data_range")
            exps = out[("experiment_info", "expdata")]
            need(len(exps) == nruns, "reader-shape", f"reader: {len(exps)} experiments, {nruns} runs")
            for k, (g, e) in enumerate(zip(exps, case["runs"], strict=True)):
                where = f"expdata[{k}]"
                need(g.run_id == e["run_id"], "reader-number", f"reader: {where}.run_id = {g.run_id}, supplied {e['run_id']}")
                need(g.filename == e["filename"] and g.filepath == e["filepath"], "reader-string",
                     f"reader: {where} filename/filepath {g.filename!r}/{g.filepath!r}")
                need(g.emode.name == e["mode"], "reader-number", f"reader: {where}.emode = {g.emode}")
                fe, fn = sq.E_UNITS[e["e_unit"]], sq.E_UNITS[e["en_unit"]]
                if e["mode"] == "direct":
                    rexpect(var_in(g.efix, "meV", where + ".efix"), e["efix"] * fe, where + ".efix")
                    rexpect(var_in(g.en, "meV", where + ".en"), np.asarray(e["en"]) * fn, where + ".en")
                else:
                    rexpect(var_in(g.efix, "meV", where + ".efix"), np.asarray(e["efix"]) * fe, where + ".efix")
                    en = g.en
                    if en.ndim == 2:
                        en = en.transpose(["detector", "energy_transfer"])
                    want = np.asarray(e["en"], dtype=float) * fn
                    got = var_in(en, "meV", where + ".en")
                    if len(e["efix"]) == 1 and got.ndim == 1:
                        want = want.reshape(-1)
                    rexpect(got, want, where + ".en")
                for a in ("psi", "omega", "dpsi", "gl", "gs"):
                    rexpect(var_in(getattr(g, a), "rad", f"{where}.{a}"), sq.rad_of(*e[a]), f"{where}.{a}", rel=1e-14)
                rexpect(g.u.values, e["u"], where + ".u")
                rexpect(g.v.values, e["v"], where + ".v")
        if "instrument" in calls:
            ins = out[("experiment_info", "instruments")]
            need(len(ins) == nruns, "reader-shape", f"reader: {len(ins)} instruments for {nruns} runs")
            i = case["instrument"]
            for g in ins:
                need(g.name == i["name"] and g.source.name == i["source_name"] and g.source.target_name == i["target_name"],
                     "reader-string", f"reader: instrument {g.name!r} {g.source.name!r} {g.source.target_name!r}")
                rexpect(g.source.frequency.value, i["frequency"], "instrument.source.frequency")
        if "sample" in calls:
            smp = out[("experiment_info", "samples")]
            need(len(smp) == nruns, "reader-shape", f"reader: {len(smp)} samples for {nruns} runs")
            s = case["sample"]
            fa = 1.0 if s["alatt"][1] == "angstrom" else 10.0
            for g in smp:
                need(g.name == s["name"], "reader-string", f"reader: sample name {g.name!r}")
                rexpect(var_in(g.lattice_spacing, "angstrom", "sample.lattice_spacing"), np.asarray(s["alatt"][0]) * fa,
                        "sample.lattice_spacing")
                rexpect(var_in(g.lattice_angle, "deg", "sample.lattice_angle"),
                        [sq.deg_of(x, s["angdeg"][1]) for x in s["angdeg"][0]], "sample.lattice_angle", rel=1e-14)
        if "dnd" in calls:
            d = case["dnd"]
            md = out[("data", "metadata")]
            ax, pr = md.axes, md.proj
            need(ax.title == d["title"] and list(ax.label) == list(d["label"]), "reader-string",
                 f"reader: axes title/label {ax.title!r} {ax.label!r}")
            u4 = ["1/angstrom"] * 3 + ["meV"]
            for i in range(4):
                rexpect(var_in(ax.img_scales[i], u4[i], f"axes.img_scales[{i}]"), conv4(d["img_scales"])[i], f"axes.img_scales[{i}]")
                rexpect(var_in(ax.img_range[i], u4[i], f"axes.img_range[{i}]"), conv4(d["img_range"])[i], f"axes.img_range[{i}]")
                rexpect(var_in(ax.offset[i], u4[i], f"axes.offset[{i}]"), conv4(d["offset"])[i], f"axes.offset[{i}]")
                rexpect(var_in(pr.offset[i], u4[i], f"proj.offset[{i}]"), conv4(d["proj"]["offset"])[i], f"proj.offset[{i}]")
            rexpect(ax.n_bins_all_dims.values, d["n_bins"], "axes.n_bins_all_dims")
            need([bool(x) for x in np.asarray(ax.single_bin_defines_iax.values).reshape(-1)] == list(d["single_bin"]),
                 "reader-number", "reader: axes.single_bin_defines_iax differs")
            rexpect(ax.dax.values, d["dax"], "axes.dax")
            need(bool(ax.changes_aspect_ratio) == d["changes_aspect_ratio"], "reader-number", "reader: changes_aspect_ratio")
            p = d["proj"]
            fa = 1.0 if p["alatt"][1] == "angstrom" else 10.0
            rexpect(var_in(pr.lattice_spacing, "angstrom", "proj.lattice_spacing"), np.asarray(p["alatt"][0]) * fa,
                    "proj.lattice_spacing")
            rexpect(var_in(pr.lattice_angle, "deg", "proj.lattice_angle"),
                    [sq.deg_of(x, p["angdeg"][1]) for x in p["angdeg"][0]], "proj.lattice_angle", rel=1e-14)
            need(pr.title == p["title"] and list(pr.label) == list(p["label"]), "reader-string",
                 f"reader: proj title/label {pr.title!r} {pr.label!r}")
            rexpect(var_in(pr.u, "1/angstrom", "proj.u"), np.asarray(p["u"][0]) * sq.INV_L_UNITS[p["u"][1]], "proj.u")
            rexpect(var_in(pr.v, "1/angstrom", "proj.v"), np.asarray(p["v"][0]) * sq.INV_L_UNITS[p["v"][1]], "proj.v")
            if p["w"] is None:
                need(pr.w is None, "reader-number", f"reader: proj.w = {pr.w!r}, none supplied")
            else:
                rexpect(var_in(pr.w, "1/angstrom", "proj.w"), np.asarray(p["w"][0]) * sq.INV_L_UNITS[p["w"][1]], "proj.w")
            need(bool(pr.non_orthogonal) == p["non_orthogonal"] and pr.type == "aaa", "reader-number", "reader: proj flags")
            vals, errs, cnts = out[("data", "nd_data")]
            shape = tuple(d["n_bins"])
            vol = int(np.prod(shape)) if shape else 1
            for nm, arr in (("values", vals), ("errors", errs), ("counts", cnts)):
                need(arr.size == vol and not np.any(arr), "reader-dnd", f"reader: histogram {nm} has {arr.size} elements "
                     f"({int(np.count_nonzero(arr))} non-zero), expected {vol} zeros")
                need(tuple(arr.shape) == shape[::-1] or tuple(arr.shape) == shape or not shape, "reader-shape",
                     f"reader: histogram {nm} shape {arr.shape}, declared {shape}")
    return labs, nt


def m_pix_truncated(case, v):
    p = case.get("pix")
    if p is None or "pix" not in case["calls"]:
        return False
    c = 8192 if p["chunk"] is None else p["chunk"]
    return v.kind in ("block-decode",) and p["n"] > c


def m_alatt_unit(case, v):
    return v.kind == "unit-dimension" and "lattice_spacing" in v.message


def m_indirect_en(case, v):
    return v.kind.startswith("unexpected-exception") and case.get("runs") and case["runs"][0]["mode"] == "indirect"


MATCHERS = {"C13.pixels_truncated": m_pix_truncated, "C13.alatt_inverse_unit": m_alatt_unit,
            "C13.reader_indirect_en": m_indirect_en}

FACETS = [
    Facet("content", check_content, strategy=lambda tier: sq.sqw_programs(tier, force_pix=True),
          quick=(8, 120), thorough=(16, 1500), min_nontrivial=0.3,
          doc="independent decode vs supplied model: pixels, pix metadata, experiments, containers, DND metadata"),
    Facet("content_any_program", check_content, strategy=lambda tier: sq.sqw_programs(tier),
          quick=(4, 100), thorough=(16, 800), min_nontrivial=0.1,
          doc="same for arbitrary call subsets (files without pixel data)"),
    Facet("reader", check_reader, strategy=lambda tier: sq.sqw_programs(tier, force_pix=True),
          quick=(8, 100), thorough=(16, 1200), min_nontrivial=0.3,
          doc="Sqw.read_data_block of every block vs the supplied model; units of the right dimension"),
    Facet("reader_any_program", check_reader, strategy=lambda tier: sq.sqw_programs(tier),
          quick=(4, 100), thorough=(16, 800), min_nontrivial=0.1,
          doc="same for arbitrary call subsets"),
]


def selftest():
    ref.selftest()
