"""Shared generator / builder / expectation code for the SQW properties C12 and C13."""

import math
import os
import sys
import tempfile
from io import BytesIO

import numpy as np
from hypothesis import strategies as st

ASCII = "".join(chr(c) for c in range(0x20, 0x7F))
# Non-ASCII text (a title "5 \u00c5", a sample "\u00b5-crystal", a path under /home/j\u00fcrgen): the format
# document speaks of ASCII characters, so a writer may refuse such strings (ValueError) -- but a file it
# does produce must still be a consistent container whose strings read back as supplied.
NONASCII = "\u00c5\u00b5\u00e9\u00fc\u00f1\u03a9\u03bb\u4e2d\u00a0\U0001f600"
_ascii_short = st.text(alphabet=ASCII, max_size=12)
# about one string in 25 is non-ASCII: a case holds 5..40 strings, and most cases should stay pure ASCII
short_text = st.integers(0, 24).flatmap(
    lambda k: st.text(alphabet=ASCII + NONASCII, max_size=12) if k == 0 else _ascii_short)
any_text = st.one_of(short_text, short_text, st.just(""), st.text(alphabet=ASCII, min_size=13, max_size=300),
                     st.integers(0, 5).flatmap(
                         lambda k: st.text(alphabet=ASCII + NONASCII, min_size=1, max_size=40) if k == 0 else _ascii_short))
_FN = "abcdefghijklmnopqrstuvwxyzABCDEFGHIJKLMNOPQRSTUVWXYZ0123456789_-. "
fname_text = st.one_of(*([st.text(alphabet=_FN, min_size=1, max_size=40)] * 5),
                       st.text(alphabet=_FN + "\u00fc\u00e9\u00c5\u4e2d", min_size=1, max_size=20)
                       ).map(lambda s: s.strip(" .") or "f").flatmap(
    # mostly the usual suffix; also none at all or another one (the file named is the file written)
    lambda s: st.sampled_from([s + ".sqw", s + ".sqw", s + ".sqw", s.replace(".", "_"), s + ".dat"]))


def has_non_ascii(obj) -> bool:
    if isinstance(obj, str):
        return not obj.isascii()
    if isinstance(obj, dict):
        return any(has_non_ascii(v) for v in obj.values())
    if isinstance(obj, (list, tuple)):
        return any(has_non_ascii(v) for v in obj)
    return False


def used_non_ascii(case, calls=None) -> bool:
    """Non-ASCII text in a part of the case that the builder program actually uses."""
    calls = set(case["calls"] if calls is None else calls)
    parts = [case["title"]]
    if case["target"] in ("file", "handle"):
        parts.append(case["fname"])
    if "pix" in calls:
        parts.append(case.get("runs"))
    for c, key in (("instrument", "instrument"), ("sample", "sample"), ("dnd", "dnd")):
        if c in calls:
            parts.append(case.get(key))
    return has_non_ascii(parts)

finite = st.floats(allow_nan=False, allow_infinity=False, min_value=-1e30, max_value=1e30)
special = st.sampled_from([0.0, -0.0, 1.0, -1.0, 1e-40, -1e-40, 1e30, -1e30, 16777217.0, 0.1, 1 / 3, 1e-46, 3.4e30])
pix_float = st.one_of(finite, finite, special, st.floats(-100, 100))
angle = st.one_of(st.floats(-720, 720), st.sampled_from([0.0, 90.0, 180.0, -45.0]))

INV_L_UNITS = {"1/angstrom": 1.0, "1/nm": 0.1, "1/fm": 1e5}
E_UNITS = {"meV": 1.0, "eV": 1e3, "ueV": 1e-3}
COUNT_UNITS = {"count": 1.0, "kilo count": 1e3}
ROWS = ("u1", "u2", "u3", "u4", "irun", "idet", "ien", "signal", "error")
CALLS = ("pix", "instrument", "sample", "dnd", "detpar")


@st.composite
def vec3(draw, elements=st.floats(-10, 10)):
    return [draw(elements) for _ in range(3)]


@st.composite
def experiment(draw, run_id, mode, ndet, transposed):
    e = {
        "run_id": run_id, "mode": mode,
        "e_unit": draw(st.sampled_from(sorted(E_UNITS))),
        "en_unit": draw(st.sampled_from(sorted(E_UNITS))),
        "filename": draw(short_text), "filepath": draw(short_text),
        "u": draw(vec3()), "v": draw(vec3()),
    }
    for a in ("psi", "omega", "dpsi", "gl", "gs"):
        e[a] = [draw(angle), draw(st.sampled_from(["deg", "rad"]))]
    nen = draw(st.integers(1, 4))
    if mode == "direct":
        e["efix"] = draw(st.floats(0.01, 1000))
        e["en"] = [draw(st.floats(-100, 100)) for _ in range(nen)]
    else:
        e["efix"] = [draw(st.floats(0.01, 1000)) for _ in range(ndet)]
        e["en"] = [[draw(st.floats(-100, 100)) for _ in range(nen)] for _ in range(ndet)]
        e["transposed"] = transposed
    # stored dtype of the numeric members (seeded/C12-s3: a float32 efix written as it is).  The case
    # holds values that the dtype represents exactly, so the expectations do not depend on it.
    e["num_dtype"] = nd = draw(st.sampled_from(["float64", "float64", "float64", "float32", "int64"]))
    if nd != "float64":
        e["efix"] = _quantise(e["efix"], nd, lo=1.0)
        e["en"] = _quantise(e["en"], nd)
        for a in ("psi", "omega", "dpsi", "gl", "gs"):
            e[a][0] = _quantise(e[a][0], nd)
    return e


def _quantise(v, dtype, lo=None):
    if isinstance(v, list):
        return [_quantise(x, dtype, lo) for x in v]
    q = float(np.float32(v)) if dtype == "float32" else float(round(v))
    return max(q, lo) if lo is not None else q


@st.composite
def pixel_spec(draw, tier):
    big = 100000 if tier == "thorough" else 20000
    chunk = draw(st.one_of(st.none(), st.sampled_from([1, 2, 3, 8, 9, 10, 16, 100, 8192, 100000]),
                           st.integers(1, 40)))
    c = 8192 if chunk is None else chunk
    n = draw(st.one_of(
        st.sampled_from([0, 1, 2, 8, 9, 10, 11, 12, 20]),
        st.integers(0, 40),
        st.sampled_from([max(c - 1, 0), c, c + 1, 2 * c + 3, 3 * c]),
        st.integers(41, 3000),
        st.sampled_from([8191, 8192, 8193, 9000, 16385, 20000]),
        st.integers(41, big),
    ))
    n = min(n, big)
    if c * 400 < n:  # keep the number of chunks bounded (run time)
        n = c * draw(st.integers(2, 400)) + draw(st.integers(0, c))
    spec = {"n": n, "chunk": chunk, "n_dims": draw(st.sampled_from([4, 4, 3, 2, 1]))}
    units = {}
    for r in ("u1", "u2", "u3"):
        units[r] = draw(st.sampled_from(["1/angstrom", "1/angstrom", "1/nm", "1/fm"]))
    units["u4"] = draw(st.sampled_from(["meV", "meV", "eV", "ueV"]))
    units["signal"] = draw(st.sampled_from(["count", "count", "kilo count"]))
    spec["units"] = units
    if n <= 12:
        spec["explicit"] = {
            "u1": [draw(pix_float) for _ in range(n)], "u2": [draw(pix_float) for _ in range(n)],
            "u3": [draw(pix_float) for _ in range(n)], "u4": [draw(pix_float) for _ in range(n)],
            "irun": [draw(st.integers(0, 5)) for _ in range(n)],
            "idet": [draw(st.integers(0, 2**31 - 1)) for _ in range(n)],
            "ien": [draw(st.integers(0, 100000)) for _ in range(n)],
            "signal": [draw(pix_float) for _ in range(n)],
            "error": [abs(draw(pix_float)) for _ in range(n)],
        }
    else:
        spec["seed"] = draw(st.integers(0, 2**32 - 1))
    return spec


@st.composite
def dnd_spec(draw):
    # SQW line axes always describe the four dimensions u1..u4 ("nbins_all_dims"); fewer axes are not
    # a layout the format (or the package's reader) knows, so they are outside the input domain.
    naxes = 4
    sc_units = [draw(st.sampled_from(sorted(INV_L_UNITS))) for _ in range(3)] + [draw(st.sampled_from(sorted(E_UNITS)))]
    val = st.floats(-50, 50)
    return {
        "title": draw(any_text), "label": [draw(short_text) for _ in range(4)],
        "img_scales": [[draw(st.floats(0.01, 10)), sc_units[i]] for i in range(4)],
        "img_range": [[sorted([draw(val), draw(val)]), sc_units[i]] for i in range(4)],
        "n_bins": [draw(st.integers(1, 6)) for _ in range(naxes)],
        "single_bin": [draw(st.booleans()) for _ in range(naxes)],
        "dax": draw(st.permutations(list(range(naxes)))),
        "offset": [[draw(val), sc_units[i]] for i in range(4)],
        "changes_aspect_ratio": draw(st.booleans()),
        "proj": {
            "alatt": [draw(vec3(st.floats(0.5, 20))), draw(st.sampled_from(["angstrom", "nm"]))],
            "angdeg": [draw(vec3(st.floats(10, 170))), draw(st.sampled_from(["deg", "rad"]))],
            "offset": [[draw(val), sc_units[i]] for i in range(4)],
            "title": draw(any_text), "label": [draw(short_text) for _ in range(4)],
            "u": [draw(vec3()), draw(st.sampled_from(sorted(INV_L_UNITS)))],
            "v": [draw(vec3()), draw(st.sampled_from(sorted(INV_L_UNITS)))],
            "w": draw(st.one_of(st.none(), st.tuples(vec3(), st.sampled_from(sorted(INV_L_UNITS))).map(list))),
            "non_orthogonal": draw(st.booleans()),
        },
    }


ROW_VARIANTS = {
    # rows= / row_units= of add_pixel_data: the documented nine, a subset, and the nine plus one more
    "default": None,
    "five": (("u1", "u2", "u3", "u4", "signal"), ("1/angstrom", "1/angstrom", "1/angstrom", "meV", "count")),
    "ten": (("u1", "u2", "u3", "u4", "irun", "idet", "ien", "signal", "error", "extra"),
            ("1/angstrom", "1/angstrom", "1/angstrom", "meV", None, None, None, "count", "count**2", None)),
}


@st.composite
def sqw_programs(draw, tier="quick", force_pix=False, row_variants=False):
    calls = draw(st.lists(st.sampled_from(CALLS), min_size=0, max_size=7))
    if force_pix and "pix" not in calls:
        calls.insert(draw(st.integers(0, len(calls))), "pix")
    case = {
        "byteorder": draw(st.sampled_from(["native", "little", "big"])),
        # "file": a path; "handle": a binary file opened by the caller (the documented BinaryIO target)
        "target": draw(st.sampled_from(["bytesio", "bytesio", "bytesio", "file", "file", "handle"])),
        "fname": draw(fname_text),
        "title": draw(any_text),
        "calls": calls,
    }
    if "pix" in calls:
        case["pix"] = draw(pixel_spec(tier))
        if row_variants:
            case["pix"]["rows_variant"] = draw(st.sampled_from(["default", "default", "five", "ten"]))
            if case["pix"]["rows_variant"] == "default" and draw(st.integers(0, 7)) == 0:
                case["pix"]["bad_unit"] = draw(st.sampled_from(["irun", "idet", "ien", "u1"]))
        nruns = draw(st.one_of(st.integers(1, 3), st.integers(1, 20)))
        mode = draw(st.sampled_from(["direct", "direct", "indirect"]))
        ndet = draw(st.integers(1, 4))
        transposed = draw(st.booleans())
        ids = draw(st.lists(st.integers(0, 1000), min_size=nruns, max_size=nruns, unique=True))
        case["runs"] = [draw(experiment(i, mode, ndet, transposed)) for i in ids]
    if "instrument" in calls:
        case["instrument"] = {"name": draw(any_text), "source_name": draw(short_text),
                              "target_name": draw(short_text), "frequency": draw(st.floats(0.1, 1000))}
        case["instrument"]["freq_dtype"] = fd = draw(st.sampled_from(["float64", "float64", "float32", "int64"]))
        if fd != "float64":
            case["instrument"]["frequency"] = _quantise(case["instrument"]["frequency"], fd, lo=1.0)
    if "sample" in calls:
        case["sample"] = {"name": draw(any_text),
                          "alatt": [draw(vec3(st.floats(0.5, 20))), draw(st.sampled_from(["angstrom", "nm"]))],
                          "angdeg": [draw(vec3(st.floats(10, 170))), draw(st.sampled_from(["deg", "rad"]))]}
    if "dnd" in calls:
        case["dnd"] = draw(dnd_spec())
    return case


# ---------------------------------------------------------------------------------- building


def pixel_rows(spec):
    """Rows as float64/int64 numpy arrays in the *input* units (pure function of the spec)."""
    n = spec["n"]
    if "explicit" in spec:
        ex = spec["explicit"]
        return {r: np.asarray(ex[r], dtype=(np.int64 if r in ("irun", "idet", "ien") else np.float64)) for r in ROWS}
    rng = np.random.Generator(np.random.PCG64(spec["seed"]))
    rows = {}
    for r in ("u1", "u2", "u3", "u4", "signal"):
        mant = rng.uniform(-1, 1, n)
        expo = rng.integers(-12, 13, n)
        rows[r] = mant * 10.0 ** expo
    rows["error"] = np.abs(rng.uniform(0, 1, n) * 10.0 ** rng.integers(-6, 7, n))
    rows["irun"] = rng.integers(0, 6, n)
    rows["idet"] = rng.integers(0, 2**31 - 1, n)
    rows["ien"] = rng.integers(0, 100000, n)
    return rows


def pixel_data_array(spec):
    import scipp as sc

    rows = pixel_rows(spec)
    u = spec["units"]
    data = sc.array(dims=["obs"], values=rows["signal"], variances=rows["error"], unit=u["signal"], dtype="float64")
    coords = {r: sc.array(dims=["obs"], values=rows[r], unit=u[r], dtype="float64") for r in ("u1", "u2", "u3", "u4")}
    for r in ("irun", "idet", "ien"):
        coords[r] = sc.array(dims=["obs"], values=rows[r], unit=None, dtype="int64")
    da = sc.DataArray(data, coords=coords)
    n = len(rows["signal"])
    if n >= 2 and n % 3 == 0:
        # a mask on the pixels (the format has no masks: all N pixels are written, and the ranges in the
        # pixel metadata are those of all of them); the extreme signal and the extreme variance are masked
        # so that a range computed 'without masked pixels' differs (seeded C13-s12)
        m = np.zeros(n, dtype=bool)
        for key in ("signal", "error"):
            v = np.asarray(rows[key], dtype=float)
            m[int(np.argmax(v))] = True
            m[int(np.argmin(v))] = True
        da.masks["bad"] = sc.array(dims=["obs"], values=m)
    return da, rows


def make_experiment(e):
    import scipp as sc
    from scippneutron.io.sqw import EnergyMode, SqwIXExperiment

    nd = e.get("num_dtype", "float64")
    if e["mode"] == "direct":
        efix = sc.scalar(e["efix"], unit=e["e_unit"]).to(dtype=nd)
        en = sc.array(dims=["energy_transfer"], values=e["en"], unit=e["en_unit"]).to(dtype=nd)
        mode = EnergyMode.direct
    else:
        efix = sc.array(dims=["detector"], values=e["efix"], unit=e["e_unit"]).to(dtype=nd)
        en = sc.array(dims=["detector", "energy_transfer"], values=np.asarray(e["en"], dtype=float),
                      unit=e["en_unit"]).to(dtype=nd)
        if e.get("transposed"):
            en = en.transpose(["energy_transfer", "detector"]).copy()
        mode = EnergyMode.indirect
    ang = {a: sc.scalar(e[a][0], unit=e[a][1]).to(dtype=nd) for a in ("psi", "omega", "dpsi", "gl", "gs")}
    return SqwIXExperiment(run_id=e["run_id"], efix=efix, emode=mode, en=en, u=sc.vector(e["u"]), v=sc.vector(e["v"]),
                           filename=e["filename"], filepath=e["filepath"], **ang)


def make_dnd(d):
    import scipp as sc
    from scippneutron.io.sqw import SqwDndMetadata, SqwLineAxes, SqwLineProj

    p = d["proj"]
    axes = SqwLineAxes(
        title=d["title"], label=list(d["label"]),
        img_scales=[sc.scalar(v, unit=u) for v, u in d["img_scales"]],
        img_range=[sc.array(dims=["range"], values=v, unit=u) for v, u in d["img_range"]],
        n_bins_all_dims=sc.array(dims=["axis"], values=np.asarray(d["n_bins"], dtype="int64"), unit=None),
        single_bin_defines_iax=sc.array(dims=["axis"], values=np.asarray(d["single_bin"], dtype=bool)),
        dax=sc.array(dims=["axis"], values=np.asarray(d["dax"], dtype="int64"), unit=None),
        offset=[sc.scalar(v, unit=u) for v, u in d["offset"]],
        changes_aspect_ratio=d["changes_aspect_ratio"],
    )
    proj = SqwLineProj(
        lattice_spacing=sc.vector(p["alatt"][0], unit=p["alatt"][1]),
        lattice_angle=sc.vector(p["angdeg"][0], unit=p["angdeg"][1]),
        offset=[sc.scalar(v, unit=u) for v, u in p["offset"]],
        title=p["title"], label=list(p["label"]),
        u=sc.vector(p["u"][0], unit=p["u"][1]), v=sc.vector(p["v"][0], unit=p["v"][1]),
        w=None if p["w"] is None else sc.vector(p["w"][0], unit=p["w"][1]),
        non_orthogonal=p["non_orthogonal"], type="aaa",
    )
    return SqwDndMetadata(axes=axes, proj=proj)


class Written:
    """Result of running a builder program: the bytes, the path (or None) and the inputs used."""


class RefusedInvalid(Exception):
    """An input that was made invalid on purpose (a pixel coordinate in a unit that cannot be converted)
    was refused; `left` holds whatever bytes the target holds afterwards (None: nothing / untouched)."""

    def __init__(self, error, left):
        super().__init__(f"{type(error).__name__}: {error}")
        self.error, self.left = error, left


class Refused(Exception):
    """The builder refused non-ASCII text with a ValueError (allowed: the format is ASCII)."""


def write(case, calls=None, tmpdir=None):
    """Run the builder program of `case` (or the given permutation of its calls)."""
    try:
        return _write(case, calls, tmpdir)
    except ValueError as e:             # UnicodeEncodeError is a ValueError
        if used_non_ascii(case, calls):
            raise Refused(str(e)) from e
        raise


def _write(case, calls=None, tmpdir=None):
    import scipp as sc
    from scippneutron.io.sqw import Sqw, SqwIXNullInstrument, SqwIXSample, SqwIXSource

    calls = case["calls"] if calls is None else calls
    w = Written()
    w.rows = None
    handle = None
    if case["target"] == "file":
        w.path = os.path.join(tmpdir, case["fname"])
        target = w.path
        if len(case["fname"]) % 2 == 0 and not os.path.exists(w.path):
            # the path already holds an older, longer file: building replaces it (stale bytes behind the
            # last block would break "extents end exactly at end-of-file")
            with open(w.path, "wb") as f:
                f.write(b"older content " * 4000)
    elif case["target"] == "handle":
        w.path = None
        w.handle_path = os.path.join(tmpdir, case["fname"])
        target = handle = open(w.handle_path, "w+b")  # noqa: SIM115 - closed below
    else:
        w.path = None
        target = BytesIO()
    try:
        return _run_builder(case, calls, w, target)
    except Exception as e:  # noqa: BLE001 - re-raised below unless the input was made invalid on purpose
        if not case.get("pix", {}).get("bad_unit") or "pix" not in calls:
            raise
        # an input the builder must refuse: what did the refusal leave in the target?
        left = None
        if case["target"] == "bytesio":
            left = target.getvalue()
        elif case["target"] == "handle":
            target.flush()
            with open(w.handle_path, "rb") as f:
                left = f.read()
        elif os.path.exists(w.path):
            with open(w.path, "rb") as f:
                left = f.read()
            if left == b"older content " * 4000:
                left = None           # the older file is still there, untouched
        raise RefusedInvalid(e, left) from e
    finally:
        if handle is not None:
            handle.close()


def _run_builder(case, calls, w, target):
    import scipp as sc
    from scippneutron.io.sqw import Sqw, SqwIXNullInstrument, SqwIXSample, SqwIXSource

    builder = Sqw.build(target, title=case["title"], byteorder=case["byteorder"])
    for c in calls:
        if c == "pix":
            da, w.rows = pixel_data_array(case["pix"])
            bad = case["pix"].get("bad_unit")
            if bad in ("irun", "idet", "ien"):
                da.coords[bad].unit = "dimensionless"      # the file rows carry no unit (None)
            elif bad == "u1":
                da.coords["u1"].unit = "meV"                # an energy where a momentum is expected
            variant = ROW_VARIANTS[case["pix"].get("rows_variant", "default")]
            kw = {}
            if variant is not None:
                kw = {"rows": variant[0], "row_units": variant[1]}
                if "extra" in variant[0]:
                    da.coords["extra"] = da.coords["idet"].copy()
            builder = builder.add_pixel_data(da, experiments=[make_experiment(e) for e in case["runs"]],
                                             n_dims=case["pix"]["n_dims"], **kw)
        elif c == "instrument":
            i = case["instrument"]
            builder = builder.add_default_instrument(SqwIXNullInstrument(
                name=i["name"], source=SqwIXSource(name=i["source_name"], target_name=i["target_name"],
                                                   frequency=sc.scalar(i["frequency"], unit="Hz").to(
                                                       dtype=i.get("freq_dtype", "float64")))))
        elif c == "sample":
            s = case["sample"]
            builder = builder.add_default_sample(SqwIXSample(
                name=s["name"], lattice_spacing=sc.vector(s["alatt"][0], unit=s["alatt"][1]),
                lattice_angle=sc.vector(s["angdeg"][0], unit=s["angdeg"][1])))
        elif c == "dnd":
            builder = builder.add_empty_dnd_data(make_dnd(case["dnd"]))
        elif c == "detpar":
            builder = builder.add_empty_detector_params()
    chunk = case.get("pix", {}).get("chunk") if "pix" in calls else None
    ret = builder.create() if chunk is None else builder.create(chunk_size=chunk)
    w.returned = ret
    if case["target"] in ("file", "handle"):
        import os as _os
        from ..core import Violation
        d = _os.path.dirname(w.path or w.handle_path)
        if _os.listdir(d) != [case["fname"]]:
            raise Violation("wrong-file", f"building into the {case['target']} target {case['fname']!r} left the files "
                                          f"{sorted(_os.listdir(d))} in an otherwise empty directory")
    if case["target"] == "handle":
        target.flush()
        with open(w.handle_path, "rb") as f:
            w.bytes = f.read()
        w.target = BytesIO(w.bytes)      # what a reader is given afterwards
    elif w.path is None:
        w.bytes = target.getvalue()
        w.target = target
    else:
        with open(w.path, "rb") as f:
            w.bytes = f.read()
        w.target = w.path
    return w


def expected_blocks(case):
    calls = set(case["calls"])
    names = [("", "main_header")]
    if "detpar" in calls:
        names.append(("", "detpar"))
    if "dnd" in calls:
        names += [("data", "metadata"), ("data", "nd_data")]
    if "instrument" in calls:
        names.append(("experiment_info", "instruments"))
    if "sample" in calls:
        names.append(("experiment_info", "samples"))
    if "pix" in calls:
        names += [("experiment_info", "expdata"), ("pix", "metadata"), ("pix", "data_wrap")]
    return names


def expected_byteorder(case):
    return sys.byteorder if case["byteorder"] == "native" else case["byteorder"]


def labels_of(case):
    labs = ["byteorder:" + case["byteorder"], "target:" + case["target"], f"ncalls:{len(case['calls'])}",
            f"nblocks:{len(expected_blocks(case))}"]
    if len(set(case["calls"])) < len(case["calls"]):
        labs.append("repeated-call")
    if len(case["title"]) > 12:
        labs.append("long-title")
    if used_non_ascii(case):
        labs.append("non-ascii-text")
    if "pix" in case:
        p = case["pix"]
        c = 8192 if p["chunk"] is None else p["chunk"]
        n = p["n"]
        labs.append("chunk:" + ("default" if p["chunk"] is None else "<=10" if c <= 10 else ">10"))
        labs.append("npix:" + ("0" if n == 0 else "<=9" if n <= 9 else "<=100" if n <= 100 else "<=1e4" if n <= 10000 else ">1e4"))
        labs.append("npix_vs_chunk:" + ("<" if n < c else "=" if n == c else ">"))
        if n > min(c, 9):
            labs.append("npix>min(chunk,9)")
        labs.append(f"nruns:{min(len(case['runs']), 5)}")
        labs.append("rows:" + p.get("rows_variant", "default"))
        labs.append("mode:" + case["runs"][0]["mode"])
        if any(case["pix"]["units"][r] not in ("1/angstrom", "meV", "count") for r in case["pix"]["units"]):
            labs.append("pixel-unit-conversion")
        for nd in sorted({e.get("num_dtype", "float64") for e in case["runs"]}):
            labs.append("experiment-dtype:" + nd)
    if "instrument" in case:
        labs.append("frequency-dtype:" + case["instrument"].get("freq_dtype", "float64"))
    return labs


def f32_ulp(x):
    return float(np.spacing(np.abs(np.float32(x))))


def isclose_rel(a, b, rel=1e-14):
    return a == b or abs(a - b) <= rel * max(abs(a), abs(b))


def deg_of(value, unit):
    return value if unit == "deg" else math.degrees(value)


def rad_of(value, unit):
    return value if unit == "rad" else math.radians(value)


def tmpdir_for(case):
    return tempfile.TemporaryDirectory(prefix="vfsqw-") if case["target"] in ("file", "handle") else None
