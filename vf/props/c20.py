"""C20 — bundled nuclear data are returned verbatim; attenuation follows the 1/v law."""

import hashlib
import math

import mpmath as mp
from hypothesis import strategies as st

from ..core import Facet, HarnessError, Violation, clear_package_caches
from ..gen import logfloat
from ..ref import csvtab, units

PROPERTY = "C20"
RULE = (
    "Table facets enumerate every row of scattering_parameters.csv (371), atomic_weights.csv (118) "
    "and atomic_masses.csv (3557) of the tree under test, re-parsed with the csv module; one case = "
    "one name looked up with cleared lru_caches and compared cell by cell (value = correctly rounded "
    "decimal, variance = square of the tabulated uncertainty, unit, None for blank cells, Z of the "
    "element left after stripping the leading digits, mass only for nuclides, weight only where "
    "tabulated). Every row is non-trivial; distinct = distinct name. Near-miss names: Hypothesis "
    "picks an API (Atom / ScatteringParams), a genuine name from one of the three tables and one to "
    "three edits (prefix, suffix, case flip, inserted/leading/trailing blank or newline, leading "
    "zeros, digits after the symbol, comma tails, unicode digits, shifted mass number, header words, "
    "short random text); the expected outcome is decided by the re-parsed tables (reject unless the "
    "edited name is itself a row of that API's tables, in which case its own data must come back). "
    "Non-trivial = the name is not genuine for the queried API and is exactly one insertion, deletion "
    "or substitution away from a genuine one. Cache sequences: 3-8 (API, name) entries looked up in "
    "a drawn order with repetitions without clearing the caches in between; non-trivial = some entry "
    "is looked up at least twice and at least two distinct entries occur. Attenuation: Hypothesis "
    "picks a tabulated nuclide with both cross-sections (or synthetic cross-sections in barn / fm^2 "
    "/ angstrom^2 / m^2), a number density (log-uniform 1e-9..1e3 per cubic angstrom, expressed in "
    "1/angstrom^3, 1/nm^3, 1/cm^3 or 1/m^3) and 1-4 wavelengths (log-uniform 1e-3..1e3 angstrom, "
    "expressed in angstrom, nm, um, mm, cm, m, pm or fm; float64 or int64; scalar or array); oracle "
    "n*(sigma_s + sigma_a*lambda/1.7982 A) in 50-digit arithmetic on the stored inputs. Non-trivial "
    "= the absorption term contributes at least 1e-9 of the total and lambda is not the reference "
    "wavelength."
)
TOLERANCES = {
    "table_value": "bit-equal to the correctly rounded decimal",
    "table_variance_rel": 2e-15,
    "attenuation_rel": 1e-13,
}
ASSUMPTIONS = [
    "the CSV files of the tree under test are the ground truth; only their parsing is checked",
    "a name is 'in the tables' for Atom iff it is an element of atomic_weights.csv or a nuclide of "
    "atomic_masses.csv, for ScatteringParams iff it is a name of scattering_parameters.csv",
    "any exception counts as rejection of an unknown name (the type is recorded as a label)",
    "array wavelengths are combined only with cross-sections without variances: scipp refuses to "
    "broadcast a value with variances (VariancesError, its documented policy); such draws are "
    "turned into scalar wavelengths and counted under the label 'array-excluded:variances'",
    "variances of the attenuation coefficient are not part of the property and are not compared",
    "measured worst relative error of the attenuation coefficient on the unchanged tree: 6e-16 "
    "(tolerance 1e-13); worst relative error of a variance against the exact square: 1.8e-16 "
    "(tolerance 2e-15; 9 of 3895 variances differ from fl(s*s) by one ulp because the code uses pow)",
]

ATT_TOL = mp.mpf("1e-13")
VAR_TOL = mp.mpf("2e-15")

# ------------------------------------------------------------------ shared verification


def _clear_caches():
    from scippneutron.atoms import Atom, ScatteringParams

    clear_package_caches()


def _same_float(a: float, b: float) -> bool:
    return a == b and math.copysign(1.0, a) == math.copysign(1.0, b)


def _check_quantity(got, cell, unit: str, what: str) -> str:
    """Compare one returned quantity with one (value, uncertainty) cell. Returns a label."""
    import scipp as sc

    if cell.blank:
        if got is not None:
            raise Violation("blank-not-none", f"{what}: table cell is blank, lookup returned {got!r}")
        return "blank"
    if got is None:
        raise Violation("missing", f"{what}: table has {cell.value!r}, lookup returned None")
    if not isinstance(got, sc.Variable):
        raise Violation("type", f"{what}: returned {type(got).__name__}, expected a scipp Variable")
    if got.ndim != 0:
        raise Violation("dims", f"{what}: returned dims {got.dims}, expected a scalar")
    if got.unit != sc.Unit(unit):
        raise Violation("unit", f"{what}: unit {got.unit}, table quantity is in {unit}")
    if str(got.dtype) != "float64":
        raise Violation("dtype", f"{what}: dtype {got.dtype}, expected float64")
    exp = csvtab.to_float(cell.value)
    val = float(got.value)
    if not _same_float(val, exp):
        raise Violation("value", f"{what}: value {val!r}, table has {cell.value} (= {exp!r})")
    if cell.std == "":
        if got.variances is not None:
            raise Violation("variance-not-none",
                            f"{what}: no uncertainty tabulated, variance {float(got.variance)!r} returned")
        return "value-only"
    if got.variances is None:
        raise Violation("variance-missing", f"{what}: uncertainty {cell.std} tabulated, none returned")
    s = csvtab.to_float(cell.std)
    var = float(got.variance)
    if _same_float(var, s * s):
        return "value+std"
    s2 = mp.mpf(s) ** 2
    if s2 != 0 and math.isfinite(var) and abs(mp.mpf(var) - s2) <= VAR_TOL * s2:
        return "value+std:pow-rounding"
    raise Violation("variance", f"{what}: variance {var!r}, tabulated uncertainty {cell.std} "
                                f"(square {s * s!r})")


def verify_scattering(name: str) -> list:
    """Look ``name`` up in ScatteringParams and compare with the re-parsed table."""
    from scippneutron.atoms import ScatteringParams

    exp = csvtab.expect_scattering(name)
    try:
        got = ScatteringParams.for_isotope(name)
    except Exception as e:  # noqa: BLE001 - any exception rejects an unknown name
        if exp is None:
            return ["scattering:rejected:" + type(e).__name__]
        raise
    if exp is None:
        raise Violation("accepted-unknown-name",
                        f"ScatteringParams.for_isotope({name!r}) is not a table row but returned {got!r}"[:600])
    if not isinstance(got, ScatteringParams):
        raise Violation("type", f"ScatteringParams.for_isotope({name!r}) returned {type(got).__name__}")
    if got.isotope != name:
        raise Violation("isotope-field", f"looked up {name!r}, result is labelled {got.isotope!r}")
    labels = ["scattering:found"]
    for (field, unit), cell in zip(csvtab.SCATTERING_FIELDS, exp, strict=True):
        lab = _check_quantity(getattr(got, field), cell, unit, f"{name}.{field}")
        labels.append(f"{field}:{lab}")
    return labels


def verify_atom(name: str) -> list:
    """Look ``name`` up in Atom and compare with the re-parsed tables."""
    from scippneutron.atoms import Atom

    exp = csvtab.expect_atom(name)
    try:
        got = Atom.for_isotope(name)
    except Exception as e:  # noqa: BLE001 - any exception rejects an unknown name
        if exp is None:
            return ["atom:rejected:" + type(e).__name__]
        raise
    if exp is None:
        raise Violation("accepted-unknown-name",
                        f"Atom.for_isotope({name!r}) is neither an element nor a tabulated nuclide "
                        f"but returned {got!r}"[:600])
    if not isinstance(got, Atom):
        raise Violation("type", f"Atom.for_isotope({name!r}) returned {type(got).__name__}")
    if got.isotope != name:
        raise Violation("isotope-field", f"looked up {name!r}, result is labelled {got.isotope!r}")
    if type(got.z) is not int or got.z != exp["z"]:
        raise Violation("z", f"Atom.for_isotope({name!r}).z = {got.z!r}, element "
                             f"{csvtab.element_of(name)} has Z = {exp['z']}")
    labels = ["atom:" + exp["kind"]]
    # weight: only where a standard one exists
    try:
        w = got.atomic_weight
    except ValueError:
        w = None
    labels.append("weight:" + _check_quantity(w, exp["weight"], "Da", f"{name}.atomic_weight"))
    # mass: only for specific isotopes
    try:
        m = got.atomic_mass
    except ValueError:
        m = None
    if exp["mass"] is None:
        if m is not None:
            raise Violation("mass-for-element", f"{name!r} is an element, atomic_mass returned {m!r}")
        labels.append("mass:none")
    else:
        labels.append("mass:" + _check_quantity(m, exp["mass"], "Da", f"{name}.atomic_mass"))
    return labels


def verify(api: str, name: str) -> list:
    if api == "scattering":
        return verify_scattering(name)
    if api == "atom":
        return verify_atom(name)
    raise HarnessError(f"unknown api {api!r}")


# ------------------------------------------------------------------ facets 1-3: complete tables


def _shuffled(names, first_row, seed):
    """All rows, in an order that is a pure function of VERIF_SEED (not file order, so that state
    surviving between lookups, e.g. a file position, cannot stay hidden behind a monotone scan)."""
    cases = [{"name": n, "row": i + first_row} for i, n in enumerate(names)]
    cases.sort(key=lambda c: hashlib.sha1(f"{seed}:{c['name']}".encode()).hexdigest())
    return cases


def enum_scattering(tier, seed):
    return _shuffled(csvtab.tables().scattering_order, 1, seed)


def enum_weights(tier, seed):
    return _shuffled(csvtab.tables().weights_order, 3, seed)


def enum_masses(tier, seed):
    return _shuffled(csvtab.tables().masses_order, 3, seed)


def check_scattering_row(case):
    _clear_caches()
    name = case["name"]
    if csvtab.expect_scattering(name) is None:
        raise HarnessError(f"case name {name!r} is not a row of the scattering table")
    labels = verify_scattering(name)
    labels.append("isotope" if name[0].isdigit() else "element")
    return labels, True


def check_weights_row(case):
    _clear_caches()
    name = case["name"]
    if name not in csvtab.tables().weights:
        raise HarnessError(f"case name {name!r} is not a row of the weights table")
    return verify_atom(name), True


def check_masses_row(case):
    _clear_caches()
    name = case["name"]
    if name not in csvtab.tables().masses:
        raise HarnessError(f"case name {name!r} is not a row of the masses table")
    return verify_atom(name), True


# ------------------------------------------------------------------ facet 4: near-miss names

BLANKS = [" ", "\n", "\t", "\r", "\r\n", "\u00a0", "\x00"]
EXTRA_CHARS = [" ", "\n", "\t", "\r", ",", ";", ".", "-", "+", "_", "#", "0", "1", "2", "3", "5", "9",
               "a", "e", "g", "H", "C", "x", "é", "Н"]
DIGIT_MAPS = {
    "fullwidth": {ord(str(d)): 0xFF10 + d for d in range(10)},
    "arabic-indic": {ord(str(d)): 0x0660 + d for d in range(10)},
    "superscript": dict(zip(map(ord, "0123456789"), "⁰¹²³⁴⁵⁶⁷⁸⁹",
                            strict=True)),
}
HEADER_WORDS = ["Element", "Isotope", "Z", "#", "Atomic Weight [Da]", "Atomic Mass [Da]",
                "Uncertainty [Da]", "Element,Z", "Isotope,Atomic Mass [Da]", "# Numbers extracted using "
                "tools/atomic_weights.ipynb from https://www.ciaaw.org/atomic-masses.htm"]
OPS = ["drop_last", "drop_first", "prefix", "suffix", "append", "prepend", "insert", "lower", "upper",
       "swapcase", "flip_one", "leading_zeros", "digits_after", "unicode_digits", "comma_tail",
       "row_tail", "replace", "transpose", "double", "mass_shift", "strip_digits"]


def _split(name):
    i = 0
    while i < len(name) and name[i].isdigit() and name[i].isascii():
        i += 1
    return name[:i], name[i:]


def _row_tail(name):
    t = csvtab.tables()
    if name in t.weights:
        z, c = t.weights[name]
        return f"{name},{z},{c.value},{c.std}"
    if name in t.masses:
        c = t.masses[name]
        return f"{name},{c.value},{c.std}"
    if name in t.scattering:
        return name + "," + t.scattering[name][0].value
    return name + ","


@st.composite
def _apply(draw, s, op):
    if op == "drop_last":
        return s[:-1]
    if op == "drop_first":
        return s[1:]
    if op == "prefix":
        return s[: draw(st.integers(0, max(0, len(s) - 1)))]
    if op == "suffix":
        return s[draw(st.integers(1, max(1, len(s)))):]
    if op == "append":
        return s + draw(st.sampled_from(BLANKS + EXTRA_CHARS))
    if op == "prepend":
        return draw(st.sampled_from(BLANKS + EXTRA_CHARS)) + s
    if op == "insert":
        i = draw(st.integers(0, len(s)))
        return s[:i] + draw(st.sampled_from(BLANKS + EXTRA_CHARS)) + s[i:]
    if op == "lower":
        return s.lower()
    if op == "upper":
        return s.upper()
    if op == "swapcase":
        return s.swapcase()
    if op == "flip_one":
        idx = [i for i, c in enumerate(s) if c.isalpha()]
        if not idx:
            return s + " "
        i = draw(st.sampled_from(idx))
        return s[:i] + s[i].swapcase() + s[i + 1:]
    if op == "leading_zeros":
        return "0" * draw(st.integers(1, 3)) + s
    if op == "digits_after":
        d, sym = _split(s)
        d = d or str(draw(st.integers(1, 300)))
        return sym + draw(st.sampled_from(["", "-", " "])) + d
    if op == "unicode_digits":
        d, sym = _split(s)
        d = d or str(draw(st.integers(1, 300)))
        return d.translate(DIGIT_MAPS[draw(st.sampled_from(sorted(DIGIT_MAPS)))]) + sym
    if op == "comma_tail":
        return draw(st.sampled_from([s + ",", "," + s, s + ",,", s + ", "]))
    if op == "row_tail":
        return _row_tail(s)
    if op == "replace":
        if not s:
            return "x"
        i = draw(st.integers(0, len(s) - 1))
        return s[:i] + draw(st.sampled_from(EXTRA_CHARS)) + s[i + 1:]
    if op == "transpose":
        if len(s) < 2:
            return s + s
        i = draw(st.integers(0, len(s) - 2))
        return s[:i] + s[i + 1] + s[i] + s[i + 2:]
    if op == "double":
        return s + s
    if op == "mass_shift":
        d, sym = _split(s)
        if d:
            a = int(d) + draw(st.sampled_from([-3, -2, -1, 1, 2, 3, 10, 100]))
            return (str(a) if a > 0 else "0") + sym
        return str(draw(st.integers(1, 400))) + sym
    if op == "strip_digits":
        d, sym = _split(s)
        return sym if d else s + "0"
    raise HarnessError(op)


def _base_names():
    t = csvtab.tables()
    return st.one_of(st.sampled_from(t.scattering_order), st.sampled_from(t.weights_order),
                     st.sampled_from(t.masses_order), st.sampled_from(t.weights_order))


@st.composite
def near_miss_cases(draw):
    api = draw(st.sampled_from(["atom", "scattering"]))
    kind = draw(st.integers(0, 19))
    if kind == 0:
        name = draw(st.sampled_from(["", *HEADER_WORDS]))
        return {"api": api, "name": name, "base": "", "ops": ["special"]}
    if kind == 1:
        name = draw(st.text(alphabet="HhEeLliBCcNOoFfAaGgDdUu0123456789 ,\n", min_size=0, max_size=6))
        return {"api": api, "name": name, "base": "", "ops": ["text"]}
    base = draw(_base_names())
    nops = draw(st.sampled_from([1, 1, 1, 1, 2, 3]))
    ops, name = [], base
    for _ in range(nops):
        op = draw(st.sampled_from(OPS))
        name = draw(_apply(name, op))
        ops.append(op)
    return {"api": api, "name": name, "base": base, "ops": ops}


def check_near_miss(case):
    _clear_caches()
    api, name = case["api"], case["name"]
    labels = verify(api, name)
    genuine = (csvtab.expect_atom(name) if api == "atom" else csvtab.expect_scattering(name)) is not None
    one_edit = (not genuine) and csvtab.edit_distance_le1(name, api)
    labels = [lab for lab in labels if ":rejected:" in lab or lab.endswith(":found")
              or lab.startswith("atom:")]
    labels.append("genuine-after-edit" if genuine else ("one-edit" if one_edit else "farther"))
    labels.extend("op:" + o for o in case.get("ops", []))
    if any(b in name for b in BLANKS):
        labels.append("has-blank")
    if not name.isascii():
        labels.append("non-ascii")
    return labels, one_edit


# ------------------------------------------------------------------ facet 5: cache sequences


@st.composite
def sequence_cases(draw):
    entry = st.one_of(
        st.tuples(st.sampled_from(["atom", "scattering"]), _base_names()),
        st.tuples(st.sampled_from(["atom", "scattering"]), _base_names()),
        near_miss_cases().map(lambda c: (c["api"], c["name"])),
    )
    entries = draw(st.lists(entry, min_size=3, max_size=8))
    n = len(entries)
    order = draw(st.lists(st.integers(0, n - 1), min_size=n, max_size=3 * n))
    # after which steps the caller modifies what that lookup returned, in place (seeded/C20-s4)
    mutate = draw(st.lists(st.booleans(), min_size=len(order), max_size=len(order)))
    return {"entries": [list(e) for e in entries], "order": order, "mutate": mutate}


def _modify_in_place(api, name) -> int:
    """What a caller may do with a result: accumulate into the returned quantities in place."""
    import scipp as sc
    from scippneutron.atoms import Atom, ScatteringParams

    try:
        obj = (ScatteringParams if api == "scattering" else Atom).for_isotope(name)
    except Exception:  # noqa: BLE001 - rejected names return nothing to modify
        return 0
    n = 0
    fields = [f for f, _ in csvtab.SCATTERING_FIELDS] if api == "scattering" else ["atomic_weight", "atomic_mass"]
    for f in fields:
        try:
            v = getattr(obj, f)
        except ValueError:
            continue
        if isinstance(v, sc.Variable):
            v *= 2.0
            v += sc.scalar(1.0, unit=v.unit)
            n += 1
    return n


def check_sequence(case):
    _clear_caches()
    seen = {}
    labels = []
    for step, i in enumerate(case["order"]):
        api, name = case["entries"][i]
        try:
            labs = verify(api, name)
        except Violation as v:
            which = "repeat" if (api, name) in seen else "first"
            raise Violation(v.kind, f"step {step} ({which} lookup): {v.message}", v.details) from None
        outcome = tuple(labs)
        if (api, name) in seen and seen[(api, name)] != outcome:
            raise Violation("cache-unstable", f"{api} lookup of {name!r} changed between calls: "
                                              f"{seen[(api, name)]} then {outcome}")
        if (api, name) in seen:
            labels.append("repeat:" + ("rejected" if ":rejected:" in labs[0] else "found"))
        seen[(api, name)] = outcome
        if case.get("mutate") and case["mutate"][step] and _modify_in_place(api, name):
            labels.append("result-modified-in-place")
    distinct = len(seen)
    repeated = len(case["order"]) > distinct
    labels.append(f"distinct:{min(distinct, 8)}")
    return labels, repeated and distinct >= 2


# ------------------------------------------------------------------ facet 6: attenuation

LAM_UNITS = ["angstrom", "nm", "um", "mm", "cm", "m", "pm", "fm"]  # pm/fm: integer wavelengths must not be truncated to whole angstrom (seeded/C20-s2)
DENS_UNITS = {"1/angstrom**3": "angstrom", "1/nm**3": "nm", "1/cm**3": "cm", "1/m**3": "m"}
AREA_UNITS = {"barn": mp.mpf(10) ** -28, "fm**2": mp.mpf(10) ** -30, "angstrom**2": mp.mpf(10) ** -20,
              "m**2": mp.mpf(1)}
REF_LAMBDA_M = mp.mpf("1.7982") / 10**10


def _att_nuclides():
    t = csvtab.tables()
    out = []
    for n in t.scattering_order:
        c = t.scattering[n]
        if not c[6].blank and not c[7].blank:
            out.append((n, bool(c[6].std or c[7].std)))
    return out


def _in_unit(si_value: float, unit: str) -> float:
    return float(mp.mpf(si_value) / units.LENGTH[unit])


@st.composite
def attenuation_cases(draw):
    nuclides = _att_nuclides()
    source = draw(st.sampled_from(["table", "table", "table", "synthetic"]))
    case = {"source": source}
    if source == "table":
        name, has_var = draw(st.sampled_from(nuclides))
        case["name"] = name
    else:
        has_var = False
        case["sigma_s"] = {"value": draw(logfloat(-3, 5)), "unit": draw(st.sampled_from(sorted(AREA_UNITS)))}
        case["sigma_a"] = {"value": draw(st.one_of(logfloat(-6, 6), st.just(0.0))),
                           "unit": draw(st.sampled_from(sorted(AREA_UNITS)))}
    # wavelengths
    lam_unit = draw(st.sampled_from(LAM_UNITS))
    want_array = draw(st.booleans())
    n = draw(st.integers(1, 4)) if want_array else 1
    dtype = draw(st.sampled_from(["float64", "float64", "float64", "int64"]))
    if dtype == "int64":
        vals = draw(st.lists(st.integers(1, 2000), min_size=n, max_size=n))
    else:
        lam_si = st.one_of(logfloat(-13, -7), logfloat(-13, -7), logfloat(-10.5, -9.5),
                           st.just(1.7982e-10))
        vals = [_in_unit(v, lam_unit) for v in draw(st.lists(lam_si, min_size=n, max_size=n))]
    case["lam"] = {"unit": lam_unit, "values": vals, "dtype": dtype,
                   "array": bool(want_array and not has_var)}
    if want_array and has_var:
        case["lam"]["values"] = vals[:1]
        case["array_excluded"] = True
    # number density: log-uniform per cubic angstrom, expressed in the drawn unit
    d_unit = draw(st.sampled_from(sorted(DENS_UNITS)))
    per_A3 = draw(logfloat(-9, 3))
    f = units.LENGTH[DENS_UNITS[d_unit]] / units.LENGTH["angstrom"]   # unit length in angstrom
    case["density"] = {"unit": d_unit, "value": float(mp.mpf(per_A3) * f**3)}
    return case


def _area_m2(var, what):
    """Exact value in m^2 of a scalar cross-section Variable whose unit is one of AREA_UNITS."""
    import scipp as sc

    for u, f in AREA_UNITS.items():
        if var.unit == sc.Unit(u):
            return mp.mpf(float(var.value)) * f
    raise Violation("unit", f"{what} has unit {var.unit}, expected an area (table quantities are in barn)")


def check_attenuation(case):
    import numpy as np
    import scipp as sc
    from scippneutron.absorption.material import Material
    from scippneutron.atoms import ScatteringParams

    _clear_caches()
    labels = ["source:" + case["source"]]
    if case["source"] == "table":
        params = ScatteringParams.for_isotope(case["name"])
        if params.total_scattering_cross_section is None or params.absorption_cross_section is None:
            raise Violation("missing", f"{case['name']}: table has both cross-sections, lookup lacks one")
        has_var = (params.total_scattering_cross_section.variances is not None
                   or params.absorption_cross_section.variances is not None)
        labels.append("variances" if has_var else "no-variances")
    else:
        params = ScatteringParams(
            isotope="synthetic",
            total_scattering_cross_section=sc.scalar(case["sigma_s"]["value"], unit=case["sigma_s"]["unit"]),
            absorption_cross_section=sc.scalar(case["sigma_a"]["value"], unit=case["sigma_a"]["unit"]),
        )
        labels.append("sigma_s:" + case["sigma_s"]["unit"])
        labels.append("sigma_a:" + case["sigma_a"]["unit"])
    sig_s = _area_m2(params.total_scattering_cross_section, "total_scattering_cross_section")
    sig_a = _area_m2(params.absorption_cross_section, "absorption_cross_section")

    lam = case["lam"]
    dens = case["density"]
    if lam["array"]:
        wavelength = sc.array(dims=["wavelength"], values=np.asarray(lam["values"], dtype=lam["dtype"]),
                              unit=lam["unit"], dtype=lam["dtype"])
    else:
        v = lam["values"][0]
        wavelength = sc.scalar(int(v) if lam["dtype"] == "int64" else float(v),
                               unit=lam["unit"], dtype=lam["dtype"])
    density = sc.scalar(dens["value"], unit=dens["unit"])
    material = Material(scattering_params=params, effective_sample_number_density=density)
    got = material.attenuation_coefficient(wavelength)

    labels += ["lam:" + lam["unit"], "density:" + dens["unit"], "lam:" + lam["dtype"],
               "array" if lam["array"] else "scalar"]
    if case.get("array_excluded"):
        labels.append("array-excluded:variances")
    if not isinstance(got, sc.Variable):
        raise Violation("type", f"attenuation_coefficient returned {type(got).__name__}")
    try:
        per_m = got.to(unit="1/m", dtype="float64", copy=True)
    except sc.UnitError as e:
        raise Violation("unit", f"result unit {got.unit} is not an inverse length: {e}") from None
    exp_dims = ("wavelength",) if lam["array"] else ()
    if tuple(per_m.dims) != exp_dims or (lam["array"] and per_m.shape != (len(lam["values"]),)):
        raise Violation("dims", f"result dims {got.dims} shape {got.shape}, wavelength dims {exp_dims}")
    n_si = mp.mpf(float(dens["value"])) / units.LENGTH[DENS_UNITS[dens["unit"]]] ** 3
    g = np.asarray(per_m.values, dtype=np.float64).reshape(-1)
    nontrivial = False
    worst = mp.mpf(0)
    for k, v in enumerate(lam["values"]):
        lam_si = mp.mpf(v) * units.LENGTH[lam["unit"]]
        ratio = lam_si / REF_LAMBDA_M
        ref = n_si * (sig_s + sig_a * ratio)
        gv = float(g[k])
        if ref == 0:
            if gv != 0.0:
                raise Violation("value", f"attenuation {gv!r} 1/m, reference is exactly 0")
            continue
        if not math.isfinite(gv):
            raise Violation("non-finite", f"attenuation {gv!r}, reference {mp.nstr(ref, 17)} 1/m")
        err = abs((mp.mpf(gv) - ref) / ref)
        worst = max(worst, err)
        if err > ATT_TOL:
            raise Violation(
                "value",
                f"attenuation_coefficient = {gv!r} 1/m, n*(sigma_s + sigma_a*lambda/1.7982A) = "
                f"{mp.nstr(ref, 20)} 1/m, rel.err {mp.nstr(err, 3)} > 1e-13",
                {"index": k, "rel_err": float(err), "lambda_m": float(lam_si)},
            )
        if sig_a * ratio >= mp.mpf("1e-9") * (sig_s + sig_a * ratio) and abs(ratio - 1) > mp.mpf("1e-6"):
            nontrivial = True
    if worst > ATT_TOL / 10:
        labels.append("err>1e-14")
    return labels, nontrivial


# ------------------------------------------------------------------ registration

FACETS = [
    Facet("scattering_table", check_scattering_row, enumerate=enum_scattering,
          exhaustive_in=("quick", "thorough"), quick=(1, 0), thorough=(4, 0), min_nontrivial=0.99,
          doc="every row of scattering_parameters.csv: 8 quantities, value/variance/unit/None"),
    Facet("weights_table", check_weights_row, enumerate=enum_weights,
          exhaustive_in=("quick", "thorough"), quick=(1, 0), thorough=(2, 0), min_nontrivial=0.99,
          doc="every element of atomic_weights.csv: Z, weight or ValueError where blank, no mass"),
    Facet("masses_table", check_masses_row, enumerate=enum_masses,
          exhaustive_in=("quick", "thorough"), quick=(4, 0), thorough=(8, 0), min_nontrivial=0.99,
          doc="every nuclide of atomic_masses.csv: mass, Z and weight of its element"),
    Facet("near_miss_names", check_near_miss, strategy=lambda tier: near_miss_cases(),
          quick=(4, 900), thorough=(16, 4000), min_nontrivial=0.15,
          fuzz_runs=100000, fuzz_instrument=("scippneutron.atoms",),
          doc="edited names must be rejected unless they are rows themselves (then exact data)"),
    Facet("cache_sequences", check_sequence, strategy=lambda tier: sequence_cases(),
          quick=(2, 300), thorough=(16, 1000), min_nontrivial=0.5,
          doc="repeated lookups in drawn order without clearing the lru_caches"),
    Facet("attenuation", check_attenuation, strategy=lambda tier: attenuation_cases(),
          quick=(4, 600), thorough=(16, 4000), min_nontrivial=0.3,
          doc="Material.attenuation_coefficient vs n*(sigma_s + sigma_a*lambda/1.7982A) in mpmath"),
]


def selftest():
    units.selftest()
    csvtab.selftest()
    # reference formula on a hand-computed value: H, n = 0.01/A^3, lambda = 1.7982 A:
    # 0.01e30 * (82.02 + 0.3326) * 1e-28 = 82.3526 1/m
    ref = (mp.mpf("0.01") * 10**30) * (mp.mpf("82.02") + mp.mpf("0.3326")) * AREA_UNITS["barn"]
    assert mp.almosteq(ref, mp.mpf("82.3526"), rel_eps=mp.mpf(10) ** -40), ref
    assert mp.almosteq(REF_LAMBDA_M, mp.mpf("1.7982e-10"), rel_eps=mp.mpf(10) ** -45)
    assert len(_att_nuclides()) > 300
    assert _split("157Gd") == ("157", "Gd") and _split("H") == ("", "H")
