"""C02 — convert() succeeds iff the target is derivable, and matches the formulas.

Enumerated: origin x target x scatter x all 2^11 subsets of the geometry / energy coordinates.  Each
configuration is run on a small data array whose coordinate *values* are mutually inconsistent on
purpose (supplied L1 != |incident_beam| != |sample - source| ...), so that which of the supplied or
derivable quantities entered the result is visible in the numbers.  The expected outcome comes from
``ref.convmodel`` (rule table written from the user guide and the kernel docstrings, numpy formulas).
"""

import inspect
import math
import random
from collections.abc import Sequence
from functools import lru_cache

import numpy as np

from ..core import Facet, Violation
from ..ref import convmodel as M

PROPERTY = "C02"
RULE = (
    "Enumerated lattice: 4 origins (tof, wavelength, energy, Q) x 21 targets (every coordinate any "
    "graph offers) x scatter in {True, False} x all 2^11 subsets of {position, source_position, "
    "sample_position, incident_beam, scattered_beam, L1, L2, Ltotal, two_theta, incident_energy, "
    "final_energy} = 344064 configurations; the thorough tier visits every one (facets lattice and "
    "graph), the quick tier a seeded stratified sample (random.Random(seed): n subsets for each "
    "of the 69 (origin, target, scatter) strata whose target some rule table offers, n/4 for each of "
    "the 99 strata that can only succeed when the target itself is supplied). The origin coordinate and, for "
    "hkl / ub_matrix / time_at_sample targets, u_matrix, b_matrix, sample_rotation / pulse_time are "
    "always present. Facet geometry_origin adds origin='position' (as used by the package's tests) x "
    "6 beamline targets x scatter x the 2^10 subsets containing position; facet dataset repeats a "
    "sample of the lattice on Datasets with two items, one item and coordinates only; facet unaligned "
    "repeats it with the energy coordinates (or all but the origin) flagged unaligned. Coordinate values come from one of 32 seeded value "
    "sets per configuration; every set is rejected unless all alternative routes to L1, L2, Ltotal "
    "and two_theta differ pairwise by > 2 %, the sample is off the origin, and every tof lies above "
    "1.25 t0 for every route to L1 / L2 (physical region of the inelastic formulas). Layout: data "
    "[spectrum=2, <origin>=3]; position, scattered_beam, L2, Ltotal, two_theta per pixel; "
    "source/sample position, incident_beam, L1, energies scalar. Oracle: bottom-up evaluation of "
    "the documented rule table with present-takes-precedence; energy mode from presence of "
    "incident_energy / final_energy. A configuration is non-trivial when (a) a supplied coordinate "
    "that was used is also derivable from the other supplied ones (shadowing), or (b) the target is "
    "absent, the (origin, scatter, mode) table offers it, and some but not all of the coordinates in "
    "the transitive closure of its rule are present (outcome hinges on the subset), or (c) the energy "
    "mode is ambiguous and the target would be delivered without the offending energy coordinate(s); "
    "for facet graph: a graph was reported and at least one rule of it was "
    "evaluated. Distinct = distinct descriptor hash."
)
TOLERANCES = {
    "rtol": 1e-9,
    "note": "relative to |expected| per element (vectors: to the vector norm, matrices: to the "
            "largest element); energy_transfer relative to |expected| + E_i/f, time_at_sample "
            "relative to |expected| + |tof| + |pulse_time| (differences of terms). Worst observed "
            "error on the unchanged tree over the complete lattice (90940 delivered values): "
            "< 1e-15 (err: labels), i.e. six orders of margin.",
}
ASSUMPTIONS = [
    "'derivable' means derivable inside the graph documented for that origin (conversion.graph.tof "
    "'start' docs): e.g. Q from energy or ub_matrix from origin Q are not on offer although "
    "mathematically possible; kinematic (scatter=False) and inelastic conversions start from tof only",
    "an elastic conversion from/to 'energy' on data carrying incident_energy or final_energy counts "
    "as ambiguous for both values of scatter (the mode deduction does not look at scatter)",
    "the exception must be exactly RuntimeError (scipp's UnitError/DimensionError are subclasses and "
    "are not accepted); its message is not compared",
    "units are fixed (m, rad, us, meV, angstrom); unit equivariance is C07, event data C06, "
    "NaN placement at the inelastic boundary C05",
    "pulse_time is a float in the unit of tof",
    "values of the thorough enumeration are sampled (32 sets per seed); the configuration lattice is "
    "complete",
]
MATCHERS = {}

RTOL = 1e-9
NS, NT = 2, 3
K_SETS = 32
GAP = 0.02          # minimal pairwise relative distance between alternative routes
NMASK = 1 << len(M.COORDS)

LAYOUT = {
    "tof": "origin", "wavelength": "origin", "energy": "origin", "Q": "origin",
    "position": "pixel", "scattered_beam": "pixel", "L2": "pixel", "Ltotal": "pixel",
    "two_theta": "pixel",
    "source_position": "scalar", "sample_position": "scalar", "incident_beam": "scalar",
    "L1": "scalar", "incident_energy": "scalar", "final_energy": "scalar", "pulse_time": "scalar",
    "u_matrix": "scalar", "b_matrix": "scalar", "sample_rotation": "scalar",
}
ENERGY_MODE_NAME = {"elastic": "elastic", "direct": "direct_inelastic", "indirect": "indirect_inelastic"}


# --------------------------------------------------------------------------- value sets


def _r(x):
    return round(float(x), 4)


def _rotation(rng):
    q = np.array([rng.uniform(-1, 1) for _ in range(4)])
    while np.linalg.norm(q) < 0.3:
        q = np.array([rng.uniform(-1, 1) for _ in range(4)])
    w, x, y, z = q / np.linalg.norm(q)
    return [
        [1 - 2 * (y * y + z * z), 2 * (x * y - z * w), 2 * (x * z + y * w)],
        [2 * (x * y + z * w), 1 - 2 * (x * x + z * z), 2 * (y * z - x * w)],
        [2 * (x * z - y * w), 2 * (y * z + x * w), 1 - 2 * (x * x + y * y)],
    ]


def _direction(rng):
    z = rng.uniform(-1, 1)
    phi = rng.uniform(0, 2 * math.pi)
    s = math.sqrt(1 - z * z)
    return np.array([s * math.cos(phi), s * math.sin(phi), z])


class _Redraw(Exception):
    pass


def _until(rng, draw, ok, what):
    """Redraw (deterministically, from the same generator) until ``ok``."""
    for _ in range(200):
        x = draw()
        if ok(x):
            return x
    raise _Redraw(what)


def _draw(rng) -> dict:
    """One value set, built in stages so that every stage only has to avoid the routes fixed so far."""
    def vec(length):
        return [_r(c) for c in _direction(rng) * length]

    def sign():
        return rng.choice([-1.0, 1.0])

    def beams():
        return {
            "source_position": [_r(rng.uniform(-0.4, 0.4)), _r(rng.uniform(-0.4, 0.4)),
                                _r(rng.uniform(-12.5, -8.0))],
            "sample_position": [_r(sign() * rng.uniform(0.1, 0.5)), _r(sign() * rng.uniform(0.1, 0.5)),
                                _r(sign() * rng.uniform(0.1, 0.6))],
            "position": [vec(rng.uniform(1.5, 4.5)) for _ in range(NS)],
            "incident_beam": [_r(rng.uniform(-0.8, 0.8)), _r(rng.uniform(-0.8, 0.8)),
                              _r(rng.uniform(6.5, 13.0))],
            "scattered_beam": [vec(rng.uniform(1.2, 4.5)) for _ in range(NS)],
        }

    def geometry_ok(v, names):
        r = routes(v)
        return _gap_of(r, names) >= GAP and all(
            0.2 <= x <= 3.0 for group in r["two_theta"] for x in group[1:])

    def with_(v, **kw):
        return {**v, **kw}

    # supplied scalars that do not take part yet are parked far away from everything
    park = {"L1": 1e3, "L2": [2e3, 2e3], "Ltotal": [1e4, 1e4], "two_theta": [50.0, 50.0]}
    v = _until(rng, lambda: with_(beams(), **park),
               lambda x: geometry_ok(x, ("L1", "L2", "two_theta")), "beams")
    v = _until(rng, lambda: with_(v, L1=_r(rng.uniform(6.5, 13.0)),
                                  L2=[_r(rng.uniform(1.2, 4.5)) for _ in range(NS)]),
               lambda x: geometry_ok(x, ("L1", "L2", "Ltotal")), "L1, L2")
    v = _until(rng, lambda: with_(v, Ltotal=[_r(rng.uniform(8.0, 19.0)) for _ in range(NS)],
                                  two_theta=[_r(rng.uniform(0.25, 2.9)) for _ in range(NS)]),
               lambda x: geometry_ok(x, ("Ltotal", "two_theta")), "Ltotal, two_theta")

    ei = _r(rng.uniform(60.0, 130.0))
    v.update({
        "incident_energy": ei,
        "final_energy": _until(rng, lambda: _r(rng.uniform(60.0, 130.0)),
                               lambda e: abs(e - ei) >= 0.1 * ei, "final_energy"),
        "tof": _until(rng, lambda: sorted(_r(rng.uniform(5500.0, 14000.0)) for _ in range(NT)),
                      lambda t: t[1] - t[0] > 0.03 * t[1] and t[2] - t[1] > 0.03 * t[2], "tof"),
        "wavelength": sorted(_r(rng.uniform(0.7, 7.0)) for _ in range(NT)),
        "energy": sorted(_r(rng.uniform(3.0, 90.0)) for _ in range(NT)),
        "Q": sorted(_r(rng.uniform(0.4, 9.0)) for _ in range(NT)),
        "pulse_time": _r(rng.uniform(1e4, 9e4)),
        "u_matrix": [[float(c) for c in row] for row in _rotation(rng)],
        "sample_rotation": [[float(c) for c in row] for row in _rotation(rng)],
    })
    a, b, c = rng.uniform(0.15, 0.4), rng.uniform(0.15, 0.4), rng.uniform(0.15, 0.4)
    v["b_matrix"] = [[_r(a), _r(rng.uniform(-0.1, 0.1)), _r(rng.uniform(-0.1, 0.1))],
                     [0.0, _r(b), _r(rng.uniform(-0.1, 0.1))],
                     [0.0, 0.0, _r(c)]]
    return v


def _min_gap(alts) -> float:
    """Smallest pairwise relative difference |a-b|/max(a,b) among positive alternative values
    (attained by neighbours in sorted order)."""
    x = sorted(alts)
    return min((b - a) / b for a, b in zip(x[:-1], x[1:], strict=True))


def _sub(a, b):
    return (a[0] - b[0], a[1] - b[1], a[2] - b[2])


def _len(a):
    return math.sqrt(a[0] * a[0] + a[1] * a[1] + a[2] * a[2])


def _angle(a, b):
    cx = (a[1] * b[2] - a[2] * b[1], a[2] * b[0] - a[0] * b[2], a[0] * b[1] - a[1] * b[0])
    return math.atan2(_len(cx), a[0] * b[0] + a[1] * b[1] + a[2] * b[2])


def routes(v: dict) -> dict:
    """Every value L1, L2, Ltotal, two_theta can take depending on what is supplied.

    name -> list of groups (one group for the scalar L1, one per pixel otherwise); the members of a
    group are the alternative values of that quantity for that pixel (supplied value first)."""
    src, smp = v["source_position"], v["sample_position"]
    ibs = [v["incident_beam"], _sub(smp, src)]
    l1 = [v["L1"]] + [_len(b) for b in ibs]
    out = {"L1": [l1], "L2": [], "Ltotal": [], "two_theta": []}
    for p in range(NS):
        pos = v["position"][p]
        sbs = [v["scattered_beam"][p], _sub(pos, smp)]
        l2 = [v["L2"][p]] + [_len(b) for b in sbs]
        out["L2"].append(l2)
        out["Ltotal"].append([v["Ltotal"][p], _len(_sub(pos, src))] + [a + b for a in l1 for b in l2])
        out["two_theta"].append([v["two_theta"][p]] + [_angle(a, b) for a in ibs for b in sbs])
    return out


def _gap_of(r, names) -> float:
    return min(_min_gap(group) for n in names for group in r[n])


def values_ok(v: dict) -> bool:
    r = routes(v)
    if _gap_of(r, ("L1", "L2", "Ltotal", "two_theta")) < GAP:
        return False
    if not all(0.2 <= x <= 3.0 for group in r["two_theta"] for x in group):
        return False
    if abs(v["incident_energy"] - v["final_energy"]) < 0.1 * v["incident_energy"]:
        return False
    if _min_gap(v["tof"]) < GAP:
        return False
    if max(abs(c) for c in v["sample_position"]) < 0.1:
        return False
    c = M.consts()
    l1max = max(r["L1"][0])
    l2max = max(x for group in r["L2"] for x in group)
    t0 = max(l1max * math.sqrt(c["m_n"] / (2 * v["incident_energy"] * M.MEV)),
             l2max * math.sqrt(c["m_n"] / (2 * v["final_energy"] * M.MEV))) / M.US
    return min(v["tof"]) > 1.25 * t0


@lru_cache(maxsize=8)
def value_sets(seed: int, k: int = K_SETS) -> list:
    rng = random.Random(seed * 7919 + 13)       # pure function of the seed; used by enumerate only
    out = []
    for _ in range(50 * k):
        try:
            v = _draw(rng)
        except _Redraw:
            continue
        if values_ok(v):
            out.append(v)
            if len(out) == k:
                return out
    raise RuntimeError("value_sets: rejection loop did not terminate")


# --------------------------------------------------------------------------- enumeration


class LazyCases(Sequence):
    """List-like of case descriptors built on demand from integer keys (pure, no state)."""

    def __init__(self, keys, build):
        self.keys = keys
        self.build = build

    def __len__(self):
        return len(self.keys)

    def __getitem__(self, i):
        if isinstance(i, slice):
            return LazyCases(self.keys[i], self.build)
        return self.build(self.keys[i])


def _strata(origins, targets):
    return [(o, t, s) for o in origins for t in targets for s in (True, False)]


LATTICE = _strata(M.ORIGINS, M.TARGETS)                      # 168 strata x 2048 subsets
GEO_LATTICE = _strata(("position",), M.GEOMETRY_TARGETS)     # 12 strata x 2048 (position forced)


def make_case(stratum, mask: int, values: dict, container: str) -> dict:
    origin, target, scatter = stratum
    names = [origin, *M.EXTRAS.get(target, ())]
    names += [n for i, n in enumerate(M.COORDS) if mask >> i & 1 and n not in names]
    return {
        "origin": origin, "target": target, "scatter": scatter, "container": container,
        "coords": {n: values[n] for n in names},
    }


def on_offer(stratum) -> bool:
    """Does any energy mode's rule table offer the target for this origin / scatter flag?"""
    origin, target, scatter = stratum
    return any(target in M.rules_for(origin, scatter, mode) for mode in ("elastic", "direct", "indirect"))


def _cases(lattice, tier, seed, per_stratum, container, salt, forced_bit=None):
    """per_stratum=None: every (stratum, subset). Otherwise a stratified seeded sample: per_stratum
    subsets for each stratum whose target is on offer, a quarter of that for the strata that can only
    succeed when the target itself is supplied."""
    sets = value_sets(seed)
    masks = range(NMASK) if forced_bit is None else [m for m in range(NMASK) if m >> forced_bit & 1]
    if per_stratum is None:
        if forced_bit is None:
            keys = range(len(lattice) * NMASK)
        else:
            keys = [s * NMASK + m for s in range(len(lattice)) for m in masks]
    else:
        rng = random.Random(seed * 1000003 + salt)
        keys = []
        for s in range(len(lattice)):
            n = per_stratum if on_offer(lattice[s]) else max(1, per_stratum // 4)
            keys.extend(s * NMASK + m for m in sorted(rng.sample(masks, min(n, len(masks)))))

    def build(key):
        s, mask = divmod(key, NMASK)
        vset = sets[((key * 2654435761 + salt) % 4294967296 >> 7) % len(sets)]
        case = make_case(lattice[s], mask, vset, container)
        pick = (key * 40503 + salt * 7) % 65536 >> 4
        if container == "Dataset":
            # two items, one item, or coordinates only (seeded/C02-s3)
            case["container"] = ("Dataset", "Dataset", "Dataset-1-item", "Dataset-0-items")[pick % 4]
        # the scatter flag as a numpy bool in a quarter of the cases (seeded/C06-s6)
        case["scatter_form"] = ("bool", "bool", "bool", "np.bool_")[(key * 2246822519 + salt) % 4294967296 >> 9 & 3]
        if container == "unaligned":
            # coordinates that are present but flagged unaligned (what a previous convert leaves
            # behind for its consumed inputs; seeded/C02-s4): energies only, or everything but the origin
            case["container"] = "DataArray"
            case["unaligned"] = ("energies", "energies", "all")[pick % 3]
        return case

    return LazyCases(keys, build)


def enum_lattice(tier, seed):
    return _cases(LATTICE, tier, seed, None if tier == "thorough" else 220, "DataArray", 1)


def enum_graph(tier, seed):
    return _cases(LATTICE, tier, seed, None if tier == "thorough" else 66, "DataArray", 2)


def enum_dataset(tier, seed):
    return _cases(LATTICE, tier, seed, 440 if tier == "thorough" else 28, "Dataset", 3)


def enum_unaligned(tier, seed):
    return _cases(LATTICE, tier, seed, 440 if tier == "thorough" else 28, "unaligned", 5)


def enum_geometry_origin(tier, seed):
    return _cases(GEO_LATTICE, tier, seed, None if tier == "thorough" else 300, "DataArray", 4,
                  forced_bit=M.COORDS.index("position"))


# --------------------------------------------------------------------------- building the input


def to_variable(name, value, origin):
    import scipp as sc

    unit, kind, layout = M.UNIT[name], M.KIND[name], LAYOUT[name]
    if kind == "matrix":
        return sc.spatial.linear_transform(value=np.asarray(value, dtype=float), unit=unit)
    if kind == "vector":
        if layout == "pixel":
            return sc.vectors(dims=["spectrum"], values=np.asarray(value, dtype=float), unit=unit)
        return sc.vector(np.asarray(value, dtype=float), unit=unit)
    if layout == "scalar":
        return sc.scalar(float(value), unit=unit)
    dim = "spectrum" if layout == "pixel" else origin
    return sc.array(dims=[dim], values=np.asarray(value, dtype=float), unit=unit)


def to_array(name, value):
    kind, layout = M.KIND[name], LAYOUT[name]
    a = np.asarray(value, dtype=float)
    elem = {"scalar": (), "vector": (3,), "matrix": (3, 3)}[kind]
    lead = {"scalar": (1, 1), "pixel": (NS, 1), "origin": (1, NT)}[layout]
    return a.reshape(lead + elem)


def build(case):
    import scipp as sc

    origin = case["origin"]
    dim = origin if LAYOUT[origin] == "origin" else "tof"
    da = sc.DataArray(sc.ones(dims=["spectrum", dim], shape=[NS, NT], unit="counts"))
    for name, value in case["coords"].items():
        da.coords[name] = to_variable(name, value, origin)
    ua = case.get("unaligned")
    if ua:
        for name in case["coords"]:
            if (ua == "all" and name != origin) or name in M.ENERGY_INPUTS:
                da.coords.set_aligned(name, False)
    if case["container"] == "Dataset":
        return sc.Dataset({"a": da, "b": da * 2.0})
    if case["container"] == "Dataset-1-item":
        return sc.Dataset({"a": da})
    if case["container"] == "Dataset-0-items":
        return sc.Dataset(coords=dict(da.coords))
    return da


def env_of(case):
    return {name: to_array(name, value) for name, value in case["coords"].items()}


# --------------------------------------------------------------------------- comparing


def _as_st(var, kind, what):
    """Values of a result coordinate as an array (S, T) + element shape."""
    dims = var.dims
    other = [d for d in dims if d != "spectrum"]
    if len(other) > 1:
        raise Violation("shape", f"{what}: result has dims {dims}")
    vals = np.asarray(var.values, dtype=float)
    if not dims:
        return vals[None, None]
    if dims == ("spectrum",):
        return vals[:, None]
    if len(dims) == 1:
        return vals[None, :]
    return vals if dims[0] == "spectrum" else np.swapaxes(vals, 0, 1)


def _scale(target, exp, env_used):
    kind = M.KIND[target]
    if kind == "vector":
        return np.sqrt(np.sum(exp * exp, axis=-1))[..., None]
    if kind == "matrix":
        return np.max(np.abs(exp), axis=(-2, -1))[..., None, None]
    s = np.abs(exp)
    if target == "energy_transfer":
        s = s + sum(np.abs(env_used[n]) for n in M.ENERGY_INPUTS if n in env_used)
    elif target == "time_at_sample":
        s = s + np.abs(env_used["tof"]) + np.abs(env_used["pulse_time"])
    return s


def compare(target, var, exp, env, what):
    """Raise Violation unless coordinate ``var`` equals ``exp``; returns the worst relative error."""
    import scipp as sc

    if var.unit != sc.Unit(M.UNIT[target]):
        raise Violation("unit", f"{what}: unit {var.unit}, documented {M.UNIT[target]}")
    got = _as_st(var, M.KIND[target], what)
    if got.shape != exp.shape:
        raise Violation("shape", f"{what}: result shape (spectrum, origin dim, ...) {got.shape} "
                        f"(dims {var.dims}), expected {exp.shape}")
    nan_e, nan_g = np.isnan(exp), np.isnan(got)
    if (nan_e != nan_g).any():
        raise Violation("wrong-value", f"{what}: NaN pattern differs: got {got.tolist()}, expected {exp.tolist()}")
    with np.errstate(all="ignore"):
        err = np.abs(got - exp) / _scale(target, exp, env)
    err = np.where(nan_e, 0.0, err)
    worst = float(np.max(err)) if err.size else 0.0
    if not worst <= RTOL:
        raise Violation(
            "wrong-value",
            f"{what}: got {np.round(got, 9).tolist()}, documented formulas give {np.round(exp, 9).tolist()} "
            f"(rel. error {worst:.3e} > {RTOL})", {"rel_err": worst})
    return worst


def _err_label(e):
    if e == 0:
        return "err:0"
    return f"err:<1e{int(math.floor(math.log10(e))) + 1}"


def _flag(case):
    return np.bool_(case["scatter"]) if case.get("scatter_form") == "np.bool_" else case["scatter"]


def _convert(data, case):
    """('value', result) | ('error', exc) — only an exact RuntimeError is the allowed failure."""
    import scippneutron as scn

    try:
        return "value", scn.convert(data, origin=case["origin"], target=case["target"],
                                    scatter=_flag(case))
    except RuntimeError as e:
        if type(e) is not RuntimeError:
            raise
        return "error", e


def _classify(case, env, out):
    """Labels and the non-triviality rule (see RULE)."""
    origin, target, scatter = case["origin"], case["target"], case["scatter"]
    present = [n for n in M.COORDS if n in env]
    labs = [f"scatter-form:{case.get('scatter_form', 'bool')}", f"container:{case['container']}", f"unaligned:{case.get('unaligned', 'none')}",
            f"origin:{origin}", f"target:{target}", f"scatter:{scatter}", f"model:{out.status}",
            f"mode:{out.mode}", f"present:{len(present) // 4 * 4}-{len(present) // 4 * 4 + 3}"]
    nontrivial = False
    if out.status == "ambiguous":
        # decisive only if the refusal changes the outcome: without the offending coordinate(s) the
        # target would have been delivered
        drop = ("final_energy",) if target == "energy_transfer" else M.ENERGY_INPUTS
        rest = {n: a for n, a in env.items() if n not in drop}
        if M.evaluate(origin, target, scatter, rest).status == "value":
            labs.append("ambiguity-decisive")
            nontrivial = True
    else:
        rules = M.rules_for(origin, scatter, out.mode)
        if out.status == "value":
            labs.append(f"computed:{len(out.computed)}")
            if target in env:
                labs.append("target-supplied")
            if out.shadowing:
                labs.append("shadowing")
                nontrivial = True
        if target not in env and target in rules:
            relevant = [n for n in M.closure(target, rules) if n in M.COORDS]
            have = sum(1 for n in relevant if n in env)
            if 0 < have < len(relevant):
                labs.append("partial")
                nontrivial = True
        elif target not in env:
            labs.append("not-on-offer")
    return labs, nontrivial


def _describe(case):
    present = [n for n in M.COORDS if n in case["coords"]]
    return (f"convert(origin={case['origin']!r}, target={case['target']!r}, scatter={case['scatter']}) "
            f"on a {case['container']} with {present}")


def check_convert(case):
    env = env_of(case)
    out = M.evaluate(case["origin"], case["target"], case["scatter"], env)
    labs, nontrivial = _classify(case, env, out)
    data = build(case)
    status, res = _convert(data, case)
    target = case["target"]
    if status == "error":
        labs.append("raised:RuntimeError")
        if out.status == "value":
            raise Violation(
                "derivable-failure",
                f"{_describe(case)} raised RuntimeError({str(res)[:160]!r}) although {target} is "
                f"derivable (supplied: {list(out.fetched)}, rules: {list(out.computed)}, mode {out.mode})")
        return labs, nontrivial
    labs.append("returned")
    if out.status != "value":
        why = ("the energy mode is ambiguous" if out.status == "ambiguous"
               else f"{out.missing!r} is neither supplied nor derivable (mode {out.mode})")
        got = None
        item = res["a"] if case["container"] in ("Dataset", "Dataset-1-item") else res
        if target in item.coords:
            got = np.round(np.asarray(item.coords[target].values, dtype=float), 6).tolist()
        raise Violation("underivable-success",
                        f"{_describe(case)} returned {target}={got} although {why}")
    items = {"Dataset": lambda: [res["a"], res["b"]], "Dataset-1-item": lambda: [res["a"]],
             "Dataset-0-items": lambda: [res]}.get(case["container"], lambda: [res])()
    if case["container"].startswith("Dataset") and sorted(res.keys()) != sorted(data.keys()):
        raise Violation("items", f"{_describe(case)} returned items {sorted(res.keys())}")
    worst = 0.0
    for item in items:
        if target not in item.coords:
            raise Violation("missing-target", f"{_describe(case)} returned without coordinate {target}")
        worst = max(worst, compare(target, item.coords[target], out.value, env, _describe(case)))
    labs.append(_err_label(worst))
    return labs, nontrivial


# --------------------------------------------------------------------------- reported graph


def _params(fn):
    keys = getattr(fn, "__transform_coords_input_keys__", None)
    if keys is not None:
        return tuple(keys)
    spec = inspect.getfullargspec(fn)
    return tuple(spec.args) + tuple(spec.kwonlyargs)


def _flatten(graph):
    out = {}
    for key, fn in graph.items():
        for name in (key,) if isinstance(key, str) else key:
            out[name] = fn
    return out


def _poisoned_rule():
    raise AssertionError("a rule that a caller put into his own copy of a reported graph was executed")


def check_graph(case):
    import scipp as sc
    import scippneutron as scn

    origin, target, scatter = case["origin"], case["target"], case["scatter"]
    env = env_of(case)
    out = M.evaluate(origin, target, scatter, env)
    labs, _ = _classify(case, env, out)
    data = build(case)
    status, res = _convert(data, case)
    try:
        graph = scn.deduce_conversion_graph(data, origin=origin, target=target, scatter=_flag(case))
    except RuntimeError as e:
        if type(e) is not RuntimeError:
            raise
        labs.append("graph:refused")
        if status == "value":
            raise Violation("graph-mismatch", f"{_describe(case)} returned a result but "
                            f"deduce_conversion_graph raised RuntimeError({str(e)[:120]!r})") from None
        return labs, False
    labs.append("graph:reported")
    if out.status == "ambiguous":
        raise Violation("ambiguous-mode-graph",
                        f"deduce_conversion_graph reported a graph for {_describe(case)} although the "
                        f"energy mode is ambiguous (nodes {sorted(map(str, graph))})")

    # the same arguments give the same graph, and the explicit-mode entry point agrees
    again = scn.deduce_conversion_graph(data, origin=origin, target=target, scatter=scatter)
    explicit = scn.conversion_graph(origin, target, scatter, ENERGY_MODE_NAME[out.mode])
    explicit2 = scn.conversion_graph(origin, target, scatter, ENERGY_MODE_NAME[out.mode])
    if not (graph == again and explicit == explicit2):
        raise Violation("graph-unstable", f"graphs for {_describe(case)} differ between identical calls: "
                        f"{sorted(map(str, graph))} / {sorted(map(str, again))}; conversion_graph: "
                        f"{sorted(map(str, explicit))} / {sorted(map(str, explicit2))}")
    if graph != explicit:
        differing = sorted(str(k) for k in set(graph) | set(explicit) if graph.get(k) is not explicit.get(k))
        raise Violation("graph-mode", f"deduce_conversion_graph for {_describe(case)} is not "
                        f"conversion_graph(..., energy_mode={ENERGY_MODE_NAME[out.mode]!r}): nodes "
                        f"{differing} differ")

    # structure: every node is a documented one with the documented inputs, and everything the
    # target can draw on is there
    rules = M.rules_for(origin, scatter, out.mode)
    flat = _flatten(graph)
    for name, fn in flat.items():
        if name not in rules:
            raise Violation("graph-structure", f"graph for {_describe(case)} has node {name!r} which the "
                            f"documented ({origin}, scatter={scatter}, {out.mode}) table does not offer")
        if set(_params(fn)) != set(rules[name].inputs):
            raise Violation("graph-structure", f"graph node {name!r} for {_describe(case)} takes "
                            f"{_params(fn)} ({getattr(fn, '__name__', fn)}), documented inputs "
                            f"{rules[name].inputs}")
    needed = ({target} | M.closure(target, rules)) & set(rules)
    if not needed <= set(flat):
        raise Violation("graph-structure", f"graph for {_describe(case)} lacks {sorted(needed - set(flat))}")

    # the reported graph is the one that is used
    try:
        via = ("value", data.transform_coords(target, graph=graph))
    except KeyError as e:
        via = ("error", e)
    if via[0] != status:
        raise Violation("graph-mismatch", f"{_describe(case)}: convert -> {status}, transform_coords with "
                        f"the reported graph -> {via[0]} ({str(via[1])[:120] if via[0] == 'error' else ''})")
    if status == "value":
        if not sc.identical(res, via[1]):
            raise Violation("graph-mismatch", f"{_describe(case)}: result differs from transform_coords "
                            "with the reported graph")
        # and it is the documented result (same oracle as facet lattice, so that a graph wired to the
        # wrong kernel cannot hide behind self-consistency)
        if out.status == "value":
            compare(target, res.coords[target], out.value, env, _describe(case))
    # "the graph reported for the same arguments is the one that is used" also after the caller has
    # edited the reported graphs (they are his): the next conversion must not pick up the edits
    # (seeded/C02-s10: graphs built once at module level and handed out without a copy)
    for g in (graph, again, explicit, explicit2):
        for k in list(g):
            g[k] = _poisoned_rule
        g["__edited_by_caller__"] = _poisoned_rule
    try:
        status2, res2 = _convert(build(case), case)
    except Exception as e:  # noqa: BLE001 - the first, identical conversion did not raise this
        raise Violation("graph-shared", f"{_describe(case)}: after the caller edited the graphs returned by "
                        f"deduce_conversion_graph / conversion_graph, the same conversion raises "
                        f"{type(e).__name__}: {str(e)[:160]}") from e
    if status2 != status or (status == "value" and not sc.identical(res2, res)):
        raise Violation("graph-shared", f"{_describe(case)}: after the caller edited the graphs returned by "
                        f"deduce_conversion_graph / conversion_graph, the same conversion gives {status2} "
                        f"instead of the earlier {status}" + (" with other values" if status2 == status else ""))
    fresh = scn.conversion_graph(origin, target, scatter, ENERGY_MODE_NAME[out.mode])
    if any(v is _poisoned_rule for v in fresh.values()):
        raise Violation("graph-shared", f"conversion_graph for {_describe(case)} hands out rules that an earlier "
                        "caller had put into his copy of the graph")
    return labs, status == "value" and out.status == "value" and len(out.computed) > 0


# --------------------------------------------------------------------------- facets


FACETS = [
    Facet("lattice", check_convert, enumerate=enum_lattice, exhaustive_in=("thorough",),
          quick=(8, 0), thorough=(16, 0), min_nontrivial=0.2,
          doc="origin x target x scatter x 2^11 subsets on a DataArray: value / RuntimeError vs the "
              "documented rule table (exhaustive over configurations in the thorough tier)"),
    Facet("graph", check_graph, enumerate=enum_graph, exhaustive_in=("thorough",),
          quick=(4, 0), thorough=(16, 0), min_nontrivial=0.06,
          doc="deduce_conversion_graph / conversion_graph: stable, documented node inputs, and "
              "transform_coords with it reproduces convert (result or failure)"),
    Facet("dataset", check_convert, enumerate=enum_dataset, exhaustive_in=(),
          quick=(2, 0), thorough=(16, 0), min_nontrivial=0.3,
          doc="stratified sample of the lattice on Datasets with 2 / 1 / 0 items (every item checked)"),
    Facet("unaligned", check_convert, enumerate=enum_unaligned, exhaustive_in=(),
          quick=(2, 0), thorough=(16, 0), min_nontrivial=0.3,
          doc="stratified sample of the lattice with the energy coordinates (or all but the origin) present "
              "but flagged unaligned, as a previous conversion leaves its inputs"),
    Facet("geometry_origin", check_convert, enumerate=enum_geometry_origin, exhaustive_in=("thorough",),
          quick=(2, 0), thorough=(16, 0), min_nontrivial=0.2,
          doc="origin='position' x beamline targets x scatter x 2^10 subsets containing position"),
]


def selftest():
    M.selftest()
    sets = value_sets(1, 4)
    assert sets == value_sets(1, 4)                      # pure function of the seed
    for v in sets:
        assert values_ok(v)
        for groups in routes(v).values():
            assert all(_min_gap(g) >= GAP for g in groups)
    # a consistent geometry is rejected (routes coincide)
    v = dict(sets[0])
    v["L1"] = _len(v["incident_beam"])
    assert not values_ok(v)
    # lattice bookkeeping
    assert len(LATTICE) == 168 and len(LATTICE) * NMASK == 344064
    c = make_case(("tof", "hkl_vec", True), 0b101, sets[0], "DataArray")
    assert list(c["coords"]) == ["tof", "u_matrix", "b_matrix", "sample_rotation", "position",
                                 "sample_position"], list(c["coords"])
    lz = _cases(LATTICE, "thorough", 1, None, "DataArray", 1)
    assert len(lz) == 344064 and len(lz[3::16]) == 344064 // 16
    last = lz[len(lz) - 1]
    assert (last["origin"], last["target"], last["scatter"]) == ("Q", "two_theta", False)
    assert all(n in last["coords"] for n in M.COORDS)
    assert sum(map(on_offer, LATTICE)) == 69
    q = _cases(LATTICE, "quick", 1, 8, "DataArray", 1)
    assert len(q) == 69 * 8 + 99 * 2
    g = enum_geometry_origin("thorough", 1)
    assert len(g) == 12 * 1024 and all("position" in g[i]["coords"] for i in (0, 17, len(g) - 1))
    # array layout helper
    assert to_array("position", sets[0]["position"]).shape == (NS, 1, 3)
    assert to_array("tof", sets[0]["tof"]).shape == (1, NT)
    assert to_array("b_matrix", sets[0]["b_matrix"]).shape == (1, 1, 3, 3)
