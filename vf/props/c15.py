"""C15 — XYE files round-trip coordinates and values exactly, uncertainties to rounding."""

import contextlib
import io
import itertools
import math
import os
import re
import struct
import tempfile
from pathlib import Path

import numpy as np
from hypothesis import strategies as st

from ..core import Facet, HarnessError, Violation

PROPERTY = "C15"
RULE = (
    "Hypothesis draws the number of rows (1 and 2 always present, skewed small; the large_files "
    "facet covers 65..10000 rows by cycling / ulp-walking a drawn palette of up to 24 values per "
    "column), per row a coordinate and a data value from all finite float64 bit patterns "
    "(st.floats incl. subnormals, uniform bit patterns, pure subnormals, and 0..3 ulp neighbours "
    "of 0, min/max subnormal, min normal, max float, powers of two/ten, 2**53) and a variance "
    ">= 0 from the same set (incl. 0, subnormal, huge); 1..5 coordinates with distinct printable-"
    "ASCII names (incl. '', '#', newlines, numeric-looking) with the written one selected "
    "explicitly (coord=), as the only coordinate, or as the dimension-coordinate; data / coordinate "
    "units incl. None; header = generated default, '', or printable-ASCII text with '\\n', '\\t', "
    "'#', leading digits and lines that look like table rows; target = StringIO, str path, "
    "pathlib.Path or an open text file; the load side draws its own dim, coord name and units. "
    "Oracle: the drawn numbers themselves (bit equality for X and Y, ulp distance for E**2), an "
    "independent line parser (Python float()) for the file text. The refusal facet enumerates "
    "every combination of one or two unrepresentable features x rows x coordinate count x "
    "explicit/deduced x 6 kinds of target and requires the pinned exception and an untouched "
    "target. A round-trip case is non-trivial when some written X/Y/variance needs >= 16 "
    "significant decimal digits in its shortest round-trip repr, or is subnormal, or the header "
    "actually written has more than one line; every refusal case is non-trivial by construction "
    "(it carries at least one unrepresentable feature). distinct = distinct descriptor hash."
)
TOLERANCES = {"coordinate_ulp": 0, "value_ulp": 0, "variance_ulp": 4}
ASSUMPTIONS = [
    "variance bound: s = fl(sqrt(v)) has |s - sqrt(v)| <= ulp(s)/2, so s*s is within 1.42 ulp(v) of v "
    "before and within 1.92 ulp after the final rounding, i.e. fl(s*s) is at most 1 ulp from v (exactly "
    "for subnormal v too; 8e6 sampled bit patterns: 0 or 1 ulp, never more); the decimal text with 19 "
    "significant digits is transparent; the tolerance of 4 ulp is DESIGN's reading of the statement's "
    "'a few units in the last place', not a measured margin",
    "header text = printable ASCII plus '\\n', '\\t' and the control characters CR, VT, FF, FS, GS, RS "
    "(which some line splitters treat as line ends); coordinate and dimension names are printable "
    "ASCII plus '\\n' and '\\r' (they enter the generated header)",
    "NaN and +-inf are outside the property's domain ('all finite float64 values')",
    "0-d input is included in the refusal facet (DESIGN; docstring 'must be 1-dimensional') "
    "although the statement only lists 'more than one dimension'",
    "a refusal is recognised by exception type as pinned by the package's tests: VariancesError, "
    "DimensionError, CoordError (bin edges), ValueError (masks, no coordinate, ambiguous)",
]

SIGN = 0x8000000000000000
MAG = 0x7FFFFFFFFFFFFFFF
MAX_FINITE_BITS = 0x7FEFFFFFFFFFFFFF
MIN_NORMAL = 2.2250738585072014e-308
VAR_ULP = 4

PRINTABLE = "".join(chr(c) for c in range(32, 127))
# ASCII control characters that some line splitters treat as line ends: CR (universal newlines),
# VT, FF, FS, GS, RS (str.splitlines); seeded/C15-s6
CONTROLS = "\r\x0b\x0c\x1c\x1d\x1e"
HDR_ALPHABET = PRINTABLE + "\n\t" + CONTROLS
NAME_ALPHABET = PRINTABLE + "\n\r"
UNITS = [None, "one", "counts", "m", "us", "angstrom", "meV", "1/angstrom", "deg", "counts/us"]
TARGETS = ["StringIO", "str", "Path", "file"]

# ------------------------------------------------------------------ float helpers


def bits_of(x: float) -> int:
    return struct.unpack("<Q", struct.pack("<d", x))[0]


def float_of(b: int) -> float:
    return struct.unpack("<d", struct.pack("<Q", b))[0]


def ordered(x: float) -> int:
    """Monotone map float -> int with ordered(-0.0) == ordered(0.0) == 0."""
    b = bits_of(x)
    return -(b & MAG) if b & SIGN else b


def ulp_distance(a: float, b: float) -> int:
    return abs(ordered(a) - ordered(b))


def sig_digits(x: float) -> int:
    """Number of significant decimal digits of the shortest round-trip repr."""
    if x == 0:
        return 0
    m = repr(abs(x)).lower().split("e")[0].replace(".", "").strip("0")
    return len(m)


def is_subnormal(x: float) -> bool:
    return 0.0 < abs(x) < MIN_NORMAL


def shift_ulps(x: float, k: int) -> float:
    """x moved by k representable numbers away from (k>0) / towards (k<0) zero, kept finite."""
    b = bits_of(x)
    mag = min(max((b & MAG) + k, 0), MAX_FINITE_BITS)
    return float_of((b & SIGN) | mag)


def expand(col: dict, n: int) -> np.ndarray:
    """Deterministic column of n float64 from a palette descriptor.

    element i = vals[(off + i*step) mod L], moved away from zero by (i // L) * walk ulps
    (clipped to the largest finite float).
    """
    vals = np.array(col["vals"], dtype="<f8")
    L = len(vals)
    i = np.arange(n, dtype=np.int64)
    idx = (int(col.get("off", 0)) + i * int(col.get("step", 1))) % L
    out = np.ascontiguousarray(vals[idx])
    walk = int(col.get("walk", 0))
    if walk:
        b = out.view(np.uint64)
        mag = (b & np.uint64(MAG)) + ((i // L) * walk).astype(np.uint64)
        mag = np.minimum(mag, np.uint64(MAX_FINITE_BITS))
        out = ((b & np.uint64(SIGN)) | mag).view("<f8")
    return np.ascontiguousarray(out)


def _ordered_array(a: np.ndarray) -> np.ndarray:
    b = np.ascontiguousarray(a, dtype="<f8").view(np.int64)
    return np.where(b < 0, -(b & np.int64(MAG)), b)


# ------------------------------------------------------------------ independent text parser


def parse_xye_text(text: str):
    """Rows of an XYE text, written from the format description (ASCII table, three columns
    X Y E; lines whose first non-blank character is '#' are comments; blank lines are ignored).

    Returns (rows, n_comment_lines); raises ValueError with the offending line otherwise.
    """
    rows = []
    ncomment = 0
    # a text file's lines end at LF, CR or CR LF (universal newlines, the default of every text-mode reader)
    for ln, line in enumerate(re.split("\r\n|\r|\n", text)):
        s = line.strip(" \t")
        if s == "":
            continue
        if s.startswith("#"):
            ncomment += 1
            continue
        tok = s.split()
        if len(tok) != 3:
            raise ValueError(f"line {ln + 1} is neither comment nor a 3-column row: {line[:80]!r}")
        try:
            rows.append(tuple(float(t) for t in tok))
        except ValueError:
            raise ValueError(f"line {ln + 1} is neither comment nor numeric: {line[:80]!r}") from None
    return rows, ncomment


# ------------------------------------------------------------------ strategies

SPECIALS = [
    0.0, 5e-324, 2.225073858507201e-308, MIN_NORMAL, 1.7976931348623157e308,
    1.0, 2.0, 0.5, 0.1, 1.0 / 3.0, 1e22, 1e23, 9007199254740992.0, 1e-5, 1e300, 1e-300,
    4.0, 1e16, 1e15, 123456789.12345679, math.pi, 2.0**-1000, 2.0**1000, 1e-320,
]


def _finite_from_bits(b: int) -> float:
    """Any 64-bit pattern -> finite float (an all-ones exponent has its lowest exponent bit cleared)."""
    if (b & MAG) > MAX_FINITE_BITS:
        b &= ~(1 << 52)
    return float_of(b)


NEAR_SPECIALS = sorted(
    {shift_ulps(sgn * s, k) for s in SPECIALS for k in range(-3, 4) for sgn in (1.0, -1.0)},
    key=lambda f: (abs(f), math.copysign(1.0, f)),
)


def any_float():
    generic = st.floats(allow_nan=False, allow_infinity=False, allow_subnormal=True, width=64)
    bits = st.integers(0, 2**64 - 1).map(_finite_from_bits)
    sub = st.integers(-0x000FFFFFFFFFFFFF, 0x000FFFFFFFFFFFFF).map(
        lambda m: float_of((SIGN if m < 0 else 0) | abs(m)))
    near = st.sampled_from(NEAR_SPECIALS)
    return st.one_of(generic, generic, bits, bits, bits, sub, near)


def nonneg_float():
    return st.one_of(any_float().map(abs), any_float().map(abs), any_float().map(abs), st.just(0.0))


def full_col(n, elem):
    return st.lists(elem, min_size=n, max_size=n).map(
        lambda v: {"vals": v, "step": 1, "off": 0, "walk": 0})


def small_col(elem):
    return st.lists(elem, min_size=1, max_size=3).map(
        lambda v: {"vals": v, "step": 1, "off": 0, "walk": 0})


def palette_col(elem):
    return st.builds(
        lambda v, step, off, walk: {"vals": v, "step": step, "off": off, "walk": walk},
        st.lists(elem, min_size=1, max_size=24), st.integers(1, 7), st.integers(0, 23),
        st.one_of(st.just(0), st.integers(1, 2**20)),
    )


def names():
    fixed = st.sampled_from(["x", "tof", "dspacing", "two_theta", "wavelength", "a b", "#c", "1 2 3",
                             "a\nb", "", "Q [1/A]", "1 2 3\n4 5 6", "#", "\n", "Y", "E", "my-dim"])
    return st.one_of(fixed, fixed, st.text(NAME_ALPHABET, max_size=6))


def numeric_row():
    f = st.one_of(any_float().map(repr), st.integers(-99, 99).map(str),
                  any_float().map(lambda x: "%.18e" % x), st.sampled_from(["nan", "inf", "-inf", "1e5"]))
    return st.tuples(f, f, f, st.sampled_from(["", " ", "\t", "  "])).map(
        lambda t: t[3] + " ".join(t[:3]))


def header_line():
    return st.one_of(
        st.text(PRINTABLE + "\t", min_size=1, max_size=30),
        # a control character followed by something that reads like a table row
        st.tuples(st.text(PRINTABLE, max_size=5), st.sampled_from(list(CONTROLS) + ["\r\n"]), numeric_row()).map("".join),
        numeric_row(),
        numeric_row(),
        st.sampled_from(["1 2 3", "0", "1.0 2.0", "1 2 3 4", "#", "##", "# 1 2 3", "", " ", "3abc",
                         "1e5", "x y e", "#1 2 3", "1 2 3 # c", "1,2,3", "-", "+1 -2 3"]),
        st.text(PRINTABLE, max_size=10).map(lambda s: "#" + s),
        st.tuples(st.integers(0, 999), st.text(PRINTABLE, max_size=10)).map(lambda t: f"{t[0]}{t[1]}"),
    )


def headers(adversarial=False):
    """Header descriptor: generated default, '', one line, several lines, or free text."""
    multi = st.lists(header_line(), min_size=2, max_size=6).map("\n".join)
    free = st.text(HDR_ALPHABET, min_size=1, max_size=80)
    single = header_line()
    text = st.one_of(multi, multi, multi, multi, free, single).map(lambda s: {"kind": "text", "text": s})
    default = st.just({"kind": "default", "text": ""})
    empty = st.just({"kind": "text", "text": ""})
    weights = [7, 2, 1] if adversarial else [5, 3, 2]
    return st.integers(0, 9).flatmap(
        lambda k: text if k < weights[0] else (default if k < weights[0] + weights[1] else empty))


@st.composite
def coord_layout(draw, n, chosen_col, other_col, max_coords=5):
    """1..max_coords coordinates, which one is written and how it is selected."""
    mode = draw(st.sampled_from(["explicit", "explicit", "single", "dimcoord"]))
    if mode == "single":
        nc = 1
    elif mode == "dimcoord":
        nc = draw(st.integers(2, max_coords))
    else:
        nc = draw(st.integers(1, max_coords))
    nms = draw(st.lists(names(), min_size=nc + 1, max_size=nc + 1, unique=True))
    spare, nms = nms[0], nms[1:]
    chosen = draw(st.integers(0, nc - 1))
    if mode == "dimcoord":
        dim = nms[chosen]
    else:
        # dimension-coordinate present or not; when present it need not be the chosen one
        dim = draw(st.sampled_from([spare, *nms]))
    coords = []
    for k, nm in enumerate(nms):
        col = draw(chosen_col if k == chosen else other_col)
        coords.append({"name": nm, "unit": draw(st.sampled_from(UNITS)), "col": col})
    return {"dim": dim, "coords": coords, "chosen": chosen, "explicit": mode == "explicit", "mode": mode}


@st.composite
def load_args(draw, dim):
    return {
        "dim": draw(st.one_of(st.just(dim), names())),
        "coord": draw(st.one_of(st.none(), st.none(), names())),
        "unit": draw(st.sampled_from(UNITS)),
        "coord_unit": draw(st.sampled_from(UNITS)),
    }


def row_counts():
    return st.one_of(st.just(1), st.just(2), st.integers(3, 8), st.integers(3, 8), st.integers(3, 8),
                     st.integers(9, 40))


# File names of path / file targets: with the usual suffix, with another one, with none at all (a
# writer that "helpfully" appends .xye writes a file the caller did not name; seeded/C15-s11), with a
# blank, with non-ASCII characters.
FILE_NAMES = st.sampled_from(["out.xye", "out.xye", "out.dat", "out", "run_0042", "data.v2", "my file.txt",
                              "spektrum_\u00e5.xye", ".hidden", "UPPER.XYE", "out.xye.bak"])


@st.composite
def roundtrip_cases(draw, adversarial=False):
    n = draw(st.integers(1, 3)) if adversarial else draw(row_counts())
    lay = draw(coord_layout(n, full_col(n, any_float()), small_col(any_float()),
                            max_coords=3 if adversarial else 5))
    case = {
        "n": n,
        "unit": draw(st.sampled_from(UNITS)),
        "y": draw(full_col(n, any_float())),
        "var": draw(full_col(n, nonneg_float())),
        "header": draw(headers(adversarial)),
        "target": draw(st.sampled_from(TARGETS)),
        "fname": draw(FILE_NAMES),
        "preexisting": draw(st.booleans()),
        **lay,
    }
    case["load"] = draw(load_args(case["dim"]))
    return case


@st.composite
def large_cases(draw):
    n = draw(st.one_of(st.integers(65, 1000), st.integers(65, 1000), st.integers(1001, 10000),
                       st.sampled_from([4096, 4097, 8192, 9999, 10000])))
    lay = draw(coord_layout(n, palette_col(any_float()), small_col(any_float()), max_coords=3))
    case = {
        "n": n,
        "unit": draw(st.sampled_from(UNITS)),
        "y": draw(palette_col(any_float())),
        "var": draw(palette_col(nonneg_float())),
        "header": draw(headers()),
        "target": draw(st.sampled_from(TARGETS)),
        "fname": draw(FILE_NAMES),
        **lay,
    }
    case["load"] = draw(load_args(case["dim"]))
    return case


# ------------------------------------------------------------------ building, saving, loading


def build(case):
    """(data array, save kwargs, expected X, Y, variance arrays) from the descriptor."""
    import scipp as sc

    n, dim = case["n"], case["dim"]
    y = expand(case["y"], n)
    v = expand(case["var"], n)
    coords = {}
    for c in case["coords"]:
        coords[c["name"]] = sc.array(dims=[dim], values=expand(c["col"], n), unit=c["unit"])
    da = sc.DataArray(sc.array(dims=[dim], values=y, variances=v, unit=case["unit"]), coords=coords)
    chosen = case["coords"][case["chosen"]]
    x = expand(chosen["col"], n)
    # harness sanity: the input object holds exactly the drawn numbers
    if (da.values.tobytes() != y.tobytes() or da.variances.tobytes() != v.tobytes()
            or da.coords[chosen["name"]].values.tobytes() != x.tobytes()
            or np.any(v < 0) or not np.all(np.isfinite(np.r_[x, y, v]))):
        raise HarnessError("descriptor does not build the intended data array")
    kwargs = {}
    if case["explicit"]:
        kwargs["coord"] = chosen["name"]
    if case["header"]["kind"] != "default":
        kwargs["header"] = case["header"]["text"]
    return da, kwargs, x, y, v


def workdir(case):
    """Fresh directory for path / file targets (removed when the case ends); none for buffers."""
    if case["target"].startswith("StringIO"):
        return contextlib.nullcontext(None)
    return tempfile.TemporaryDirectory(prefix="vf-c15-")


def save(case, da, kwargs, tmp):
    """Run save_xye on the case's kind of target; returns (file text, handle for loading)."""
    from scippneutron.io import save_xye

    t = case["target"]
    if t == "StringIO":
        buf = io.StringIO()
        save_xye(buf, da, **kwargs)
        return buf.getvalue(), buf
    path = os.path.join(tmp, case.get("fname", "out.xye"))
    if case.get("preexisting") and t in ("str", "Path"):
        # the path already holds an older, longer table: saving replaces it (a writer that appends
        # for header='' would leave the old rows in front; seeded/C15-s8 after its CR side effect was gone)
        with open(path, "w", encoding="utf-8") as f:
            f.write("# an older file\n" + "".join(f"{i} {i} 1\n" for i in range(50)))
    if t == "str":
        save_xye(path, da, **kwargs)
    elif t == "Path":
        save_xye(Path(path), da, **kwargs)
    elif t == "file":
        with open(path, "w", encoding="utf-8") as f:
            save_xye(f, da, **kwargs)
    else:
        raise HarnessError(f"unknown target {t}")
    if os.listdir(tmp) != [os.path.basename(path)]:
        raise Violation("wrong-file", f"save_xye({t} target {os.path.basename(path)!r}) left the files "
                                      f"{sorted(os.listdir(tmp))} in an otherwise empty directory")
    with open(path, encoding="utf-8", newline="") as f:
        return f.read(), path


def load(case, handle):
    from scippneutron.io import load_xye

    la = case["load"]
    kw = {"dim": la["dim"], "unit": la["unit"], "coord_unit": la["coord_unit"], "coord": la["coord"]}
    t = case["target"]
    if t == "StringIO":
        handle.seek(0)
        return load_xye(handle, **kw)
    if t == "str":
        return load_xye(handle, **kw)
    if t == "Path":
        return load_xye(Path(handle), **kw)
    with open(handle, encoding="utf-8") as f:
        return load_xye(f, **kw)


def written_header_lines(case) -> int:
    if case["header"]["kind"] == "default":
        return len(re.split("\r\n|\r|\n", case["coords"][case["chosen"]]["name"]))
    text = case["header"]["text"]
    return 0 if text == "" else len(re.split("\r\n|\r|\n", text))


def classify(case, x, y, v):
    n = case["n"]
    labs = ["target:" + case["target"], "mode:" + case["mode"], f"ncoords:{len(case['coords'])}"]
    if case.get("preexisting") and case["target"] in ("str", "Path"):
        labs.append("path-held-an-older-file")
    if not case["target"].startswith("StringIO"):
        fn = case.get("fname", "out.xye")
        labs.append("fname:" + (".xye" if fn.endswith(".xye") else "no-suffix" if "." not in fn.lstrip(".") else "other-suffix"))
    if n <= 2:
        labs.append(f"rows:{n}")
    elif n <= 8:
        labs.append("rows:3-8")
    elif n <= 64:
        labs.append("rows:9-64")
    elif n <= 1000:
        labs.append("rows:65-1000")
    else:
        labs.append("rows:1001-10000")
    h = case["header"]
    nl = written_header_lines(case)
    if h["kind"] == "default":
        labs.append("header:default")
    elif h["text"] == "":
        labs.append("header:empty")
    else:
        labs.append("header:multi-line" if nl > 1 else "header:one-line")
        if "#" in h["text"]:
            labs.append("header:has-#")
        for line in h["text"].split("\n"):
            try:
                if len([float(t) for t in line.split()]) == 3:
                    labs.append("header:row-like-line")
                    break
            except ValueError:
                pass
    dimcoord = any(c["name"] == case["dim"] for c in case["coords"])
    labs.append("dim-coord:present" if dimcoord else "dim-coord:absent")
    la = case["load"]
    labs.append("load-coord:default" if la["coord"] is None else "load-coord:named")
    labs.append("load-dim:same" if la["dim"] == case["dim"] else "load-dim:other")
    if case["unit"] is None or la["unit"] is None or la["coord_unit"] is None:
        labs.append("unit:None")
    allv = np.r_[x, y, v]
    a = np.abs(allv)
    sub = bool(np.any((a > 0) & (a < MIN_NORMAL)))
    if sub:
        labs.append("value:subnormal")
    if np.any(a > 1e300):
        labs.append("value:>1e300")
    if np.any((a > 0) & (a < 1e-300)):
        labs.append("value:<1e-300")
    if np.any(v == 0):
        labs.append("variance:0")
    if np.any((allv == 0) & np.signbit(allv)):
        labs.append("value:-0.0")
    # digits: on the distinct written numbers (bounded work for large files)
    digits16 = False
    for arr in (x, y, v):
        u = np.unique(arr)
        for val in u[:256].tolist():
            if sig_digits(val) >= 16:
                digits16 = True
                break
        if digits16:
            break
    if digits16:
        labs.append("value:>=16-digits")
    nontrivial = digits16 or sub or nl > 1
    return labs, nontrivial


def _bit_compare(what, got, exp, kind):
    got = np.ascontiguousarray(got)
    if got.dtype != np.float64:
        raise Violation("dtype", f"{what}: dtype {got.dtype}, expected float64")
    if got.shape != exp.shape:
        raise Violation("rows", f"{what}: {got.shape[0] if got.ndim else 'scalar'} rows, expected {exp.shape[0]}",
                        {"got_shape": list(got.shape), "expected_rows": int(exp.shape[0])})
    gb, eb = got.view(np.uint64), exp.view(np.uint64)
    bad = np.flatnonzero(gb != eb)
    if bad.size:
        i = int(bad[0])
        g, e = float(got[i]), float(exp[i])
        raise Violation(kind, f"{what}[{i}]: got {g!r} ({g.hex() if math.isfinite(g) else g}), "
                              f"written {e!r} ({e.hex()}); {bad.size} of {exp.size} rows differ",
                        {"index": i, "got": repr(g), "expected": e.hex()})


def _variance_compare(what, got, exp):
    got = np.ascontiguousarray(got)
    if got.dtype != np.float64:
        raise Violation("dtype", f"{what}: dtype {got.dtype}, expected float64")
    if got.shape != exp.shape:
        raise Violation("rows", f"{what}: shape {got.shape}, expected {exp.shape}")
    nonfinite = np.flatnonzero(~np.isfinite(got))
    if nonfinite.size:
        i = int(nonfinite[0])
        raise Violation("variance", f"{what}[{i}]: got {float(got[i])!r} for variance {float(exp[i])!r}",
                        {"index": i})
    d = np.abs(_ordered_array(got) - _ordered_array(exp))
    worst = int(d.max()) if d.size else 0
    if worst > VAR_ULP:
        i = int(np.argmax(d))
        g, e = float(got[i]), float(exp[i])
        raise Violation("variance", f"{what}[{i}]: got {g!r}, saved {e!r}: {int(d[i])} ulp apart (> {VAR_ULP})",
                        {"index": i, "ulp": int(d[i]), "got": g.hex(), "expected": e.hex()})
    return worst


# ------------------------------------------------------------------ facet: round trip through load_xye


def check_roundtrip(case):
    import scipp as sc

    da, kwargs, x, y, v = build(case)
    labs, nontrivial = classify(case, x, y, v)
    with workdir(case) as tmp:
        _text, handle = save(case, da, kwargs, tmp)
        got = load(case, handle)
    la = case["load"]
    n = case["n"]
    if got.dims != (la["dim"],):
        raise Violation("dims", f"loaded dims {got.dims}, requested {la['dim']!r}")
    if got.shape != (n,):
        raise Violation("rows", f"{got.shape[0]} rows loaded, {n} saved (header kind {case['header']['kind']})",
                        {"loaded": int(got.shape[0]), "saved": n})
    cname = la["dim"] if la["coord"] is None else la["coord"]
    if list(got.coords.keys()) != [cname]:
        raise Violation("coord-name", f"loaded coords {list(got.coords.keys())!r}, expected [{cname!r}]")
    want_unit = None if la["unit"] is None else sc.Unit(la["unit"])
    if got.unit != want_unit:
        raise Violation("unit", f"loaded unit {got.unit!r}, requested {la['unit']!r}")
    c = got.coords[cname]
    want_cunit = None if la["coord_unit"] is None else sc.Unit(la["coord_unit"])
    if c.unit != want_cunit:
        raise Violation("unit", f"loaded coord unit {c.unit!r}, requested {la['coord_unit']!r}")
    if c.dims != (la["dim"],):
        raise Violation("dims", f"loaded coord dims {c.dims}, requested {la['dim']!r}")
    if c.variances is not None:
        raise Violation("coord-variances", "loaded coordinate has variances")
    if got.variances is None:
        raise Violation("variance", "loaded data has no variances")
    if len(got.masks) != 0:
        raise Violation("masks", f"loaded data has masks {list(got.masks.keys())}")
    _bit_compare(f"coordinate {case['coords'][case['chosen']]['name']!r} ({case['mode']})", c.values, x,
                 "coordinate")
    _bit_compare("data values", got.values, y, "values")
    worst = _variance_compare("variances", got.variances, v)
    labs.append(f"variance-ulp:{worst}")
    return labs, nontrivial


# ------------------------------------------------------------------ facet: file text


def check_text(case):
    da, kwargs, x, y, v = build(case)
    labs, nontrivial = classify(case, x, y, v)
    with workdir(case) as tmp:
        text, _handle = save(case, da, kwargs, tmp)
    n = case["n"]
    try:
        rows, ncomment = parse_xye_text(text)
    except ValueError as e:
        raise Violation("text-table", f"file text is not comments + 3-column table: {e}",
                        {"head": text[:300]}) from None
    if len(rows) != n:
        raise Violation("rows", f"file contains {len(rows)} table rows, {n} saved",
                        {"head": text[:300]})
    fx = np.array([r[0] for r in rows], dtype="<f8")
    fy = np.array([r[1] for r in rows], dtype="<f8")
    fe = np.array([r[2] for r in rows], dtype="<f8")
    _bit_compare("X column", fx, x, "coordinate")
    _bit_compare("Y column", fy, y, "values")
    if np.any(np.signbit(fe) & (fe != 0)) or not np.all(np.isfinite(fe)):
        i = int(np.flatnonzero((np.signbit(fe) & (fe != 0)) | ~np.isfinite(fe))[0])
        raise Violation("variance", f"E column[{i}] = {float(fe[i])!r} is not a finite standard deviation >= 0")
    worst = _variance_compare("E column squared", fe * fe, v)
    labs.append(f"variance-ulp:{worst}")
    labs.append(f"comment-lines:{min(ncomment, 3)}{'+' if ncomment > 3 else ''}")
    return labs, nontrivial


# ------------------------------------------------------------------ facet: refusal

KINDS = ["no_variances", "bin_edges", "masks", "0d", "2d", "no_coord", "ambiguous"]
REFUSAL_TARGETS = ["StringIO", "StringIO-prefilled", "str", "Path", "str-existing", "file"]
_INCOMPATIBLE = [{"0d", "2d"}, {"0d", "bin_edges"}, {"no_coord", "bin_edges"}, {"no_coord", "ambiguous"}]


def refusal_cases(tier, seed):
    combos = [(k,) for k in KINDS] + [
        p for p in itertools.combinations(KINDS, 2) if set(p) not in _INCOMPATIBLE
    ]
    cases = []
    for kinds in combos:
        ks = set(kinds)
        for n in ((1,) if "0d" in ks else (1, 2, 5)):
            for nc in range(0, 6):
                if ("no_coord" in ks) != (nc == 0):
                    continue
                if "ambiguous" in ks and nc < 2:
                    continue
                for explicit in (False, True):
                    if explicit and ("ambiguous" in ks or "no_coord" in ks):
                        continue
                    if "0d" in ks and not explicit and nc > 1 and "ambiguous" not in ks:
                        continue  # no dimension to deduce from: would be ambiguous as well
                    for target in REFUSAL_TARGETS:
                        cases.append({"kinds": list(kinds), "n": n, "ncoords": nc,
                                      "explicit": explicit, "target": target})
    return cases


def build_refusal(case):
    import scipp as sc

    ks = set(case["kinds"])
    n, nc = case["n"], case["ncoords"]
    yv = np.arange(n, dtype=float) * 0.75 + 0.1
    vv = np.arange(n, dtype=float) * 0.5 + 0.3
    if "0d" in ks:
        data = sc.scalar(0.1, variance=None if "no_variances" in ks else 0.3, unit="counts")
        dims, along = [], None
    elif "2d" in ks:
        vals = np.stack([yv, yv + 100.0], axis=1)
        data = sc.array(dims=["x", "y"], values=vals,
                        variances=None if "no_variances" in ks else vals * 0.5 + 0.3, unit="counts")
        dims, along = ["x", "y"], "x"
    else:
        data = sc.array(dims=["x"], values=yv, variances=None if "no_variances" in ks else vv, unit="counts")
        dims, along = ["x"], "x"
    # names: the first coordinate is the dimension-coordinate unless the case is 'ambiguous'
    cnames = [f"c{k}" for k in range(nc)]
    if nc > 1 and "ambiguous" not in ks:
        cnames[0] = "x"
    chosen = (nc - 1) if case["explicit"] else 0
    coords = {}
    for k, nm in enumerate(cnames):
        m = n + 1 if ("bin_edges" in ks and k == chosen) else n
        if along is None:
            coords[nm] = sc.scalar(1.25 * (k + 1), unit="m")
        else:
            coords[nm] = sc.array(dims=[along], values=np.arange(m, dtype=float) * 0.5 + 1.25 * (k + 1), unit="m")
    da = sc.DataArray(data, coords=coords)
    if "masks" in ks:
        if dims:
            da.masks["m"] = sc.array(dims=dims, values=np.zeros(da.shape, dtype=bool))
        else:
            da.masks["m"] = sc.scalar(False)
    kwargs = {"coord": cnames[chosen]} if case["explicit"] else {}
    expected = set()
    table = {"no_variances": sc.VariancesError, "bin_edges": sc.CoordError, "masks": ValueError,
             "0d": sc.DimensionError, "2d": sc.DimensionError, "no_coord": ValueError,
             "ambiguous": ValueError}
    for k in ks:
        expected.add(table[k])
    return da, kwargs, tuple(sorted(expected, key=lambda t: t.__name__))


def check_refusal(case):
    from scippneutron.io import save_xye

    da, kwargs, expected = build_refusal(case)
    labs = ["target:" + case["target"], f"ncoords:{case['ncoords']}", f"rows:{case['n']}",
            "explicit" if case["explicit"] else "deduced", *("kind:" + k for k in case["kinds"])]
    t = case["target"]
    refused = None
    with workdir(case) as tmp:
        path = None if tmp is None else os.path.join(tmp, "out.xye")
        before = None
        buf = None
        fh = None
        if t.startswith("StringIO"):
            buf = io.StringIO()
            if t == "StringIO-prefilled":
                buf.write("# earlier content\n1 2 3\n")
            before = buf.getvalue()
            target = buf
        elif t == "str":
            target = path
        elif t == "Path":
            target = Path(path)
        elif t == "str-existing":
            before = "# earlier content\n1 2 3\n"
            with open(path, "w", encoding="utf-8") as f:
                f.write(before)
            target = path
        elif t == "file":
            fh = open(path, "w", encoding="utf-8")  # noqa: SIM115 - closed in finally
            target = fh
        else:
            raise HarnessError(f"unknown target {t}")
        try:
            try:
                save_xye(target, da, **kwargs)
            except expected as e:
                refused = type(e).__name__
        finally:
            if fh is not None:
                fh.close()
        # what is in the target now?
        if buf is not None:
            after = buf.getvalue()
            touched = after != before
        elif t in ("str", "Path"):
            touched = os.path.exists(path)
            after = open(path, encoding="utf-8").read() if touched else ""  # noqa: SIM115
        elif t == "str-existing":
            after = open(path, encoding="utf-8").read()  # noqa: SIM115
            touched = after != before
        else:
            after = open(path, encoding="utf-8").read()  # noqa: SIM115
            touched = after != ""
    names_ = "/".join(e.__name__ for e in expected)
    if refused is None:
        raise Violation("not-refused", f"save_xye accepted data with {'+'.join(case['kinds'])} "
                                       f"(expected {names_}); target now holds {after[:120]!r}",
                        {"written": after[:300]})
    if touched:
        raise Violation("refused-but-written", f"save_xye raised {refused} for {'+'.join(case['kinds'])} "
                                               f"but changed the target: {after[:120]!r}",
                        {"written": after[:300]})
    labs.append("raised:" + refused)
    return labs, True


# ------------------------------------------------------------------ facets

# ------------------------------------------------------------------ facet: histories on one path / dtype mix


@st.composite
def history_cases(draw):
    nrounds = draw(st.integers(2, 4))
    rounds = []
    for _ in range(nrounds):
        n = draw(st.integers(1, 6))
        rounds.append({
            "x": draw(st.lists(any_float(), min_size=n, max_size=n)),
            "y": draw(st.lists(st.floats(-2.0**99, 2.0**99, allow_nan=False, width=32), min_size=n, max_size=n)),
            "var": draw(st.lists(st.floats(0, 2.0**99, allow_nan=False, width=32), min_size=n, max_size=n)),
            "as": draw(st.sampled_from(["Path", "str"])),
            "load_as": draw(st.sampled_from(["Path", "str"])),
        })
    return {"rounds": rounds, "data_dtype": draw(st.sampled_from(["float64", "float32"])),
            "same_file": draw(st.sampled_from([True, True, False]))}


def check_history(case):
    """Several save/load rounds in one process, by default all on the *same* path (given as str or
    pathlib.Path in any mix): every load must return what was saved last, not something remembered from an
    earlier round.  Data values may be float32 while the coordinate is float64: the coordinate must still
    come back bit for bit."""
    import scipp as sc
    from scippneutron.io.xye import load_xye, save_xye

    labs = ["data:" + case["data_dtype"], f"rounds:{len(case['rounds'])}", "same-file" if case["same_file"] else "fresh-files"]
    with tempfile.TemporaryDirectory(prefix="vf-c15-") as tmp:
        for k, r in enumerate(case["rounds"]):
            name = "data.xye" if case["same_file"] else f"data{k}.xye"
            path = os.path.join(tmp, name)
            x = np.asarray(r["x"], dtype=np.float64)
            y = np.asarray(r["y"], dtype=case["data_dtype"])
            v = np.asarray(r["var"], dtype=case["data_dtype"])
            da = sc.DataArray(sc.array(dims=["tof"], values=y, variances=v, unit="counts", dtype=case["data_dtype"]),
                              coords={"tof": sc.array(dims=["tof"], values=x, unit="us")})
            save_xye(Path(path) if r["as"] == "Path" else path, da)
            got = load_xye(Path(path) if r["load_as"] == "Path" else path, dim="tof", unit="counts", coord_unit="us")
            where = f"round {k + 1} ({r['as']} -> {r['load_as']}, data {case['data_dtype']})"
            _bit_compare(f"{where}: coordinate", got.coords["tof"].values, x, "coordinate")
            _bit_compare(f"{where}: data values", got.values, y.astype(np.float64), "values")
            if case["data_dtype"] == "float64":
                _variance_compare(f"{where}: variances", got.variances, v.astype(np.float64))
            else:
                # single-precision input: a few units in the last place of *float32*
                gv = np.asarray(got.variances, dtype=np.float64)
                tol = VAR_ULP * np.spacing(np.abs(v).astype(np.float32)).astype(np.float64)
                bad = np.flatnonzero(~(np.abs(gv - v.astype(np.float64)) <= tol))
                if gv.shape != v.shape or bad.size:
                    i = int(bad[0]) if bad.size else 0
                    raise Violation("variance", f"{where}: variances[{i}]: got {float(gv[i])!r}, saved {float(v[i])!r} "
                                                f"(more than {VAR_ULP} float32 ulp apart)")
    return labs, True


FACETS = [
    Facet("roundtrip", check_roundtrip, strategy=lambda tier: roundtrip_cases(),
          quick=(4, 250), thorough=(16, 2000), min_nontrivial=0.5,
          doc="save_xye -> load_xye, 1..40 rows, 1..5 coords, all targets: X and Y bit-identical, "
              "variances within 4 ulp, rows, dims, coord name, units as requested"),
    Facet("file_text", check_text, strategy=lambda tier: roundtrip_cases(),
          quick=(2, 250), thorough=(16, 1000), min_nontrivial=0.5,
          doc="the saved text, parsed by an independent reader: comments + exactly n three-column "
              "rows holding X, Y bit-exactly and E with E*E within 4 ulp of the variance"),
    Facet("headers", check_roundtrip, strategy=lambda tier: roundtrip_cases(adversarial=True),
          quick=(2, 300), thorough=(16, 1500), min_nontrivial=0.3,
          doc="1..3 rows with adversarial headers / coordinate names (row-like lines, '#', leading "
              "digits, blank lines, tabs): the table loads unchanged"),
    Facet("large_files", check_roundtrip, strategy=lambda tier: large_cases(),
          quick=(2, 40), thorough=(16, 100), min_nontrivial=0.5,
          doc="65..10000 rows from cycled / ulp-walked palettes; same oracle as roundtrip"),
    Facet("refusal", check_refusal, enumerate=refusal_cases, exhaustive_in=("quick", "thorough"),
          quick=(2, 0), thorough=(16, 0), min_nontrivial=0.5,
          doc="every single and pairwise combination of unrepresentable features is refused with the "
              "pinned exception and the target (buffer, new/existing path, open file) is untouched"),
    Facet("history", check_history, strategy=lambda tier: history_cases(),
          quick=(2, 200), thorough=(16, 1500), min_nontrivial=0.3,
          doc="save/load rounds on one path (str / pathlib.Path mixed), float32 data with float64 coordinate"),
]

MATCHERS = {}


def selftest():
    nxt = math.nextafter
    assert ulp_distance(1.0, nxt(1.0, 2.0)) == 1
    assert ulp_distance(0.0, 5e-324) == 1 and ulp_distance(-0.0, 0.0) == 0
    assert ulp_distance(-5e-324, 5e-324) == 2
    assert ulp_distance(1.0, 1.0 + 4 * 2.0**-52) == 4
    assert sig_digits(0.1) == 1 and sig_digits(1.0 / 3.0) == 16 and sig_digits(5e-324) == 1
    assert sig_digits(1.7976931348623157e308) == 17 and sig_digits(1e22) == 1 and sig_digits(0.0) == 0
    assert sig_digits(123456.5) == 7
    assert is_subnormal(2.225073858507201e-308) and not is_subnormal(MIN_NORMAL) and not is_subnormal(0.0)
    assert shift_ulps(1.0, 1) == nxt(1.0, 2.0) and shift_ulps(-1.0, 1) == nxt(-1.0, -2.0)
    assert shift_ulps(0.0, -3) == 0.0 and shift_ulps(1.7976931348623157e308, 3) == 1.7976931348623157e308
    e = expand({"vals": [1.0, -2.0, 3.0], "step": 2, "off": 1, "walk": 1}, 7)
    # indices 1,0,2,1,0,2,1 ; walk adds i//3 ulps away from zero
    want = [-2.0, 1.0, 3.0, nxt(-2.0, -3.0), nxt(1.0, 2.0), nxt(3.0, 4.0), nxt(nxt(-2.0, -3.0), -3.0)]
    assert e.tolist() == want, (e.tolist(), want)
    assert expand({"vals": [0.5, 0.25], "step": 1, "off": 0, "walk": 0}, 2).tolist() == [0.5, 0.25]
    big = expand({"vals": [1.7976931348623157e308], "step": 1, "off": 0, "walk": 1000}, 3)
    assert np.all(np.isfinite(big))
    assert _ordered_array(np.array([-0.0, 0.0, 5e-324, -5e-324])).tolist() == [0, 0, 1, -1]
    rows, nc = parse_xye_text("# a\n#1 2 3\n1 2 3\n\n1.003 32.1 5\n0.1111 0 2.1e-3\n")
    assert rows == [(1.0, 2.0, 3.0), (1.003, 32.1, 5.0), (0.1111, 0.0, 0.0021)] and nc == 2
    for bad in ("1 2\n", "a b c\n", "1 2 3 4\n", "x [m] Y E\n"):
        try:
            parse_xye_text(bad)
        except ValueError:
            pass
        else:
            raise AssertionError(f"parser accepted {bad!r}")
    # refusal enumeration is what RULE says: all singles present, no incompatible pair
    cs = refusal_cases("quick", 1)
    assert {tuple(c["kinds"]) for c in cs if len(c["kinds"]) == 1} == {(k,) for k in KINDS}
    assert all(set(c["kinds"]) not in _INCOMPATIBLE for c in cs)
