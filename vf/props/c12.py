"""C12 — every SQW file written is a structurally complete, self-consistent container."""

import contextlib

from ..core import Facet, Violation
from ..ref import sqw as ref
from . import sqwcase as sq

PROPERTY = "C12"
RULE = (
    "Hypothesis draws a builder program: a sequence of 0..7 calls from {add_pixel_data, "
    "add_default_instrument, add_default_sample, add_empty_dnd_data, add_empty_detector_params} (any "
    "order, repeats allowed), byte order native/little/big, BytesIO or a real file (generated name) in a "
    "per-case temporary directory, ASCII title of length 0..300, pixel count from {0,1,2,8..12,20, "
    "chunk-1, chunk, chunk+1, 2*chunk+3, 3*chunk, up to 3e3 (quick) / 1e5 (thorough)}, write chunk size "
    "from {default, 1,2,3,8,9,10,16,100,8192,1e5, 1..40}, 1..20 runs in direct or indirect mode, DND "
    "shapes with 4 axes of 1..6 bins. Oracle: an independent decoder of the SQW v4 container "
    "(vf/ref/sqw.py): header, BAT size, unique names, expected block set and types, extents starting at "
    "the end of the BAT, contiguous and ending at EOF, every block decoding in exactly its declared size, "
    "Sqw.open byte order and data_block_names; metamorphic: the same calls in sorted order give the same "
    "BAT order and sizes. Non-trivial: pixel block with n_pixels > min(chunk, 9), or >= 4 block kinds, or "
    "big-endian."
)
ASSUMPTIONS = [
    "container layout as in docs/developer/file-formats/sqw.md; titles/names are ASCII (format: ASCII char arrays)",
    "large pixel sets (> 12 pixels) are expanded from a seed stored in the case by numpy PCG64 (pure function of the case)",
]

TYPE_OF = {("pix", "data_wrap"): "pix_data_block", ("data", "nd_data"): "dnd_data_block"}


def structural_checks(case, w, dec, partial=False):
    hdr = dec["header"]
    n_dims = case["pix"]["n_dims"] if "pix" in case["calls"] else 0
    if hdr != ("horace", 4.0, 1, n_dims):
        raise Violation("header", f"file header {hdr}, expected ('horace', 4.0, 1 (SQW), {n_dims})")
    want_bo = sq.expected_byteorder(case)
    if dec["byteorder"] != want_bo:
        raise Violation("byteorder", f"file is {dec['byteorder']}-endian, requested {case['byteorder']} ({want_bo})")
    if dec["bat_size_declared"] != dec["bat_size_actual"]:
        raise Violation("bat-size", f"BAT.size = {dec['bat_size_declared']}, the table occupies {dec['bat_size_actual']} bytes")
    names = [d["name"] for d in dec["descriptors"]]
    if len(set(names)) != len(names):
        raise Violation("duplicate-block", f"block listed more than once: {names}")
    want = sq.expected_blocks(case)
    if set(names) != set(want) and not partial:
        raise Violation("block-set", f"blocks {sorted(names)}, expected {sorted(want)}")
    pos = dec["bat_end"]
    for d in dec["descriptors"]:
        if d["type"] != TYPE_OF.get(d["name"], "data_block"):
            raise Violation("block-type", f"block {d['name']} declared as {d['type']}")
        if d["locked"] != 0:
            raise Violation("locked", f"block {d['name']} is marked locked")
        if d["position"] != pos:
            raise Violation("extent", f"block {d['name']} starts at {d['position']}, previous extent / BAT ends at {pos}")
        pos += d["size"]
    if pos != dec["file_length"]:
        raise Violation("eof", f"declared extents end at {pos}, file has {dec['file_length']} bytes "
                               f"({dec['file_length'] - pos:+d})")
    for name, e in dec["blocks"].items():
        if "error" in e:
            raise Violation("block-decode", f"block {name} does not decode within its extent: {e['error']}")
        if e["consumed"] != e["descriptor"]["size"]:
            raise Violation("block-size", f"block {name}: declared size {e['descriptor']['size']}, decoding consumed "
                                          f"{e['consumed']} bytes")
    return names


def reopen_checks(case, w, dec, names):
    from scippneutron.io.sqw import Sqw

    target = w.target
    if w.path is None:
        target.seek(0)
    with Sqw.open(target) as f:
        if f.byteorder.value != sq.expected_byteorder(case):
            raise Violation("reopen-byteorder", f"re-opened as {f.byteorder.value}, written {sq.expected_byteorder(case)}")
        if list(f.data_block_names()) != names:
            raise Violation("block-names", f"data_block_names() = {list(f.data_block_names())}, BAT has {names}")
        h = f.file_header
        if (h.prog_name, h.prog_version, h.sqw_type.value, h.n_dims) != dec["header"]:
            raise Violation("reopen-header", f"file_header {h} differs from the bytes {dec['header']}")


def check_container(case):
    labs = sq.labels_of(case)
    with contextlib.ExitStack() as stack:
        tmp = sq.tmpdir_for(case)
        tmpdir = stack.enter_context(tmp) if tmp is not None else None
        try:
            w = sq.write(case, tmpdir=tmpdir)
        except sq.Refused:
            return [*labs, "non-ascii-text:refused"], False
        except sq.RefusedInvalid as r:
            # a refusal must not leave half a container behind ("every file the builder produces ...")
            labs.append("invalid-input:refused")
            if r.left:
                try:
                    dec = ref.decode(r.left)
                    structural_checks(case, None, dec, partial=True)
                except Exception as e:  # noqa: BLE001
                    raise Violation("partial-file", f"the builder refused the input ({r}) but left {len(r.left)} bytes "
                                                    f"in the target that are not a complete container: "
                                                    f"{type(e).__name__}: {str(e)[:200]}") from None
                labs.append("refusal-left-a-complete-file")
            return labs, True
        if case["target"] == "file" and str(w.returned) != w.path:
            raise Violation("returned-path", f"create() returned {w.returned!r} for target {w.path!r}")
        dec = ref.decode(w.bytes)
        names = structural_checks(case, w, dec)
        reopen_checks(case, w, dec, names)
        # metamorphic: same call multiset, canonical order -> same BAT order and sizes
        order = sorted(case["calls"], key=sq.CALLS.index)
        if order != list(case["calls"]):
            case2 = dict(case, target="bytesio")
            try:
                w2 = sq.write(case2, calls=order)
            except sq.Refused:
                raise Violation("order-dependent-refusal", f"calls {case['calls']} accepted but {order} refused") from None
            dec2 = ref.decode(w2.bytes)
            n2 = [d["name"] for d in dec2["descriptors"]]
            if n2 != names:
                raise Violation("order-dependent", f"BAT order {names} for calls {case['calls']} but {n2} for {order}")
            if case["target"] == "bytesio":
                s1 = [d["size"] for d in dec["descriptors"]]
                s2 = [d["size"] for d in dec2["descriptors"]]
                if s1 != s2:
                    raise Violation("order-dependent-size", f"block sizes {s1} vs {s2} for permuted calls")
            labs.append("permuted-calls")
    p = case.get("pix")
    nt = (len(sq.expected_blocks(case)) >= 4 or sq.expected_byteorder(case) == "big"
          or (p is not None and "pix" in case["calls"] and p["n"] > min(9, 8192 if p["chunk"] is None else p["chunk"])))
    return labs, nt


def m_pix_truncated(case, v):
    p = case.get("pix")
    if p is None or "pix" not in case["calls"]:
        return False
    c = 8192 if p["chunk"] is None else p["chunk"]
    return v.kind in ("eof", "block-decode") and p["n"] > c


MATCHERS = {"C12.pixels_truncated": m_pix_truncated}

FACETS = [
    Facet("container", check_container, strategy=lambda tier: sq.sqw_programs(tier),
          quick=(8, 150), thorough=(16, 1500), min_nontrivial=0.3,
          doc="independent decode of every written file: header, BAT, extents tile the file, blocks decode exactly"),
    Facet("container_pixels", check_container,
          strategy=lambda tier: sq.sqw_programs(tier, force_pix=True, row_variants=True),
          quick=(8, 100), thorough=(16, 1000), min_nontrivial=0.3,
          doc="same, every program contains add_pixel_data (chunked pixel writer)"),
]


def selftest():
    ref.selftest()
