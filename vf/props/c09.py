"""C09 — computations never modify their arguments; results do not depend on call history.

Part A (facets ``args_*``): a registry of call recipes, one or more per public callable of the
modules named in the property.  A recipe is a small script that builds its arguments from the case
descriptor and performs every call through ``Watch.call``, which takes a deep snapshot
(``vf.ref.snapshot``) of *all* arguments (and of ``self`` / other watched objects) before the call
and requires structural identity after it - also when the call raises.

Part B (facets ``hist_*``): the case descriptor is a list of operations - factory / lookup calls
interleaved with type-specific mutations of the objects handed out earlier.  After every operation a
*fresh* call must equal the pristine expectation, which comes from a source that the history cannot
have touched: a snapshot of all graph factories taken in a fresh subprocess, the CSV tables re-parsed
by ``vf.ref.csvtab``, the constructor arguments of models / builders.

``registry_meta`` lists the public names of the modules and fails (harness error) when a public
name is neither covered by a recipe nor in the commented ``EXCLUDED`` list.
"""

from __future__ import annotations

import dataclasses
import importlib
import inspect
import io
import json
import math
import os
import subprocess
import sys

import numpy as np
from hypothesis import strategies as st

from ..core import ROOT, Facet, HarnessError, Violation, repo_src
from ..gen import unit_vector
from ..ref import csvtab, snapshot

PROPERTY = "C09"
RULE = (
    "Part A: Hypothesis draws a call recipe (one per public callable or per short chain of "
    "callables of conversion.{tof,beamline}, core, beamline_components, chopper, tof, peaks, "
    "absorption, io.{xye,cif,sqw}, atoms; 22 recipes covering 210 public names; the recipe for the "
    "11 scalar tof kernels calls all of them in every case), the argument values, shapes (scalar, "
    "1-d, broadcast, binned) and for every physical argument a unit and dtype; the unit list of each "
    "quantity starts with the unit the implementation converts to (s, m, angstrom, meV, rad, Hz, "
    "1/angstrom; metres for the gravity kernels) and float64 is the dtype it converts to, so that "
    "about half of the operands make the internal copy=False conversion a no-op. Every call goes "
    "through a watcher: deep snapshot of all arguments and of self before, structural identity "
    "(sc.identical with equal_nan, recursively over dataclasses, dicts, lists, numpy arrays, file "
    "contents) after, also when the call raises. Non-trivial: at least one call completed and at "
    "least one scipp operand was in the aliasing unit and dtype. Part B: a list of up to 8 "
    "operations - factory/lookup calls (graph factories, conversion_graph, Atom/ScatteringParams "
    "lookups, reference_wavelength, model constructors and combinators, CIF/Block builders) and "
    "mutations of objects returned earlier (dict pop/insert/overwrite/clear, in-place arithmetic, "
    ".value=, .unit=, .variance= on Variables, set add/discard, Block.add, name/comment setters). "
    "After every operation a fresh call of every factory/key must equal the pristine expectation "
    "(snapshot from a fresh subprocess for graphs; CSV re-parse for atoms; constructor arguments "
    "for models and builders). Non-trivial: a mutation of a kept result precedes a fresh lookup."
)
ASSUMPTIONS = [
    "the receiver of a *mutating builder method* (SqwBuilder.add_*, Block.add, Chunk/Loop.__setitem__, "
    "property setters) is not an 'argument' in the sense of the property; every other receiver is",
    "file-like objects passed for *writing* are outputs; file-like objects passed for reading must "
    "keep their content (the read position may move)",
    "callers mutate results only through public attributes and methods (no access to _private state)",
    "Block.copy is documented as shallow: chunks/loops are shared between a block and its copy",
    "graph factories in a fresh interpreter are the pristine expectation for the same factories "
    "after a history (the subprocess imports the same tree)",
]

RAISED = object()

# ----------------------------------------------------------------------------- watcher


class Watch:
    """Performs calls and checks that nothing reachable from the arguments changed."""

    def __init__(self, covers):
        self.covers = set(covers)
        self.labels = []
        self.completed = 0
        self.alias = False

    def call(self, name, fn, /, *args, watch=None, allowed=(), out=(), **kwargs):
        """``out``: positions / keyword names of arguments that the call is meant to write to."""
        if name not in self.covers:
            raise HarnessError(f"recipe calls {name!r} which is not in its 'covers' list")
        watched = {
            "args": [a for i, a in enumerate(args) if i not in out],
            "kwargs": {k: v for k, v in kwargs.items() if k not in out},
        }
        if watch:
            watched["watch"] = dict(watch)
        before = snapshot.freeze(watched)
        raised = None
        try:
            result = fn(*args, **kwargs)
        except Exception as e:  # noqa: BLE001 - re-raised below unless specifically allowed
            raised = e
        after = snapshot.freeze(watched)
        d = snapshot.diff(before, after, name)
        if d is not None:
            how = "" if raised is None else f" (the call raised {type(raised).__name__})"
            raise Violation("argument-modified", f"{d}{how}", {"call": name})
        if raised is not None:
            if allowed and isinstance(raised, allowed):
                self.labels.append(f"raised:{name.rsplit('.', 1)[-1]}:{type(raised).__name__}")
                return RAISED
            raise raised
        self.completed += 1
        self.labels.append("c:" + name)
        return result

    # -- operand construction -------------------------------------------------------------

    def var(self, d):
        v = build_var(d)
        if d.get("alias"):
            self.alias = True
        return v


# quantity -> [(unit, value of 1 canonical unit in that unit)]; the first unit is the one the
# implementation converts to (so that ``to(unit=..., copy=False)`` returns the operand itself).
UNITS = {
    "time": [("s", 1.0), ("ms", 1e3), ("us", 1e6)],
    "length": [("m", 1.0), ("mm", 1e3), ("cm", 1e2)],
    "wavelength": [("angstrom", 1.0), ("nm", 0.1), ("m", 1e-10)],
    "wavelength_m": [("m", 1e-10), ("angstrom", 1.0), ("nm", 0.1)],
    "energy": [("meV", 1.0), ("eV", 1e-3), ("ueV", 1e3)],
    "angle": [("rad", 1.0), ("deg", 180.0 / math.pi)],
    "frequency": [("Hz", 1.0), ("kHz", 1e-3)],
    "Q": [("1/angstrom", 1.0), ("1/nm", 10.0)],
    "one": [("dimensionless", 1.0)],
}
RANGE = {  # canonical-unit magnitudes that keep every kernel in its physical domain
    "time": (1e-4, 0.1), "length": (0.5, 100.0), "wavelength": (0.2, 20.0),
    "wavelength_m": (0.2, 20.0), "energy": (0.5, 500.0), "angle": (0.05, 3.0),
    "frequency": (1.0, 100.0), "Q": (0.1, 20.0), "one": (0.1, 10.0),
}
DTYPES = ["float64", "float64", "float64", "float32", "int64"]


@st.composite
def s_var(draw, q, dims=(), sizes=None, dtypes=DTYPES, variances=False, lo=None, hi=None,
          units=None):
    """Descriptor of a scipp variable of quantity ``q``; unit/dtype choice included."""
    table = UNITS[q] if units is None else [u for u in UNITS[q] if u[0] in units]
    k = draw(st.sampled_from([0, 0, *range(len(table))]))
    unit, factor = table[k]
    dtype = draw(st.sampled_from(list(dtypes)))
    n = 1
    for dname in dims:
        n *= sizes[dname]
    a, b = RANGE[q]
    a = a if lo is None else lo
    b = b if hi is None else hi
    base = draw(st.lists(st.floats(a, b, allow_nan=False), min_size=n, max_size=n))
    vals = [x * factor for x in base]
    if dtype == "int64":
        vals = [float(max(1, round(x))) for x in vals]
    d = {"q": q, "dims": list(dims), "shape": [sizes[x] for x in dims], "unit": unit,
         "dtype": dtype, "values": vals, "alias": bool(k == 0 and dtype == "float64")}
    if variances and dtype != "int64":
        d["variances"] = [abs(x) * 0.01 + 1e-3 for x in vals]
    return d


def build_var(d):
    import scipp as sc

    dtype = d["dtype"]
    vals = np.asarray(d["values"], dtype="float64")
    if dtype == "int64":
        vals = vals.astype("int64")
    variances = d.get("variances")
    if not d["dims"]:
        value = vals.reshape(()).item() if dtype != "float32" else np.float32(vals.reshape(())[()])
        return sc.scalar(value, variance=None if variances is None else variances[0],
                         unit=d["unit"], dtype=dtype)
    kw = {}
    if variances is not None:
        kw["variances"] = np.asarray(variances, dtype="float64").reshape(d["shape"])
    return sc.array(dims=d["dims"], values=vals.reshape(d["shape"]), unit=d["unit"],
                    dtype=dtype, **kw)


@st.composite
def s_vec(draw, dims=(), sizes=None, units=("m", "mm"), lo=0.2, hi=20.0, normalized=False):
    """Descriptor of a vector3 variable; directions uniform, lengths in [lo, hi] (first unit)."""
    n = 1
    for dname in dims:
        n *= sizes[dname]
    k = draw(st.sampled_from([0, 0, *range(len(units))]))
    unit = units[k]
    factor = {"m": 1.0, "mm": 1e3, "cm": 1e2, "angstrom": 1e10, "dimensionless": 1.0,
              "1/angstrom": 1.0, "1/nm": 10.0, "m/s^2": 1.0}[unit]
    vals = []
    for _ in range(n):
        u = draw(unit_vector())
        length = 1.0 if normalized else draw(st.floats(lo, hi, allow_nan=False)) * factor
        vals.append([c * length for c in u])
    return {"dims": list(dims), "shape": [sizes[x] for x in dims], "unit": unit, "values": vals,
            "alias": bool(k == 0)}


def build_vec(d):
    import scipp as sc

    if not d["dims"]:
        return sc.vector(d["values"][0], unit=d["unit"])
    arr = np.asarray(d["values"], dtype="float64").reshape([*d["shape"], 3])
    return sc.vectors(dims=d["dims"], values=arr, unit=d["unit"])


def s_sizes():
    return st.fixed_dictionaries({"x": st.integers(1, 4), "spectrum": st.integers(1, 3),
                                  "det": st.integers(1, 4), "wavelength": st.integers(1, 3)})


def s_dims(choices):
    return st.sampled_from([list(c) for c in choices])


def clear_state():
    """Reset global state of the code under test (lru_caches of scippneutron.atoms)."""
    from scippneutron import atoms

    holders = [atoms, *[v for v in vars(atoms).values() if inspect.isclass(v)
                        and v.__module__ == atoms.__name__]]
    for holder in holders:
        for attr in list(vars(holder).values()):
            fn = attr.__func__ if isinstance(attr, staticmethod | classmethod) else attr
            if hasattr(fn, "cache_clear"):
                fn.cache_clear()


@dataclasses.dataclass
class Recipe:
    key: str
    group: str
    covers: tuple
    strategy: object        # () -> hypothesis strategy of the 'a' dict
    run: object             # (a, W) -> None
    doc: str = ""


RECIPES: dict = {}


def recipe(key, group, covers, strategy, doc=""):
    def deco(fn):
        RECIPES[key] = Recipe(key, group, tuple(covers), strategy, fn, doc)
        return fn
    return deco


def check_recipe(case):
    clear_state()
    r = RECIPES[case["recipe"]]
    W = Watch(r.covers)
    r.run(case["a"], W)
    labels = ["recipe:" + r.key, "alias" if W.alias else "no-alias", *sorted(set(W.labels))]
    return labels, bool(W.completed > 0 and W.alias)


def group_strategy(group):
    keys = sorted(k for k, r in RECIPES.items() if r.group == group)

    def one(k):
        return RECIPES[k].strategy().map(lambda a: {"recipe": k, "a": a})

    return st.sampled_from(keys).flatmap(one)

# ============================================================================= Part A: conversion

_KERNELS = {  # name -> [(argument, quantity)]
    "wavelength_from_tof": [("tof", "time"), ("Ltotal", "length")],
    "dspacing_from_tof": [("tof", "time"), ("Ltotal", "length"), ("two_theta", "angle")],
    "energy_from_tof": [("tof", "time"), ("Ltotal", "length")],
    "energy_transfer_direct_from_tof": [("tof", "time"), ("L1", "length"), ("L2", "length"),
                                        ("incident_energy", "energy")],
    "energy_transfer_indirect_from_tof": [("tof", "time"), ("L1", "length"), ("L2", "length"),
                                          ("final_energy", "energy")],
    "energy_from_wavelength": [("wavelength", "wavelength")],
    "wavelength_from_energy": [("energy", "energy")],
    "Q_from_wavelength": [("wavelength", "wavelength"), ("two_theta", "angle")],
    "wavelength_from_Q": [("Q", "Q"), ("two_theta", "angle")],
    "dspacing_from_wavelength": [("wavelength", "wavelength"), ("two_theta", "angle")],
    "dspacing_from_energy": [("energy", "energy"), ("two_theta", "angle")],
}


@st.composite
def _s_binned(draw, q, sizes):
    """Descriptor of a binned (event-mode) operand: per-spectrum event lists."""
    nb = sizes["spectrum"]
    counts = draw(st.lists(st.integers(0, 3), min_size=nb, max_size=nb))
    total = sum(counts)
    ev = draw(s_var(q, ["event"], {"event": total}, dtypes=["float64", "float64", "float32"]))
    return {"binned": True, "counts": counts, "events": ev, "alias": ev["alias"]}


def build_binned(d, coord_name):
    import scipp as sc

    ev = build_var(d["events"])
    n = len(ev)
    table = sc.DataArray(sc.ones(dims=["event"], shape=[n], unit="counts", with_variances=True),
                         coords={coord_name: ev})
    begin = np.concatenate([[0], np.cumsum(d["counts"])[:-1]]).astype("int64")
    return sc.bins(begin=sc.array(dims=["spectrum"], values=begin, unit=None), dim="event",
                   data=table)


_KERNEL_OPERANDS = {"tof": "time", "Ltotal": "length", "L1": "length", "L2": "length",
                    "two_theta": "angle", "incident_energy": "energy", "final_energy": "energy",
                    "wavelength": "wavelength", "energy": "energy", "Q": "Q"}
_DATA_OPERANDS = ("tof", "wavelength", "energy", "Q")


@st.composite
def _s_kernel(draw):
    """One operand per argument name; every kernel is called on them in every case (Hypothesis
    does not sample a choice among 11 kernels evenly enough to rely on it)."""
    sizes = draw(s_sizes())
    ops = {}
    for arg, q in _KERNEL_OPERANDS.items():
        choices = [[], ["x"], ["spectrum"], ["spectrum", "x"]] if arg in _DATA_OPERANDS else \
            [[], [], ["spectrum"], ["x"], ["spectrum", "x"]]
        ops[arg] = draw(s_var(q, draw(s_dims(choices)), sizes))
    return {"ops": ops}


@recipe("tof_kernels", "conversion",
        ["conversion.tof." + k for k in _KERNELS], _s_kernel,
        doc="all scalar kernels of conversion.tof, every operand with its own dims/unit/dtype")
def _r_kernel(a, W):
    from scippneutron.conversion import tof as K

    args = {k: W.var(d) for k, d in a["ops"].items()}
    for fn, spec in _KERNELS.items():
        W.call("conversion.tof." + fn, getattr(K, fn), watch={"all": args},
               **{arg: args[arg] for arg, _ in spec})


@st.composite
def _s_tofvec(draw):
    sizes = draw(s_sizes())
    return {
        "wavelength": draw(s_var("wavelength", draw(s_dims([[], ["x"], ["spectrum", "x"]])), sizes)),
        "incident_beam": draw(s_vec([], sizes, normalized=draw(st.booleans()))),
        "scattered_beam": draw(s_vec(["spectrum"], sizes, normalized=draw(st.booleans()))),
        "rotvec": [draw(st.floats(-3, 3, allow_nan=False)) for _ in range(3)],
        "samplerot": [draw(st.floats(-3, 3, allow_nan=False)) for _ in range(3)],
        "b_diag": [draw(st.floats(0.1, 5, allow_nan=False)) for _ in range(3)],
        "b_unit": draw(st.sampled_from(["1/angstrom", "1/angstrom", "1/nm", "dimensionless"])),
        "mismatch": draw(st.sampled_from([False, False, False, True])),
    }


@recipe("tof_vector_kernels", "conversion",
        ["conversion.tof.Q_elements_from_wavelength", "conversion.tof.Q_vec_from_Q_elements",
         "conversion.tof.ub_matrix_from_u_and_b", "conversion.tof.hkl_vec_from_Q_vec",
         "conversion.tof.hkl_elements_from_hkl_vec"], _s_tofvec,
        doc="Q vector / hkl chain; beams optionally already of unit length")
def _r_tofvec(a, W):
    import scipp as sc
    from scippneutron.conversion import tof as K

    wl = W.var(a["wavelength"])
    ib, sb = build_vec(a["incident_beam"]), build_vec(a["scattered_beam"])
    W.alias = W.alias or a["incident_beam"]["alias"]
    q = W.call("conversion.tof.Q_elements_from_wavelength", K.Q_elements_from_wavelength,
               wavelength=wl, incident_beam=ib, scattered_beam=sb)
    if a["mismatch"]:
        bad = q["Qz"]["spectrum", 0].copy()
        W.call("conversion.tof.Q_vec_from_Q_elements", K.Q_vec_from_Q_elements,
               Qx=q["Qx"], Qy=q["Qy"], Qz=bad, allowed=(sc.DimensionError,))
    qv = W.call("conversion.tof.Q_vec_from_Q_elements", K.Q_vec_from_Q_elements,
                Qx=q["Qx"], Qy=q["Qy"], Qz=q["Qz"])
    u = sc.spatial.rotations_from_rotvecs(sc.vector(a["rotvec"], unit="rad"))
    r = sc.spatial.rotations_from_rotvecs(sc.vector(a["samplerot"], unit="rad"))
    b = sc.spatial.linear_transform(value=np.diag(a["b_diag"]), unit=a["b_unit"])
    ub = W.call("conversion.tof.ub_matrix_from_u_and_b", K.ub_matrix_from_u_and_b,
                u_matrix=u, b_matrix=b)
    hkl = W.call("conversion.tof.hkl_vec_from_Q_vec", K.hkl_vec_from_Q_vec,
                 Q_vec=qv, ub_matrix=ub, sample_rotation=r)
    W.call("conversion.tof.hkl_elements_from_hkl_vec", K.hkl_elements_from_hkl_vec, hkl_vec=hkl)


@st.composite
def _s_tas(draw):
    sizes = draw(s_sizes())
    tof = draw(s_var("time", draw(s_dims([[], ["x"], ["spectrum", "x"]])), sizes,
                     dtypes=["float64", "float64", "float32"]))
    return {"tof": tof, "pulse": draw(st.floats(0, 1e3, allow_nan=False)),
            "L2": draw(s_var("length", draw(s_dims([[], ["spectrum"]])), sizes)),
            "wavelength": draw(s_var("wavelength", draw(s_dims([[], ["x"]])), sizes))}


@recipe("time_at_sample", "conversion", ["conversion.tof.time_at_sample_from_tof"], _s_tas)
def _r_tas(a, W):
    import scipp as sc
    from scippneutron.conversion import tof as K

    tof = W.var(a["tof"])
    pulse = sc.scalar(a["pulse"], unit=tof.unit, dtype=tof.dtype)
    W.call("conversion.tof.time_at_sample_from_tof", K.time_at_sample_from_tof,
           pulse_time=pulse, tof=tof, L2=W.var(a["L2"]), wavelength=W.var(a["wavelength"]))


@st.composite
def _s_straight(draw):
    sizes = draw(s_sizes())
    unit = draw(st.sampled_from(["m", "m", "mm"]))
    norm = draw(st.sampled_from([False, True]))
    return {
        "source": draw(s_vec([], sizes, units=(unit,), normalized=norm)),
        "sample": draw(s_vec(draw(s_dims([[], [], ["spectrum"]])), sizes, units=(unit,), lo=0.0,
                             hi=0.1)),
        "position": draw(s_vec(draw(s_dims([["spectrum"], ["spectrum"], []])), sizes, units=(unit,),
                               normalized=norm)),
        "normalized": norm,
    }


@recipe("beamline_straight", "conversion",
        ["conversion.beamline." + n for n in
         ("straight_incident_beam", "straight_scattered_beam", "L1", "L2", "total_beam_length",
          "total_straight_beam_length_no_scatter", "two_theta")], _s_straight,
        doc="straight-beamline chain; 'normalized' puts source/detector at distance exactly 1 from "
            "a sample near the origin and additionally feeds unit-length beams to two_theta")
def _r_straight(a, W):
    import scipp as sc
    from scippneutron.conversion import beamline as B

    src, smp, pos = build_vec(a["source"]), build_vec(a["sample"]), build_vec(a["position"])
    W.alias = True  # vector3 is float64; beams are in the unit of the result (no conversion)
    p = "conversion.beamline."
    ib = W.call(p + "straight_incident_beam", B.straight_incident_beam, source_position=src,
                sample_position=smp)
    sb = W.call(p + "straight_scattered_beam", B.straight_scattered_beam, position=pos,
                sample_position=smp)
    l1 = W.call(p + "L1", B.L1, incident_beam=ib)
    l2 = W.call(p + "L2", B.L2, scattered_beam=sb)
    W.call(p + "total_beam_length", B.total_beam_length, L1=l1, L2=l2)
    W.call(p + "total_straight_beam_length_no_scatter", B.total_straight_beam_length_no_scatter,
           source_position=src, position=pos)
    W.call(p + "two_theta", B.two_theta, incident_beam=ib, scattered_beam=sb)
    if a["normalized"]:
        # already-unit vectors: dividing by the norm 1.0 must still produce fresh temporaries
        W.call(p + "two_theta", B.two_theta, incident_beam=-src, scattered_beam=pos)
        W.call(p + "two_theta", B.two_theta,
               incident_beam=sc.broadcast(-src, sizes=pos.sizes).copy(), scattered_beam=pos)


@st.composite
def _s_gravity(draw):
    sizes = draw(s_sizes())
    unit = draw(st.sampled_from(["m", "m", "mm"]))
    geometry = draw(st.sampled_from(["orthogonal", "orthogonal", "tilted", "parallel"]))
    tilt = draw(st.floats(0.01, 0.5, allow_nan=False)) if geometry == "tilted" else 0.0
    sb_dims = draw(s_dims([["det"], ["det"], []]))
    wl_dims = draw(s_dims([["wavelength"], ["det"], [], ["det", "wavelength"]]))
    return {
        "unit": unit, "geometry": geometry, "tilt": tilt,
        "L1": draw(st.floats(1.0, 100.0, allow_nan=False)),
        "g": draw(st.sampled_from([9.80665, 9.80665, 1.62, 1.0])),
        "g_axis": draw(st.sampled_from(["-y", "-y", "-x"])),
        "scattered": draw(s_vec(sb_dims, sizes, units=(unit,), normalized=draw(st.booleans()))),
        "wavelength": draw(s_var("wavelength_m", wl_dims, sizes)),
    }


@recipe("beamline_gravity", "conversion",
        ["conversion.beamline.beam_aligned_unit_vectors",
         "conversion.beamline.scattering_angles_with_gravity",
         "conversion.beamline.scattering_angle_in_yz_plane"], _s_gravity,
        doc="gravity kernels on the orthogonal and the generic path; wavelength in metres and "
            "float64 makes the internal conversion of the wavelength a no-op")
def _r_gravity(a, W):
    import scipp as sc
    from scippneutron.conversion import beamline as B

    f = {"m": 1.0, "mm": 1e3}[a["unit"]]
    if a["g_axis"] == "-y":
        g = sc.vector([0.0, -a["g"], 0.0], unit="m/s^2")
        down = np.array([0.0, -1.0, 0.0])
    else:
        g = sc.vector([-a["g"], 0.0, 0.0], unit="m/s^2")
        down = np.array([-1.0, 0.0, 0.0])
    if a["geometry"] == "parallel":
        beam = down * a["L1"] * f
    else:
        beam = (np.array([0.0, 0.0, 1.0]) - a["tilt"] * down) * a["L1"] * f
    ib = sc.vector(beam, unit=a["unit"])
    sb = build_vec(a["scattered"])
    wl = W.var(a["wavelength"])
    p = "conversion.beamline."
    bad = (ValueError,) if a["geometry"] == "parallel" else ()
    W.call(p + "beam_aligned_unit_vectors", B.beam_aligned_unit_vectors, incident_beam=ib,
           gravity=g, allowed=bad)
    W.call(p + "scattering_angles_with_gravity", B.scattering_angles_with_gravity,
           incident_beam=ib, scattered_beam=sb, wavelength=wl, gravity=g, allowed=bad)
    bad_yz = () if a["geometry"] == "orthogonal" else (ValueError,)
    W.call(p + "scattering_angle_in_yz_plane", B.scattering_angle_in_yz_plane,
           incident_beam=ib, scattered_beam=sb, wavelength=wl, gravity=g, allowed=bad_yz)


# ----------------------------------------------------------------------------- core / components

_TARGETS = {  # (origin, scatter) -> reachable targets (plus one unreachable, RuntimeError)
    ("tof", True): ["wavelength", "energy", "dspacing", "Q", "two_theta", "Ltotal", "L1",
                    "energy_transfer"],
    ("tof", False): ["wavelength", "energy", "Ltotal", "dspacing!"],
    ("wavelength", True): ["energy", "dspacing", "Q"],
    ("energy", True): ["wavelength", "dspacing"],
    ("Q", True): ["wavelength"],
}
_ORIGIN_Q = {"tof": "time", "wavelength": "wavelength", "energy": "energy", "Q": "Q"}


@st.composite
def _s_beamline_da(draw, origin="tof", binned_ok=True):
    sizes = draw(s_sizes())
    unit = draw(st.sampled_from(["m", "m", "mm"]))
    layout = draw(st.sampled_from(["dense", "dense", "edges", "binned"] if binned_ok else
                                  ["dense", "edges"]))
    d = {
        "layout": layout, "sizes": sizes, "origin": origin,
        "position": draw(s_vec(["spectrum"], sizes, units=(unit,))),
        "source": draw(s_vec([], sizes, units=(unit,), lo=5.0, hi=50.0)),
        "sample": draw(s_vec([], sizes, units=(unit,), lo=0.0, hi=0.01)),
        "dataset": draw(st.sampled_from([False, False, True])),
    }
    q = _ORIGIN_Q[origin]
    if layout == "binned":
        d["coord"] = draw(_s_binned(q, sizes))
    else:
        n = sizes["x"] + (1 if layout == "edges" else 0)
        c = draw(s_var(q, ["x"], {"x": n}))
        c["values"] = sorted(c["values"])
        d["coord"] = c
    return d


def build_beamline_da(d, W, extra=None):
    import scipp as sc

    origin = d["origin"]
    sizes = d["sizes"]
    coords = {"position": build_vec(d["position"]), "source_position": build_vec(d["source"]),
              "sample_position": build_vec(d["sample"])}
    for k, v in (extra or {}).items():
        coords[k] = v
    if d["layout"] == "binned":
        data = build_binned(d["coord"], origin)
        W.alias = W.alias or d["coord"]["alias"]
        da = sc.DataArray(data, coords=coords)
    else:
        c = W.var(d["coord"]).rename_dims({"x": origin})
        data = sc.ones(dims=["spectrum", origin], shape=[sizes["spectrum"], sizes["x"]],
                       unit="counts", with_variances=True)
        da = sc.DataArray(data, coords={**coords, origin: c})
    if d["dataset"] and d["layout"] != "binned":
        return sc.Dataset({"a": da, "b": da * 2.0})
    return da


@st.composite
def _s_convert(draw):
    origin, scatter = draw(st.sampled_from(sorted(_TARGETS) + [("tof", True)] * 3))
    target = draw(st.sampled_from(_TARGETS[(origin, scatter)]))
    sizes_da = draw(_s_beamline_da(origin))
    a = {"da": sizes_da, "origin": origin, "scatter": scatter, "target": target}
    if target == "energy_transfer":
        a["mode"] = draw(st.sampled_from(["incident_energy", "final_energy", "both", "none"]))
        a["efix"] = draw(s_var("energy", draw(s_dims([[], ["spectrum"]])), sizes_da["sizes"]))
    return a


@recipe("core_convert", "conversion",
        ["core.conversions.convert", "core.conversions.deduce_conversion_graph",
         "core.conversions.conversion_graph"], _s_convert,
        doc="convert / deduce_conversion_graph on dense, bin-edge, binned data arrays and datasets")
def _r_convert(a, W):
    import scipp as sc
    from scippneutron.core import conversions as C

    extra = {}
    allowed = ()
    target = a["target"]
    if target == "energy_transfer":
        e = W.var(a["efix"])
        if a["mode"] in ("incident_energy", "both"):
            extra["incident_energy"] = e
        if a["mode"] in ("final_energy", "both"):
            extra["final_energy"] = e.copy()
        if a["mode"] in ("both", "none"):
            allowed = (RuntimeError,)
    if target.endswith("!"):
        target = target[:-1]
        allowed = (RuntimeError,)
    da = build_beamline_da(a["da"], W, extra)
    p = "core.conversions."
    if not allowed:
        g = W.call(p + "deduce_conversion_graph", C.deduce_conversion_graph, da, a["origin"],
                   target, a["scatter"])
        g.clear()
    elif target == "energy_transfer":
        W.call(p + "deduce_conversion_graph", C.deduce_conversion_graph, da, a["origin"],
               target, a["scatter"], allowed=allowed)
    W.call(p + "convert", C.convert, da, origin=a["origin"], target=target,
           scatter=a["scatter"], allowed=allowed)
    W.call(p + "conversion_graph", C.conversion_graph, a["origin"], target, a["scatter"],
           "elastic")


_COMPONENTS = ["position", "source_position", "sample_position", "incident_beam",
               "scattered_beam", "Ltotal", "L1", "L2", "two_theta"]


@st.composite
def _s_components(draw):
    return {"da": draw(_s_beamline_da("tof")), "scatter": draw(st.booleans())}


@recipe("beamline_components", "conversion",
        ["beamline_components." + n for n in _COMPONENTS], _s_components)
def _r_components(a, W):
    import scippneutron.beamline_components as BC

    da = build_beamline_da(a["da"], W)
    W.alias = True  # positions are used as they are (vector3, float64)
    for n in _COMPONENTS:
        if n == "Ltotal":
            W.call("beamline_components.Ltotal", BC.Ltotal, da, scatter=a["scatter"])
        else:
            W.call("beamline_components." + n, getattr(BC, n), da)

# ============================================================================= Part A: chopper, tof


_FLOATS = ["float64", "float64", "float32"]


@st.composite
def _s_disk(draw):
    n = draw(st.integers(1, 4))
    incs = draw(st.lists(st.floats(2.0, 40.0, allow_nan=False), min_size=2 * n, max_size=2 * n))
    edges, acc = [], draw(st.floats(0.0, 20.0, allow_nan=False))
    for inc in incs:
        acc += inc
        edges.append(acc)
    sizes = {"slit": n}
    a = {
        "edges_deg": edges,
        "edge_unit": draw(st.sampled_from(["rad", "rad", "deg"])),
        "edge_dtype": draw(st.sampled_from(["float64", "float64", "float32"])),
        # integer angles make make_svg fail in sc.sin (scipp limitation): floats only
        "phase": draw(s_var("angle", [], sizes, lo=-3.0, hi=3.0, dtypes=_FLOATS)),
        "beam_position": draw(s_var("angle", [], sizes, lo=-3.0, hi=3.0, dtypes=_FLOATS)),
        "mult": draw(st.sampled_from([1, 2, 3, -1, -2, 0.5, -0.5, 1.37])),
        "pulse": draw(st.sampled_from([14.0, 10.0, 50.0])),
        "freq_unit": draw(st.sampled_from(["Hz", "Hz", "kHz"])),
        "pulse_unit": draw(st.sampled_from(["Hz", "Hz", "kHz"])),
        "slit_height": draw(st.sampled_from(["none", "scalar", "array"])),
        "radius": draw(st.booleans()),
        "axle": draw(s_vec([], sizes, lo=1.0, hi=50.0)),
        "n_rep": draw(st.integers(1, 3)),
        "angle": draw(s_var("angle", draw(s_dims([[], ["slit"]])), sizes, lo=-6.0, hi=6.0)),
        "nexus": draw(st.sampled_from(["edges", "begin_end", "pair_type"])),
        "npulses": draw(st.integers(1, 3)),
    }
    return a


def _disk_fields(a, W):
    import scipp as sc

    f = {"rad": math.pi / 180.0, "deg": 1.0}[a["edge_unit"]]
    e = np.asarray(a["edges_deg"]) * f
    mk = lambda v: sc.array(dims=["slit"], values=v, unit=a["edge_unit"], dtype=a["edge_dtype"])  # noqa: E731
    fu = {"Hz": 1.0, "kHz": 1e-3}
    fields = {
        "axle_position": build_vec(a["axle"]),
        "frequency": sc.scalar(a["mult"] * a["pulse"] * fu[a["freq_unit"]], unit=a["freq_unit"]),
        "beam_position": W.var(a["beam_position"]),
        "phase": W.var(a["phase"]),
        "slit_begin": mk(e[0::2]),
        "slit_end": mk(e[1::2]),
    }
    if a["edge_unit"] == "rad" and a["edge_dtype"] == "float64":
        W.alias = True
    n = len(e) // 2
    if a["slit_height"] == "scalar":
        fields["slit_height"] = sc.scalar(0.1, unit="m")
    elif a["slit_height"] == "array":
        fields["slit_height"] = sc.array(dims=["slit"], values=[0.05 + 0.01 * i for i in range(n)],
                                         unit="m")
    if a["radius"]:
        fields["radius"] = sc.scalar(0.5, unit="m")
    pulse = sc.scalar(a["pulse"] * fu[a["pulse_unit"]], unit=a["pulse_unit"])
    return fields, pulse


_DC = "chopper.disk_chopper.DiskChopper"


@recipe("disk_chopper", "chopper_tof",
        [_DC, *[_DC + "." + m for m in (
            "from_nexus", "n_slits", "angular_frequency", "is_clockwise", "time_offset_open",
            "time_offset_close", "time_offset_angle_at_beam", "open_duration", "make_svg",
            "__eq__")],
         "tof.chopper_cascade.Chopper.from_disk_chopper"], _s_disk,
        doc="DiskChopper construction (direct and from NeXus fields) and every method; slit edges "
            "in rad/float64 make the internal to(unit='rad', copy=False) a no-op")
def _r_disk(a, W):
    import scipp as sc
    from scippneutron.chopper import DiskChopper
    from scippneutron.tof.chopper_cascade import Chopper

    fields, pulse = _disk_fields(a, W)
    ch = W.call(_DC, DiskChopper, **fields)
    me = {"self": ch}
    W.call(_DC + ".n_slits", lambda: ch.n_slits, watch=me)
    W.call(_DC + ".angular_frequency", lambda: ch.angular_frequency, watch=me)
    W.call(_DC + ".is_clockwise", lambda: ch.is_clockwise, watch=me)
    bad = (ValueError,) if a["mult"] == 1.37 else ()
    W.call(_DC + ".time_offset_open", ch.time_offset_open, pulse_frequency=pulse, watch=me,
           allowed=bad)
    W.call(_DC + ".time_offset_close", ch.time_offset_close, pulse_frequency=pulse, watch=me,
           allowed=bad)
    W.call(_DC + ".open_duration", ch.open_duration, pulse_frequency=pulse, watch=me,
           allowed=bad)
    W.call(_DC + ".time_offset_angle_at_beam", ch.time_offset_angle_at_beam,
           angle=W.var(a["angle"]), n_repetitions=a["n_rep"], watch=me)
    # the slit edges themselves as the angle argument (what time_offset_open does internally)
    W.call(_DC + ".time_offset_angle_at_beam", ch.time_offset_angle_at_beam,
           angle=fields["slit_begin"], n_repetitions=a["n_rep"], watch=me)
    W.call(_DC + ".make_svg", ch.make_svg, 200, watch=me)
    W.call("tof.chopper_cascade.Chopper.from_disk_chopper", Chopper.from_disk_chopper, ch, pulse,
           a["npulses"], allowed=bad)
    # NeXus route
    nx = {"position": fields["axle_position"], "rotation_speed": fields["frequency"],
          "beam_position": fields["beam_position"], "phase": fields["phase"]}
    for k in ("slit_height", "radius"):
        if k in fields:
            nx[k] = fields[k]
    if a["nexus"] == "begin_end":
        nx["slit_begin"], nx["slit_end"] = fields["slit_begin"], fields["slit_end"]
    else:
        nx["slit_edges"] = sc.concat([fields["slit_begin"], fields["slit_end"]], "e") \
            .transpose(["slit", "e"]).flatten(to="edge").copy()
        if "slit_height" in nx and nx["slit_height"].ndim == 1:
            # in a file the per-slit fields share the dimension of the begin edges
            nx["slit_height"] = nx["slit_height"].rename_dims({"slit": "edge"})
    bad_nx = ()
    if a["nexus"] == "pair_type":
        nx["type"] = "contra_rotating_pair"
        bad_nx = (NotImplementedError,)
    ch2 = W.call(_DC + ".from_nexus", DiskChopper.from_nexus, nx, allowed=bad_nx)
    if ch2 is not RAISED:
        W.call(_DC + ".__eq__", ch.__eq__, ch2, watch=me)


@st.composite
def _s_plateaus(draw):
    nlev = draw(st.integers(1, 4))
    return {
        "levels": draw(st.lists(st.sampled_from([0.0, 7.0, 14.0, 28.0, 14.1, 42.0, 56.0]),
                                min_size=nlev, max_size=nlev)),
        "counts": draw(st.lists(st.integers(1, 8), min_size=nlev, max_size=nlev)),
        "ramp": draw(st.lists(st.integers(0, 2), min_size=nlev, max_size=nlev)),
        "noise": draw(st.sampled_from([0.0, 1e-4, 1e-2])),
        "seed": draw(st.integers(0, 1000)),
        "dt": draw(st.sampled_from([1.0, 0.5, 2.0])),
        "time_unit": draw(st.sampled_from(["s", "s", "ms"])),
        "atol_unit_same": draw(st.booleans()),
        "atol": draw(st.sampled_from([0.05, 0.5, 1e-3])),
        "min_n": draw(st.integers(1, 4)),
        "min_n_var": draw(st.booleans()),
        "dtype": draw(st.sampled_from(["float64", "float64", "float32"])),
        "variances": draw(st.booleans()),
        "unsorted": draw(st.sampled_from([False, False, False, True])),
        "rtol": draw(st.sampled_from([1e-3, 0.05])),
        "ref": draw(st.sampled_from([14.0, 7.0, 28.0])),
    }


def _quasi_noise(seed, i):
    """Deterministic pseudo-noise in [-1, 1] from the case (no RNG)."""
    return math.sin(12.9898 * (seed + 1) + 78.233 * (i + 1)) * math.cos(3.7 * i + seed)


@recipe("chopper_filtering", "chopper_tof",
        ["chopper.filtering.find_plateaus", "chopper.filtering.collapse_plateaus",
         "chopper.filtering.filter_in_phase"], _s_plateaus)
def _r_plateaus(a, W):
    import scipp as sc
    from scippneutron.chopper import filtering as F

    ys = []
    prev = None
    for lev, cnt, ramp in zip(a["levels"], a["counts"], a["ramp"], strict=True):
        if prev is not None:
            ys.extend(prev + (lev - prev) * (k + 1) / (ramp + 1) for k in range(ramp))
        ys.extend([lev] * cnt)
        prev = lev
    ys = [y + a["noise"] * _quasi_noise(a["seed"], i) for i, y in enumerate(ys)]
    n = len(ys)
    t = [i * a["dt"] for i in range(n)]
    if a["unsorted"] and n > 1:
        t[0], t[-1] = t[-1], t[0]
    kw = {"variances": [0.01] * n} if a["variances"] else {}
    da = sc.DataArray(
        sc.array(dims=["time"], values=ys, unit="Hz", dtype=a["dtype"], **kw),
        coords={"time": sc.array(dims=["time"], values=t, unit=a["time_unit"])},
    )
    atol_unit = f"Hz/{a['time_unit']}" if a["atol_unit_same"] else \
        ("Hz/ms" if a["time_unit"] == "s" else "Hz/s")
    scale = 1.0 if a["atol_unit_same"] else (1e-3 if a["time_unit"] == "s" else 1e3)
    atol = sc.scalar(a["atol"] * scale, unit=atol_unit)
    W.alias = W.alias or (a["atol_unit_same"] and a["dtype"] == "float64")
    min_n = sc.index(a["min_n"]) if a["min_n_var"] else a["min_n"]
    allowed = (RuntimeError, sc.CoordError) if a["unsorted"] and n > 1 else (RuntimeError,)
    pl = W.call("chopper.filtering.find_plateaus", F.find_plateaus, da, atol=atol,
                min_n_points=min_n, allowed=allowed)
    if pl is RAISED:
        return
    col = W.call("chopper.filtering.collapse_plateaus", F.collapse_plateaus, pl, coord="time")
    # sc.round does not accept variances: documented limitation of scipp, not of the property
    novar = (sc.VariancesError,) if a["variances"] else ()
    W.call("chopper.filtering.filter_in_phase", F.filter_in_phase, col,
           reference=sc.scalar(a["ref"], unit="Hz", dtype=a["dtype"]), rtol=sc.scalar(a["rtol"]),
           allowed=novar)
    W.call("chopper.filtering.filter_in_phase", F.filter_in_phase, da,
           reference=sc.scalar(a["ref"], unit="Hz"), rtol=sc.scalar(a["rtol"]), allowed=novar)


@st.composite
def _s_nexus(draw):
    return {"type": draw(st.sampled_from(["none", "single", "contra_rotating_pair"])),
            "speed_log": draw(st.booleans()), "tdc": draw(st.sampled_from(["array", "log", "none"])),
            "phase_log_no_value": draw(st.booleans()), "mapping": draw(st.sampled_from(["dict", "dg"])),
            "n": draw(st.integers(1, 4))}


@recipe("nexus_chopper", "chopper_tof", ["chopper.nexus_chopper.extract_chopper_from_nexus"],
        _s_nexus)
def _r_nexus(a, W):
    import scipp as sc
    from scippneutron.chopper import extract_chopper_from_nexus

    n = a["n"]
    times = sc.datetimes(dims=["time"], values=list(range(2, 2 + n)), unit="s")
    nx = {
        "position": sc.vector([0.0, 0.0, 2.0], unit="m"),
        "rotation_speed": sc.scalar(14.0, unit="Hz"),
        "beam_position": sc.scalar(45.0, unit="deg"),
        "phase": sc.scalar(-20.0, unit="deg"),
        "slit_edges": sc.array(dims=["dim_0"], values=[0.0, 60.0, 124.0, 126.0], unit="deg"),
        "radius": sc.scalar(0.5, unit="m"),
    }
    if a["type"] != "none":
        nx["type"] = {"single": "Chopper type single"}.get(a["type"], a["type"])
    if a["speed_log"]:
        nx["rotation_speed"] = sc.DataGroup({
            "value": sc.array(dims=["time"], values=[14.0 + i for i in range(n)], unit="Hz"),
            "time": times})
    if a["tdc"] == "array":
        nx["top_dead_center"] = sc.datetimes(dims=["time"], values=list(range(n)), unit="ms")
    elif a["tdc"] == "log":
        nx["top_dead_center"] = sc.DataGroup({"time": times})
    if a["phase_log_no_value"]:
        nx["delay"] = sc.DataGroup({"time": times})
    if a["mapping"] == "dg":
        nx = sc.DataGroup(nx)
    W.alias = True  # nothing is converted: fields are passed through
    W.call("chopper.nexus_chopper.extract_chopper_from_nexus", extract_chopper_from_nexus, nx)


_CC = "tof.chopper_cascade."


@st.composite
def _s_cascade(draw):
    sizes = {}
    nch = draw(st.integers(0, 3))
    dist_unit = draw(st.sampled_from(["m", "m", "mm"]))
    choppers = []
    for _ in range(nch):
        nwin = draw(st.integers(1, 3))
        incs = draw(st.lists(st.floats(1e-3, 2e-2, allow_nan=False), min_size=2 * nwin,
                             max_size=2 * nwin))
        acc, edges = 0.0, []
        for inc in incs:
            acc += inc
            edges.append(acc)
        choppers.append({"distance": draw(st.floats(2.0, 40.0, allow_nan=False)),
                         "open": edges[0::2], "close": edges[1::2]})
    t0 = draw(s_var("time", [], sizes, lo=0.0, hi=1e-3, dtypes=["float64"]))
    w0 = draw(s_var("wavelength", [], sizes, lo=0.5, hi=2.0, dtypes=["float64"]))
    return {
        "time": [t0, draw(s_var("time", [], sizes, lo=2e-3, hi=5e-3, dtypes=["float64"],
                                units=[t0["unit"]]))],
        "wavelength": [w0, draw(s_var("wavelength", [], sizes, lo=3.0, hi=12.0,
                                      dtypes=["float64"], units=[w0["unit"]]))],
        "choppers": choppers, "dist_unit": dist_unit,
        "to": draw(st.floats(41.0, 80.0, allow_nan=False)),
        "at": draw(st.floats(0.5, 90.0, allow_nan=False)),
        "time_unit_sub": draw(st.sampled_from(["s", "s", "ms"])),
        "wav_unit_sub": draw(st.sampled_from(["angstrom", "angstrom", "nm"])),
        "multi_distance": draw(st.booleans()),
        "draw": draw(st.sampled_from([False] * 7 + [True])),
    }


@recipe("chopper_cascade", "chopper_tof",
        [_CC + n for n in (
            "wavelength_to_inverse_velocity", "propagate_times", "Subframe",
            "Subframe.propagate_by", "Subframe.start_time", "Subframe.end_time",
            "Subframe.start_wavelength", "Subframe.end_wavelength", "Subframe.is_regular",
            "Subframe.__eq__", "Frame", "Frame.propagate_to", "Frame.chop", "Frame.bounds",
            "Frame.subbounds", "Frame.__eq__", "FrameSequence", "FrameSequence.from_source_pulse",
            "FrameSequence.propagate_to", "FrameSequence.chop", "FrameSequence.__getitem__",
            "FrameSequence.__len__", "FrameSequence.draw", "FrameSequence.acceptance_diagram",
            "Chopper", "Chopper.__getitem__")], _s_cascade,
        doc="frames through a cascade; Subframe built from time in s and wavelength in angstrom "
            "keeps the caller's variables (to(copy=False))")
def _r_cascade(a, W):
    import scipp as sc
    from scippneutron.tof import chopper_cascade as M

    du = a["dist_unit"]
    df = {"m": 1.0, "mm": 1e3}[du]
    tmin, tmax = (W.var(d) for d in a["time"])
    wmin, wmax = (W.var(d) for d in a["wavelength"])
    W.call(_CC + "wavelength_to_inverse_velocity", M.wavelength_to_inverse_velocity, wmax)
    # explicit subframe (rectangle), in the caller's units
    tu, wu = a["time_unit_sub"], a["wav_unit_sub"]
    time = sc.concat([tmin, tmax, tmax, tmin], "vertex").to(unit=tu)
    wav = sc.concat([wmin, wmin, wmax, wmax], "vertex").to(unit=wu)
    W.alias = W.alias or (tu == "s" and wu == "angstrom")
    dist = sc.scalar(a["to"] * df, unit=du)
    if a["multi_distance"]:
        dist = sc.array(dims=["distance"], values=[a["to"] * df, 2 * a["to"] * df], unit=du)
    W.call(_CC + "propagate_times", M.propagate_times, time, wav, dist)
    sub = W.call(_CC + "Subframe", M.Subframe, time, wav)
    me = {"self": sub, "time": time, "wavelength": wav}
    sub2 = W.call(_CC + "Subframe.propagate_by", sub.propagate_by, dist, watch=me)
    for prop in ("start_time", "end_time", "start_wavelength", "end_wavelength"):
        W.call(_CC + "Subframe." + prop, lambda p=prop: getattr(sub2, p),
               watch={"self": sub2, **me})
    W.call(_CC + "Subframe.is_regular", sub.is_regular, watch=me)
    if not a["multi_distance"]:
        W.call(_CC + "Subframe.__eq__", sub.__eq__, sub2, watch=me)
    frame0 = W.call(_CC + "Frame", M.Frame, distance=sc.scalar(0.0, unit=du), subframes=[sub])
    W.call(_CC + "Frame.propagate_to", frame0.propagate_to, dist,
           watch={"self": frame0, **me})
    # frame sequence
    fs = W.call(_CC + "FrameSequence.from_source_pulse", M.FrameSequence.from_source_pulse,
                tmin, tmax, wmin, wmax)
    choppers = []
    for c in a["choppers"]:
        choppers.append(W.call(
            _CC + "Chopper", M.Chopper, distance=sc.scalar(c["distance"] * df, unit=du),
            time_open=sc.array(dims=["cutout"], values=c["open"], unit="s"),
            time_close=sc.array(dims=["cutout"], values=c["close"], unit="s")))
    for c in choppers:
        W.call(_CC + "Chopper.__getitem__", c.__getitem__, 0, watch={"self": c})
    fs2 = W.call(_CC + "FrameSequence.chop", fs.chop, choppers, watch={"self": fs})
    # FrameSequence.__getitem__ compares frame distances with metres: propagate in metres
    fs3 = W.call(_CC + "FrameSequence.propagate_to", fs2.propagate_to,
                 sc.scalar(a["to"], unit="m"), watch={"self": fs2, "fs": fs})
    everything = {"fs": fs, "fs2": fs2, "fs3": fs3, "choppers": choppers}
    W.call(_CC + "FrameSequence.__len__", fs3.__len__, watch=everything)
    W.call(_CC + "FrameSequence.__getitem__", fs3.__getitem__, 0, watch=everything)
    W.call(_CC + "FrameSequence.__getitem__", fs3.__getitem__,
           sc.scalar(a["at"] * df, unit=du), watch=everything)
    W.call(_CC + "FrameSequence", M.FrameSequence, list(fs3.frames), watch=everything)
    last = fs3.frames[-1]
    if last.subframes:
        W.call(_CC + "Frame.bounds", last.bounds, watch=everything)
        W.call(_CC + "Frame.subbounds", last.subbounds, watch=everything)
    if choppers:
        far = max(choppers, key=lambda c: c.distance.value)
        W.call(_CC + "Frame.chop", fs.frames[0].chop, far, watch=everything)
        W.call(_CC + "Frame.chop", last.chop, far, watch=everything, allowed=(ValueError,))
    W.call(_CC + "Frame.__eq__", last.__eq__, fs3.frames[-1], watch=everything)
    if a["draw"]:
        import matplotlib

        matplotlib.use("Agg")
        import matplotlib.pyplot as plt

        W.call(_CC + "FrameSequence.draw", fs3.draw, watch=everything)
        W.call(_CC + "FrameSequence.acceptance_diagram", fs3.acceptance_diagram, watch=everything)
        plt.close("all")


_TD = "tof.diagram.TimeDistanceDiagram"


@st.composite
def _s_diagram(draw):
    sizes = {}

    def ms(d):   # the diagram converts times to milliseconds
        if d is not None:
            d["alias"] = d["unit"] == "ms" and d["dtype"] == "float64"
        return d

    a = {
        "tmax": draw(s_var("time", [], sizes, lo=0.05, hi=0.3, units=["ms", "s"])),
        "rate": draw(st.sampled_from([None, 14.0, 10.0])),
        "pulse": draw(st.one_of(st.none(), s_var("time", [], sizes, lo=1e-3, hi=5e-3,
                                                  units=["ms", "s", "us"]))),
        # add_neutrons concatenates offset-derived and frame-length-derived times: float64 only
        "offset": draw(s_var("time", [], sizes, lo=0.0, hi=3e-3, units=["ms", "s", "us"],
                             dtypes=["float64"])),
        "lmin": draw(s_var("wavelength", [], sizes, lo=0.5, hi=3.0, dtypes=["float64"])),
        "lmax": draw(st.one_of(st.none(), s_var("wavelength", [], sizes, lo=4.0, hi=12.0,
                                                dtypes=["float64"]))),
        "L": draw(s_var("length", [], sizes, lo=5.0, hi=160.0, dtypes=["float64"])),
        "frames": draw(st.integers(1, 3)), "stride": draw(st.integers(1, 2)),
    }
    for k in ("tmax", "pulse", "offset"):
        ms(a[k])
    return a


@recipe("time_distance_diagram", "chopper_tof",
        [_TD, *[_TD + "." + m for m in ("add_detector", "add_neutron", "add_neutrons", "add_sample",
                                        "add_source_pulse", "annotate", "frame_length",
                                        "to_distance", "to_time")]], _s_diagram,
        doc="time-distance diagram on an Agg figure; times in ms and distances in m are the units "
            "the class converts to")
def _r_diagram(a, W):
    import matplotlib

    matplotlib.use("Agg")
    import matplotlib.pyplot as plt
    import scipp as sc
    from scippneutron.tof import TimeDistanceDiagram

    fig, ax = plt.subplots()
    try:
        tmax = W.var(a["tmax"])
        rate = None if a["rate"] is None else sc.scalar(a["rate"], unit="Hz")
        d = W.call(_TD, TimeDistanceDiagram, ax, tmax=tmax, frame_rate=rate, out=(0,))
        me = {"tmax": tmax, "rate": rate}
        W.call(_TD + ".frame_length", lambda: d.frame_length, watch=me)
        off, lmin, L = W.var(a["offset"]), W.var(a["lmin"]), W.var(a["L"])
        lmax = None if a["lmax"] is None else W.var(a["lmax"]).to(unit=lmin.unit)
        W.call(_TD + ".to_time", d.to_time, off, watch=me)
        W.call(_TD + ".to_distance", d.to_distance, L, watch=me)
        if a["pulse"] is None:
            W.call(_TD + ".add_source_pulse", d.add_source_pulse, watch=me)
        else:
            W.call(_TD + ".add_source_pulse", d.add_source_pulse, W.var(a["pulse"]), watch=me)
        W.call(_TD + ".add_neutron", d.add_neutron, time_offset=off, wavelength=lmin, L=L,
               label="n", watch=me)
        W.call(_TD + ".add_neutrons", d.add_neutrons, lambda_min=lmin, lambda_max=lmax,
               Lmin=sc.zeros_like(L), Lmax=L, time_offset=off, stride=a["stride"],
               frames=a["frames"], watch=me)
        W.call(_TD + ".add_detector", d.add_detector, distance=L, watch=me)
        W.call(_TD + ".add_sample", d.add_sample, distance=L * 0.9, watch=me)
        W.call(_TD + ".annotate", d.annotate, "text", xy=(off, L), xytext=(off * 2.0, L),
               watch=me)
    finally:
        plt.close(fig)
# ============================================================================= Part A: peaks

_PM = "peaks.model."
_MODEL_CLASSES = ["GaussianModel", "LorentzianModel", "PseudoVoigtModel", "PolynomialModel"]
_BASE_NAMES = {
    "GaussianModel": ("amplitude", "loc", "scale"),
    "LorentzianModel": ("amplitude", "loc", "scale"),
    "PseudoVoigtModel": ("amplitude", "loc", "scale", "fraction"),
}


def _base_names(cls, degree):
    if cls == "PolynomialModel":
        return tuple(f"a{i}" for i in range(degree + 1))
    return _BASE_NAMES[cls]


def _make_model(cls, prefix, degree):
    from scippneutron.peaks import model as M

    if cls == "PolynomialModel":
        return M.PolynomialModel(degree=degree, prefix=prefix)
    return getattr(M, cls)(prefix=prefix)


def _model_params(cls, degree, prefix, x_unit, y_unit, vals, with_variances=False):
    import scipp as sc

    out = {}
    for i, name in enumerate(_base_names(cls, degree)):
        if name == "amplitude":
            unit = sc.Unit(y_unit) * sc.Unit(x_unit)
        elif name in ("loc", "scale"):
            unit = sc.Unit(x_unit)
        elif name == "fraction":
            unit = sc.Unit("one")
        else:
            unit = sc.Unit(y_unit) / sc.Unit(x_unit) ** int(name[1:])
        v = vals[name] if isinstance(vals, dict) else vals[i]
        out[prefix + name] = sc.scalar(float(v), variance=0.01 if with_variances else None,
                                       unit=unit)
    return out


def _peak_data(a, with_variances):
    """x grid and y = background + gaussian peaks + deterministic ripple, from the descriptor."""
    import scipp as sc

    n = a["n"]
    f = {"angstrom": 1.0, "nm": 0.1, "us": 1000.0}[a["x_unit"]]
    xs = np.linspace(0.0, 10.0, n)
    y = a["bkg"][0] + a["bkg"][1] * xs
    for amp, loc, sig in a["peaks"]:
        y = y + amp / (math.sqrt(2 * math.pi) * sig) * np.exp(-((xs - loc) ** 2) / (2 * sig**2))
    y = y + np.array([a["ripple"] * _quasi_noise(a["seed"], i) for i in range(n)])
    kw = {"variances": np.full(n, max(a["ripple"], 0.01) ** 2)} if with_variances else {}
    x = sc.array(dims=["x"], values=xs * f, unit=a["x_unit"], dtype=a["x_dtype"])
    data = sc.array(dims=["x"], values=y, unit=a["y_unit"], dtype=a["y_dtype"], **kw)
    return sc.DataArray(data, coords={"x": x}), f


@st.composite
def _s_peak_data(draw, npeaks=(1, 2)):
    k = draw(st.integers(*npeaks))
    locs = [draw(st.floats(2.6, 3.4, allow_nan=False)), draw(st.floats(6.6, 7.4, allow_nan=False))][:k]
    return {
        "n": draw(st.integers(48, 72)),
        "x_unit": draw(st.sampled_from(["angstrom", "angstrom", "nm", "us"])),
        "y_unit": draw(st.sampled_from(["counts", "dimensionless"])),
        "x_dtype": draw(st.sampled_from(["float64", "float64", "float32"])),
        "y_dtype": "float64",
        "bkg": [draw(st.floats(1.0, 20.0, allow_nan=False)), draw(st.floats(-0.5, 0.5, allow_nan=False))],
        "peaks": [[draw(st.floats(20.0, 80.0, allow_nan=False)), loc,
                   draw(st.floats(0.25, 0.45, allow_nan=False))] for loc in locs],
        "ripple": draw(st.sampled_from([0.02, 0.05, 0.2])),
        "seed": draw(st.integers(0, 999)),
    }


@st.composite
def _s_model(draw):
    data = draw(_s_peak_data(npeaks=(1, 1)))
    data["y_dtype"] = draw(st.sampled_from(["float64", "float64", "float32"]))
    return {
        "cls": draw(st.sampled_from(_MODEL_CLASSES)),
        "degree": draw(st.integers(1, 3)),
        "prefix": draw(st.sampled_from(["", "p_", "peak_"])),
        "new_prefix": draw(st.sampled_from(["", "q_", "peak_"])),
        "data": data,
        "vals": {"amplitude": draw(st.floats(0.1, 50, allow_nan=False)),
                 "loc": draw(st.floats(1, 9, allow_nan=False)),
                 "scale": draw(st.sampled_from([0.0, 0.3, 1.0, 2.5])),
                 "fraction": draw(st.floats(0, 1, allow_nan=False)),
                 "a0": 1.0, "a1": -0.5, "a2": 0.25, "a3": 0.1},
        "param_var": draw(st.booleans()),
        "bad_params": draw(st.sampled_from([False, False, False, True])),
        "other": draw(st.sampled_from(_MODEL_CLASSES)),
    }


@recipe("model_eval", "peaks",
        [_PM + c for c in [*_MODEL_CLASSES, "CompositeModel"]]
        + [_PM + "Model." + m for m in ("__call__", "guess", "fwhm", "param_names",
                                        "param_bounds", "prefix", "with_prefix", "__add__")]
        + [_PM + "PolynomialModel.degree", _PM + "GaussianModel.fwhm", _PM + "LorentzianModel.fwhm",
           _PM + "PseudoVoigtModel.fwhm"], _s_model,
        doc="every model class: construction, evaluation, guess, fwhm, combinators; x and "
            "parameters share the unit (nothing is converted) in float64/float32")
def _r_model(a, W):
    import scipp as sc
    from scippneutron.peaks import model as M

    cls, deg = a["cls"], a["degree"]
    if cls == "PolynomialModel":
        m = W.call(_PM + cls, M.PolynomialModel, degree=deg, prefix=a["prefix"])
    else:
        m = W.call(_PM + cls, getattr(M, cls), prefix=a["prefix"])
    da, f = _peak_data(a["data"], with_variances=False)
    x = da.coords["x"]
    W.alias = W.alias or (a["data"]["x_dtype"] == "float64" and a["data"]["y_dtype"] == "float64")
    vals = dict(a["vals"])
    vals["loc"] *= f
    vals["scale"] *= f
    params = _model_params(cls, deg, a["prefix"], a["data"]["x_unit"], a["data"]["y_unit"], vals)
    # parameters with variances cannot be broadcast against x (scipp rule); only fwhm takes them
    params_var = _model_params(cls, deg, a["prefix"], a["data"]["x_unit"], a["data"]["y_unit"],
                               vals, a["param_var"])
    me = {"self": m}
    W.call(_PM + "Model.param_names", lambda: m.param_names, watch=me)
    W.call(_PM + "Model.param_bounds", lambda: m.param_bounds, watch=me)
    W.call(_PM + "Model.prefix", lambda: m.prefix, watch=me)
    if cls == "PolynomialModel":
        W.call(_PM + "PolynomialModel.degree", lambda: m.degree, watch=me)
    if a["bad_params"]:
        bad = dict(params)
        bad.pop(next(iter(bad)))
        W.call(_PM + "Model.__call__", m, x, watch=me, allowed=(ValueError,), **bad)
    W.call(_PM + "Model.__call__", m, x, watch=me, **params)
    W.call(_PM + "Model.guess", m.guess, da, watch=me)
    W.call(_PM + "Model.guess", m.guess, da, coord="x", watch=me)
    fw = _PM + ("Model.fwhm" if cls == "PolynomialModel" else cls + ".fwhm")
    W.call(fw, m.fwhm, params_var, watch=me,
           allowed=(NotImplementedError,) if cls == "PolynomialModel" else ())
    m2 = W.call(_PM + "Model.with_prefix", m.with_prefix, a["new_prefix"], watch=me)
    other = _make_model(a["other"], "o_", 1)
    both = {"self": m2, "other": other, "orig": m}
    clash = a["new_prefix"] == "o_"
    comp = W.call(_PM + "Model.__add__", m2.__add__, other, watch=both,
                  allowed=(ValueError,) if clash else ())
    if comp is RAISED:
        return
    W.call(_PM + "CompositeModel", M.CompositeModel, m2, other, prefix="c_", watch=both)
    oparams = _model_params(a["other"], 1, "o_", a["data"]["x_unit"], a["data"]["y_unit"], vals)
    p2 = {a["new_prefix"] + k[len(a["prefix"]):]: v for k, v in params.items()}
    everything = {"comp": comp, **both}
    W.call(_PM + "Model.__call__", comp, x, watch=everything, **p2, **oparams)
    W.call(_PM + "Model.guess", comp.guess, da, watch=everything)
    W.call(_PM + "Model.param_bounds", lambda: comp.param_bounds, watch=everything)
    W.call(_PM + "Model.fwhm", comp.fwhm, {**p2, **oparams}, watch=everything,
           allowed=(NotImplementedError,))
    W.call(_PM + "Model.with_prefix", comp.with_prefix, "z_", watch=everything)


_PK = "peaks."


@st.composite
def _s_fit_result(draw):
    data = draw(_s_peak_data())
    k = len(data["peaks"])
    return {
        "data": data,
        "peak_cls": draw(st.sampled_from(["GaussianModel", "LorentzianModel", "PseudoVoigtModel"])),
        "bkg_degree": draw(st.integers(1, 2)),
        "success": draw(st.lists(st.booleans(), min_size=k, max_size=k)),
        "half_width": draw(st.floats(0.8, 2.0, allow_nan=False)),
        "popt_var": draw(st.booleans()),
        "data_variances": draw(st.sampled_from([False, False, False, True])),
        "container": draw(st.sampled_from(["list", "tuple"])),
        "failure_kind": draw(st.sampled_from(["failure", "narrow", "failure_msg"])),
    }


@recipe("fit_result_remove_peaks", "peaks",
        [_PK + "remove_peaks", _PK + "FitResult"]
        + [_PK + "FitResult." + m for m in ("for_failure", "for_too_narrow_window", "success",
                                            "better_than", "eval_model", "eval_peak", "report")],
        _s_fit_result,
        doc="FitResult objects built from known parameters; remove_peaks subtracts inside windows "
            "that are views of the input")
def _r_fit_result(a, W):
    import scipp as sc
    from scippneutron import peaks as P

    da, f = _peak_data(a["data"], with_variances=a["data_variances"])
    d = a["data"]
    W.alias = W.alias or d["x_dtype"] == "float64"
    results = []
    for (amp, loc, sig), ok in zip(d["peaks"], a["success"], strict=True):
        peak = _make_model(a["peak_cls"], "peak_", 1)
        bkg = _make_model("PolynomialModel", "bkg_", a["bkg_degree"])
        window = sc.array(dims=["range"], values=[(loc - a["half_width"]) * f,
                                                  (loc + a["half_width"]) * f],
                          unit=d["x_unit"], dtype=d["x_dtype"])
        if ok:
            vals = {"amplitude": amp * f, "loc": loc * f, "scale": sig * f, "fraction": 0.3,
                    "a0": d["bkg"][0], "a1": d["bkg"][1] / f, "a2": 0.0}
            popt = {**_model_params("PolynomialModel", a["bkg_degree"], "bkg_", d["x_unit"],
                                    d["y_unit"], vals, a["popt_var"]),
                    **_model_params(a["peak_cls"], 1, "peak_", d["x_unit"], d["y_unit"], vals,
                                    a["popt_var"])}
            r = W.call(_PK + "FitResult", P.FitResult, aic=sc.scalar(-10.0),
                       assessment=P.FitAssessment.success, background=bkg, message="success",
                       p_value=sc.scalar(0.5), peak=peak, popt=popt, red_chisq=sc.scalar(1.0),
                       window=window)
        elif a["failure_kind"] == "narrow":
            r = W.call(_PK + "FitResult.for_too_narrow_window", P.FitResult.for_too_narrow_window,
                       peak=peak, background=bkg, window=window)
        else:
            kw = {"message": "no luck"} if a["failure_kind"] == "failure_msg" else \
                {"assessment": P.FitAssessment.failed}
            r = W.call(_PK + "FitResult.for_failure", P.FitResult.for_failure, peak=peak,
                       background=bkg, window=window, **kw)
        results.append(r)
    x = da.coords["x"]
    for r in results:
        me = {"self": r}
        W.call(_PK + "FitResult.success", lambda r=r: r.success, watch=me)
        W.call(_PK + "FitResult.report", r.report, watch=me)
        W.call(_PK + "FitResult.better_than", r.better_than, results[0],
               watch={"self": r, "all": results})
        if r.success:
            W.call(_PK + "FitResult.eval_model", r.eval_model, x, watch=me)
            W.call(_PK + "FitResult.eval_peak", r.eval_peak, x, watch=me)
    seq = results if a["container"] == "list" else tuple(results)
    W.call(_PK + "remove_peaks", P.remove_peaks, da, seq,
           allowed=(sc.VariancesError,) if a["data_variances"] else ())


@st.composite
def _s_fit_peaks(draw):
    data = draw(_s_peak_data())
    # fit_peaks builds float64 windows and cannot slice a float32 coordinate with them
    data["x_dtype"] = "float64"
    k = len(data["peaks"])
    spec = st.sampled_from(["str", "model", "list_str", "list_mixed"])
    return {
        "data": data,
        "est_offset": [draw(st.floats(-0.15, 0.15, allow_nan=False)) for _ in range(k)],
        "windows": draw(st.sampled_from(["scalar", "scalar", "explicit"])),
        "width": draw(st.floats(2.6, 3.4, allow_nan=False)),
        "bkg_spec": draw(spec), "peak_spec": draw(spec),
        "peak_cls": draw(st.sampled_from(["GaussianModel", "LorentzianModel", "PseudoVoigtModel"])),
        "params": draw(st.sampled_from(["none", "default", "custom"])),
        "unsorted": draw(st.sampled_from([False] * 5 + [True])),
    }


@recipe("fit_peaks", "peaks", [_PK + "fit_peaks", _PK + "remove_peaks"], _s_fit_peaks,
        doc="fit_peaks with every way of specifying models, windows and options; then removal of "
            "the fitted peaks from the same data")
def _r_fit_peaks(a, W):
    import scipp as sc
    from scippneutron import peaks as P

    d = a["data"]
    da, f = _peak_data(d, with_variances=True)
    W.alias = W.alias or d["x_dtype"] == "float64"
    locs = [p[1] for p in d["peaks"]]
    est = sc.array(dims=["x"], values=[(loc + o) * f for loc, o in zip(locs, a["est_offset"], strict=True)],
                   unit=d["x_unit"], dtype=d["x_dtype"])
    if a["windows"] == "scalar":
        windows = sc.scalar(a["width"] * f, unit=d["x_unit"], dtype=d["x_dtype"])
    else:
        windows = sc.array(dims=["x", "range"], unit=d["x_unit"], dtype=d["x_dtype"],
                           values=[[(loc - a["width"] / 2) * f, (loc + a["width"] / 2) * f]
                                   for loc in locs])

    def spec(kind, names, models):
        return {"str": names[0], "model": models[0], "list_str": list(names),
                "list_mixed": [models[0], names[-1]]}[kind]

    bkg = spec(a["bkg_spec"], ["linear", "quadratic"],
               [_make_model("PolynomialModel", "", 1)])
    pk_name = {"GaussianModel": "gaussian", "LorentzianModel": "lorentzian",
               "PseudoVoigtModel": "pseudo_voigt"}[a["peak_cls"]]
    peak = spec(a["peak_spec"], [pk_name, "gaussian"], [_make_model(a["peak_cls"], "mine_", 1)])
    kw = {}
    if a["params"] == "default":
        kw = {"fit_parameters": P.FitParameters(), "fit_requirements": P.FitRequirements()}
    elif a["params"] == "custom":
        kw = {"fit_parameters": P.FitParameters(guess_background_fraction=0.4,
                                                neighbor_separation_factor=0.3),
              "fit_requirements": P.FitRequirements(min_p_value=0.0, max_peak_width_factor=2.0)}
    allowed = ()
    if a["unsorted"]:
        da = da.copy()
        da.coords["x"] = sc.array(dims=["x"], values=da.coords["x"].values[::-1].copy(),
                                  unit=d["x_unit"], dtype=d["x_dtype"])
        allowed = (sc.CoordError,)
    res = W.call(_PK + "fit_peaks", P.fit_peaks, da, peak_estimates=est, windows=windows,
                 background=bkg, peak=peak, allowed=allowed, **kw)
    if res is RAISED:
        return
    W.labels.extend("fit:" + r.assessment.name for r in res)
    W.call(_PK + "remove_peaks", P.remove_peaks, sc.values(da), res, watch={"fitted": da})

# ============================================================================= Part A: absorption, atoms

_AB = "absorption."


@st.composite
def _s_cylinder(draw):
    sizes = draw(s_sizes())
    unit = draw(st.sampled_from(["m", "m", "mm", "angstrom"]))
    f = {"m": 1.0, "mm": 1e3, "angstrom": 1e10}[unit]
    return {
        "unit": unit,
        "axis": draw(unit_vector()),
        "base": [draw(st.floats(-0.01, 0.01, allow_nan=False)) * f for _ in range(3)],
        "radius": draw(st.floats(1e-3, 2e-2, allow_nan=False)) * f,
        "height": draw(st.floats(1e-3, 5e-2, allow_nan=False)) * f,
        # radius / height / base point must share one unit (center and beam_intersection add them)
        "size_unit": unit,
        "start": draw(s_vec(draw(s_dims([[], ["x"]])), sizes, units=(unit,), lo=0.0, hi=0.02)),
        "direction": draw(s_vec(draw(s_dims([[], ["det"]])), sizes, units=("dimensionless",),
                                normalized=True)),
        "kinds": draw(st.lists(st.sampled_from(["cheap", "cheap", "medium", "expensive", "bad"]),
                               min_size=1, max_size=2)),
        "isotope": draw(st.sampled_from(["V", "H", "157Gd", "3He", "Al", "Cd", "Tc", "10B", "Ac"])),
        "density": draw(st.floats(0.01, 0.1, allow_nan=False)),
        "density_unit": draw(st.sampled_from(["1/angstrom^3", "1/angstrom^3", "1/nm^3"])),
        "wavelength": draw(s_var("wavelength", draw(s_dims([["wavelength"], []])), sizes)),
        "beam": draw(unit_vector()),
        "detector": draw(s_vec(["det"], sizes, units=(unit, "m"), lo=1.0, hi=5.0)),
        "map_kind": draw(st.sampled_from(["cheap", "cheap", "medium"])),
    }


def _build_cylinder(a, W):
    import scipp as sc
    from scippneutron.absorption import Cylinder

    su = a["size_unit"]
    conv = 1.0 if su == a["unit"] else 1.0 / {"m": 1.0, "mm": 1e3, "angstrom": 1e10}[a["unit"]]
    fields = {
        "symmetry_line": sc.vector(a["axis"]),
        "center_of_base": sc.vector(a["base"], unit=a["unit"]),
        "radius": sc.scalar(a["radius"] * conv, unit=su),
        "height": sc.scalar(a["height"] * conv, unit=su),
    }
    W.alias = W.alias or su == a["unit"]
    return W.call(_AB + "cylinder.Cylinder", Cylinder, **fields)


@recipe("cylinder", "absorption_atoms",
        [_AB + "cylinder.Cylinder"] + [_AB + "cylinder.Cylinder." + m for m in
                                       ("beam_intersection", "center", "volume", "quadrature")],
        _s_cylinder,
        doc="cylinder geometry; radius/height in the unit of the base point make the unit "
            "conversions of the quadrature no-ops")
def _r_cylinder(a, W):
    cyl = _build_cylinder(a, W)
    me = {"self": cyl}
    W.call(_AB + "cylinder.Cylinder.center", lambda: cyl.center, watch=me)
    W.call(_AB + "cylinder.Cylinder.volume", lambda: cyl.volume, watch=me)
    W.call(_AB + "cylinder.Cylinder.beam_intersection", cyl.beam_intersection,
           build_vec(a["start"]), build_vec(a["direction"]), watch=me)
    import scipp as sc

    first = {}
    for kind in a["kinds"]:
        r = W.call(_AB + "cylinder.Cylinder.quadrature", cyl.quadrature, kind, watch=me,
                   allowed=(NotImplementedError,) if kind == "bad" else ())
        if r is not RAISED:
            first.setdefault(kind, r)
    # results do not depend on the call history: the same request again gives the same rule, bit for bit
    # (seeded/C09-s7: bundled tables renormalised in place on every use)
    for kind, (p0, w0) in first.items():
        p1, w1 = cyl.quadrature(kind)
        if not (sc.identical(p0, p1) and sc.identical(w0, w1)):
            dw = float(abs(w1.values - w0.values).max() / abs(w0.values).max())
            raise Violation("history-dependent",
                            f"Cylinder.quadrature({kind!r}) called again on the same cylinder returns a different "
                            f"rule (weights differ by up to {dw:.3e} relative): the result depends on earlier calls")


@recipe("transmission", "absorption_atoms",
        [_AB + "material.Material", _AB + "material.Material.attenuation_coefficient",
         _AB + "base.compute_transmission_map", _AB + "cylinder.Cylinder",
         "atoms.ScatteringParams.for_isotope",
         "atoms.ScatteringParams.__eq__", "atoms.reference_wavelength"],
        _s_cylinder,
        doc="Material holds the (cached) ScatteringParams object; neither the material nor the "
            "cached table entry may change")
def _r_transmission(a, W):
    import scipp as sc
    from scippneutron import atoms
    from scippneutron.absorption import Material, compute_transmission_map

    sp = W.call("atoms.ScatteringParams.for_isotope", atoms.ScatteringParams.for_isotope,
                a["isotope"])
    sp_again = atoms.ScatteringParams.for_isotope(a["isotope"])
    W.call("atoms.ScatteringParams.__eq__", sp.__eq__, sp_again, watch={"self": sp})
    W.call("atoms.reference_wavelength", atoms.reference_wavelength)
    # Table entries with variances cannot be multiplied with arrays (scipp refuses to broadcast
    # variances), so Material only works with variance-free parameters: use the cached object
    # itself when it has none, else a copy without variances.
    tot, ab = sp.total_scattering_cross_section, sp.absorption_cross_section
    if tot is None or ab is None:
        tot, ab = sc.scalar(5.1, unit="barn"), sc.scalar(5.08, unit="mm**2") * 1e-22
    if tot.variance is not None or ab.variance is not None:
        sp_used = atoms.ScatteringParams(isotope=sp.isotope,
                                         total_scattering_cross_section=sc.values(tot),
                                         absorption_cross_section=sc.values(ab))
    elif tot is sp.total_scattering_cross_section:
        sp_used = sp
        W.labels.append("material:cached-params")
    else:
        sp_used = atoms.ScatteringParams(isotope=sp.isotope, total_scattering_cross_section=tot,
                                         absorption_cross_section=ab)
    f = {"1/angstrom^3": 1.0, "1/nm^3": 1e3}[a["density_unit"]]
    mat = W.call(_AB + "material.Material", Material, scattering_params=sp_used,
                 effective_sample_number_density=sc.scalar(a["density"] * f,
                                                           unit=a["density_unit"]))
    wl = W.var(a["wavelength"])
    me = {"self": mat, "cached": sp}
    wl1 = wl if wl.ndim == 1 else sc.concat([wl], "wavelength")
    me["wavelengths"] = wl1
    # table values with variances cannot be broadcast: one wavelength at a time (views of wl1)
    for i in range(len(wl1)):
        W.call(_AB + "material.Material.attenuation_coefficient", mat.attenuation_coefficient,
               wl1["wavelength", i], watch=me)
    cyl = _build_cylinder(a, W)
    W.call(_AB + "base.compute_transmission_map", compute_transmission_map, cyl, mat,
           beam_direction=sc.vector(a["beam"]), wavelength=wl1,
           detector_position=build_vec(a["detector"]), quadrature_kind=a["map_kind"], watch=me)


@st.composite
def _s_atoms(draw):
    t = csvtab.tables()
    return {"element": draw(st.sampled_from(list(t.weights_order))),
            "isotope": draw(st.sampled_from(list(t.masses_order))),
            "scatter": draw(st.sampled_from(list(t.scattering_order)))}


@recipe("atoms_lookup", "absorption_atoms",
        ["atoms.Atom", "atoms.Atom.for_isotope", "atoms.Atom.atomic_weight",
         "atoms.Atom.atomic_mass", "atoms.Atom.__eq__", "atoms.ScatteringParams",
         "atoms.ScatteringParams.for_isotope", "atoms.ScatteringParams.__eq__"], _s_atoms,
        doc="table lookups and comparisons; the (cached) result objects are watched while their "
            "properties and __eq__ are used")
def _r_atoms(a, W):
    import scipp as sc
    from scippneutron import atoms

    W.alias = True  # nothing is converted; the watched objects are the cached ones
    el = W.call("atoms.Atom.for_isotope", atoms.Atom.for_isotope, a["element"])
    iso = W.call("atoms.Atom.for_isotope", atoms.Atom.for_isotope, a["isotope"])
    both = {"element": el, "isotope": iso}
    for obj in (el, iso):
        W.call("atoms.Atom.atomic_weight", lambda o=obj: o.atomic_weight, watch=both,
               allowed=(ValueError,))
        W.call("atoms.Atom.atomic_mass", lambda o=obj: o.atomic_mass, watch=both,
               allowed=(ValueError,))
    W.call("atoms.Atom.__eq__", el.__eq__, iso, watch=both)
    W.call("atoms.Atom.__eq__", iso.__eq__, atoms.Atom.for_isotope(a["isotope"]), watch=both)
    manual = W.call("atoms.Atom", atoms.Atom, isotope="X", z=1,
                    _atomic_weight=sc.scalar(1.0, unit="Da"), _atomic_mass=None)
    W.call("atoms.Atom.__eq__", el.__eq__, manual, watch=both)
    sp = W.call("atoms.ScatteringParams.for_isotope", atoms.ScatteringParams.for_isotope,
                a["scatter"])
    # (__eq__ raises TypeError when a field is None on one side only: compare like with like)
    fields = {f.name: getattr(sp, f.name) for f in dataclasses.fields(sp)}
    sp2 = W.call("atoms.ScatteringParams", atoms.ScatteringParams, **fields)
    W.call("atoms.ScatteringParams.__eq__", sp.__eq__, sp2, watch={"self": sp})
    sp3 = atoms.ScatteringParams(isotope="other", absorption_cross_section=sc.scalar(1.0, unit="barn"))
    W.call("atoms.ScatteringParams.__eq__", sp.__eq__, sp3, watch={"self": sp})

# ============================================================================= Part A: io

_XY = "io.xye."


@st.composite
def _s_xye(draw):
    sizes = {"x": draw(st.integers(1, 6))}
    return {
        "coord": draw(s_var("wavelength", ["x"], sizes)),
        "data": draw(s_var("one", ["x"], sizes, variances=True, dtypes=["float64", "float32"])),
        "dim": draw(st.sampled_from(["x", "tof"])),
        "coords": draw(st.sampled_from(["one", "two_dimcoord", "two_nodim", "edges"])),
        "coord_arg": draw(st.booleans()),
        "header": draw(st.sampled_from(["generate", "", "my header\nsecond line"])),
        "defect": draw(st.sampled_from(["none", "none", "none", "novar", "mask", "2d"])),
    }


@recipe("xye", "io", [_XY + "save_xye", _XY + "load_xye"], _s_xye,
        doc="XYE writer/reader on StringIO; the data array (and the file content when reading) "
            "must stay as it was")
def _r_xye(a, W):
    import scipp as sc
    from scippneutron.io import xye

    dim = a["dim"]
    coord = W.var(a["coord"]).rename_dims({"x": dim})
    data = build_var(a["data"]).rename_dims({"x": dim})
    allowed = ()
    coords = {dim: coord}
    coord_name = dim
    if a["coords"] == "two_dimcoord":
        coords["other"] = coord * 2.0
    elif a["coords"] == "two_nodim":
        coords = {"a": coord, "b": coord * 2.0}
        coord_name = "a"
        if not a["coord_arg"]:
            allowed = (ValueError,)
    elif a["coords"] == "edges":
        coords = {dim: sc.concat([coord, coord[dim, -1:] + coord[dim, -1:]], dim)}
        allowed = (sc.CoordError,)
    da = sc.DataArray(data, coords=coords)
    if a["defect"] == "novar":
        da = sc.values(da)
        allowed = (sc.VariancesError,)
    elif a["defect"] == "mask":
        da.masks["m"] = da.data > da.data
        allowed = (*allowed, ValueError)
    elif a["defect"] == "2d":
        da = sc.concat([da, da], "y")
        allowed = (*allowed, sc.DimensionError, sc.CoordError)
    kw = {}
    if a["coord_arg"]:
        kw["coord"] = coord_name
    if a["header"] != "generate":
        kw["header"] = a["header"]
    f = io.StringIO()
    r = W.call(_XY + "save_xye", xye.save_xye, f, da, out=(0,), allowed=allowed, **kw)
    if r is RAISED:
        return
    src = io.StringIO(f.getvalue())
    W.call(_XY + "load_xye", xye.load_xye, src, dim=dim, unit=str(da.unit),
           coord_unit=str(da.coords[coord_name].unit), coord=coord_name if a["coord_arg"] else None)


_CF = "io.cif."
_TEXT = st.sampled_from(["plain", "two words", "it's", 'say "hi"', "line1\nline2", "", "µm ünïcode",
                         "12.5", "_tag"])


@st.composite
def _s_cif_objects(draw):
    n = draw(st.integers(1, 4))
    return {
        "pairs": [[draw(st.sampled_from(["a.x", "a.y", "b.long_name", "c.d"])), draw(_TEXT)]
                  for _ in range(draw(st.integers(0, 3)))],
        "pair_var": draw(st.sampled_from(["none", "scalar", "scalar_var", "datetime"])),
        "pairs_as": draw(st.sampled_from(["dict", "list", "none"])),
        "n": n,
        "col": draw(s_var("wavelength", ["row"], {"row": n}, variances=draw(st.booleans()))),
        "strings": [draw(_TEXT) for _ in range(n)],
        "comment": draw(st.sampled_from(["", "a comment", "two\nlines", "ünï"])),
        "schema": draw(st.sampled_from(["none", "core", "pd", "list"])),
        "block_name": draw(st.sampled_from(["blk", "a-b_c", "ünï", "has space"])),
        "bad_col": draw(st.sampled_from(["none", "none", "2d", "length"])),
        "save_as": draw(st.sampled_from(["block", "list", "tuple"])),
        "file_comment": draw(st.sampled_from(["", "file comment"])),
        # form of the content argument of Block (seeded/C09-s6: a list that needs no conversion)
        "content_form": draw(st.sampled_from(["mixed-list", "objects-list", "objects-list", "objects-tuple",
                                              "empty-list"])),
    }


@recipe("cif_objects", "io",
        [_CF + n for n in ("Chunk", "Chunk.__setitem__", "Chunk.write", "Chunk.comment",
                           "Chunk.schema", "Loop", "Loop.__setitem__", "Loop.write",
                           "Loop.comment", "Loop.schema", "Block", "Block.add", "Block.copy",
                           "Block.write", "Block.name", "Block.schema", "Block.comment",
                           "save_cif", "CIFSchema")], _s_cif_objects,
        doc="chunks, loops and blocks built from caller-owned dicts, lists and variables")
def _r_cif_objects(a, W):
    import datetime

    import scipp as sc
    from scippneutron.io import cif

    W.alias = True  # values are stored/formatted as they are; no unit conversion anywhere
    pairs_list = [(k, v) for k, v in a["pairs"]]
    if a["pair_var"] == "scalar":
        pairs_list.append(("v.scalar", sc.scalar(1.5, unit="m")))
    elif a["pair_var"] == "scalar_var":
        pairs_list.append(("v.scalar", sc.scalar(1.5, variance=0.04, unit="m")))
    elif a["pair_var"] == "datetime":
        pairs_list.append(("v.date", datetime.datetime(2024, 5, 6, 7, 8, 9,
                                                       tzinfo=datetime.timezone.utc)))
    pairs = {"dict": dict(pairs_list), "list": pairs_list, "none": None}[a["pairs_as"]]
    my_schema = W.call(_CF + "CIFSchema", cif.CIFSchema, name="mine", version="1", location="here")
    schema = {"none": None, "core": cif.CORE_SCHEMA, "pd": cif.PD_SCHEMA,
              "list": [cif.PD_SCHEMA, my_schema]}[a["schema"]]
    chunk = W.call(_CF + "Chunk", cif.Chunk, pairs, comment=a["comment"], schema=schema)
    mine = {"pairs": pairs, "schema": schema}
    value = sc.scalar(2.5, unit="s")
    W.call(_CF + "Chunk.__setitem__", chunk.__setitem__, "extra.key", value, watch=mine)
    W.call(_CF + "Chunk.comment", lambda: chunk.comment, watch={"self": chunk, **mine})
    W.call(_CF + "Chunk.schema", lambda: chunk.schema, watch={"self": chunk, **mine})
    f = io.StringIO()
    W.call(_CF + "Chunk.write", chunk.write, f, out=(0,), watch={"self": chunk, **mine})
    # loop
    col = W.var(a["col"])
    strings = sc.array(dims=["row"], values=a["strings"])
    columns = {"l.num": col, "l.str": strings}
    loop = W.call(_CF + "Loop", cif.Loop, columns, comment=a["comment"], schema=schema)
    mine["columns"] = columns
    if a["bad_col"] == "2d":
        W.call(_CF + "Loop.__setitem__", loop.__setitem__, "l.bad",
               sc.zeros(dims=["row", "y"], shape=[a["n"], 2]), watch={"self": loop, **mine},
               allowed=(sc.DimensionError,))
    elif a["bad_col"] == "length":
        W.call(_CF + "Loop.__setitem__", loop.__setitem__, "l.bad",
               sc.zeros(dims=["row"], shape=[a["n"] + 1]), watch={"self": loop, **mine},
               allowed=(sc.DimensionError,))
    W.call(_CF + "Loop.__setitem__", loop.__setitem__, "l.more", col * 2.0, watch=mine)
    W.call(_CF + "Loop.comment", lambda: loop.comment, watch={"self": loop, **mine})
    W.call(_CF + "Loop.schema", lambda: loop.schema, watch={"self": loop, **mine})
    W.call(_CF + "Loop.write", loop.write, io.StringIO(), out=(0,), watch={"self": loop, **mine})
    # block
    form = a.get("content_form", "mixed-list")
    content = {"mixed-list": lambda: [chunk, {"d.x": "from dict", "d.y": sc.scalar(3, unit="K")}, loop],
               "objects-list": lambda: [chunk, loop], "objects-tuple": lambda: (chunk, loop),
               "empty-list": list}[form]()
    mine["content"] = content
    bad_name = (ValueError,) if " " in a["block_name"] else ()
    block = W.call(_CF + "Block", cif.Block, a["block_name"], content, comment=a["comment"],
                   schema=schema, watch=mine, allowed=bad_name)
    if block is RAISED:
        block = cif.Block("fallback", content, comment=a["comment"], schema=schema)
    extra = {"e.k": "v"}
    W.call(_CF + "Block.add", block.add, extra, comment="added", watch=mine)
    # a ready-made Chunk / Loop handed over together with a comment: the caller's object (which other
    # blocks may hold as well) keeps its own comment (seeded C09-s12)
    ready_chunk = cif.Chunk({"r.k": 1}, comment="the chunk's own comment")
    ready_loop = cif.Loop({"r.col": sc.arange("row", 3, unit=None)}, comment="")
    other = cif.Block("other", [ready_chunk, ready_loop])
    before_other = _render_block(other)
    W.call(_CF + "Block.add", block.add, ready_chunk, comment="given at add()",
           watch={**mine, "ready_chunk": ready_chunk})
    W.call(_CF + "Block.add", block.add, ready_loop, comment="given at add()",
           watch={**mine, "ready_loop": ready_loop})
    if (ready_chunk.comment, ready_loop.comment) != ("the chunk's own comment", "") or _render_block(other) != before_other:
        raise Violation("argument-modified", f"Block.add(<Chunk/Loop instance>, comment=...) changed the caller's object: "
                                             f"comments now {ready_chunk.comment!r}, {ready_loop.comment!r}; another "
                                             f"block holding them now writes a different file")
    me = {"self": block, **mine}
    W.call(_CF + "Block.name", lambda: block.name, watch=me)
    W.call(_CF + "Block.comment", lambda: block.comment, watch=me)
    W.call(_CF + "Block.schema", lambda: block.schema, watch=me)
    block2 = W.call(_CF + "Block.copy", block.copy, watch=me)
    W.call(_CF + "Block.write", block.write, io.StringIO(), out=(0,), watch=me)
    target = {"block": block, "list": [block, block2], "tuple": (block2,)}[a["save_as"]]
    W.call(_CF + "save_cif", cif.save_cif, io.StringIO(), target, comment=a["file_comment"],
           out=(0,), watch=me)


@st.composite
def _s_people(draw, roles=True):
    n = draw(st.integers(0, 3))
    out = []
    for i in range(n):
        out.append({
            "name": draw(st.sampled_from(["Jane Doe", "Max Mustermann", "Ünï Cödé", "A. B. C."])),
            "corresponding": draw(st.booleans()),
            "role": draw(st.sampled_from([None, "measurement", "data reduction"])) if roles else None,
            "email": draw(st.sampled_from([None, f"p{i}@example.org"])),
            "orcid": draw(st.sampled_from([None, "0000-0002-1825-0097"])),
            "address": draw(st.sampled_from([None, "Some Street 1\nTown"])),
        })
    return out


def build_people(ps):
    from scippneutron.metadata import Person

    return [Person(name=p["name"], corresponding=p["corresponding"], role=p["role"],
                   email=p["email"], orcid_id=p["orcid"], address=p["address"]) for p in ps]


@st.composite
def _s_powder(draw):
    n = draw(st.integers(1, 5))
    dim = draw(st.sampled_from(["tof", "dspacing"]))
    return {
        "dim": dim, "n": n,
        "coord": [draw(st.floats(0.1, 1e4, allow_nan=False)) for _ in range(n)],
        "coord_var": draw(st.booleans()),
        "data": [draw(st.floats(0, 1e3, allow_nan=False)) for _ in range(n)],
        "data_var": draw(st.booleans()),
        "unit": draw(st.sampled_from(["one", "counts"])),
        "name": draw(st.sampled_from(["", "intensity_net", "intensity_norm", "intensity_total"])),
        "dtype": draw(st.sampled_from(["float64", "float32"])),
    }


def build_powder(p):
    import scipp as sc

    n = p["n"]
    cu = {"tof": "us", "dspacing": "angstrom"}[p["dim"]]
    coord = sc.array(dims=[p["dim"]], values=sorted(p["coord"]), unit=cu,
                     variances=[0.01] * n if p["coord_var"] else None)
    data = sc.array(dims=[p["dim"]], values=p["data"], unit=p["unit"], dtype=p["dtype"],
                    variances=[abs(x) + 1 for x in p["data"]] if p["data_var"] else None)
    return sc.DataArray(data, coords={p["dim"]: coord}, name=p["name"])


@st.composite
def _s_calibration(draw):
    powers = draw(st.lists(st.sampled_from([0, 1, 2, -1, 3, 0.5]), min_size=1, max_size=4,
                           unique=True))
    return {"powers": powers, "coef": [draw(st.floats(-10, 10, allow_nan=False)) for _ in powers],
            "var": draw(st.booleans()),
            "power_dtype": "float64" if any(isinstance(p, float) for p in powers)
            else draw(st.sampled_from(["int64", "float64"]))}


def build_calibration(c):
    import scipp as sc

    n = len(c["powers"])
    return sc.DataArray(
        sc.array(dims=["cal"], values=c["coef"], variances=[0.1] * n if c["var"] else None),
        coords={"power": sc.array(dims=["cal"], values=c["powers"], dtype=c["power_dtype"],
                                  unit=None)})


@st.composite
def _s_cif_builder(draw):
    return {
        "name": draw(st.sampled_from(["", "data", "my-block"])),
        "comment": draw(st.sampled_from(["", "top comment"])),
        "people": draw(_s_people()),
        "reducers": draw(st.lists(st.sampled_from(["ess 1.0", "scipp 25.4", "x"]), max_size=3)),
        "beamline": {"name": draw(st.sampled_from(["DREAM", "POWGEN", "x y"])),
                     "facility": draw(st.sampled_from([None, "ESS", "SNS", "elsewhere"])),
                     "source": draw(st.sampled_from(["none", "ess", "reactor"]))},
        "powder": draw(_s_powder()), "cal": draw(_s_calibration()),
        "item_comment": draw(st.sampled_from(["", "item comment"])),
        "save_comment": draw(st.sampled_from(["", "override"])),
    }


@recipe("cif_builder", "io",
        [_CF + "CIF"] + [_CF + "CIF." + m for m in (
            "with_authors", "with_reducers", "with_beamline", "with_reduced_powder_data",
            "with_powder_calibration", "copy", "save", "name", "comment", "schema")]
        + [_CF + "save_cif"], _s_cif_builder,
        doc="the CIF builder: every with_* combinator, copy, save and save_cif(builder); the "
            "receiver and all earlier builders are watched")
def _r_cif_builder(a, W):
    from scippneutron import metadata
    from scippneutron.io import cif

    W.alias = True
    c0 = W.call(_CF + "CIF", cif.CIF, a["name"], comment=a["comment"])
    live = {"c0": c0}
    people = build_people(a["people"])
    c1 = W.call(_CF + "CIF.with_authors", c0.with_authors, *people, watch=live)
    live["c1"] = c1
    c2 = W.call(_CF + "CIF.with_reducers", c1.with_reducers, *a["reducers"], watch=live)
    live["c2"] = c2
    b = a["beamline"]
    beamline = metadata.Beamline(name=b["name"], facility=b["facility"])
    source = {"none": None, "ess": metadata.ESS_SOURCE,
              "reactor": metadata.Source(name="R", source_type=metadata.SourceType.ReactorNeutronSource,
                                         probe=metadata.RadiationProbe.Neutron)}[b["source"]]
    c3 = W.call(_CF + "CIF.with_beamline", c2.with_beamline, beamline, source,
                comment=a["item_comment"], watch=live)
    live["c3"] = c3
    powder = build_powder(a["powder"])
    c4 = W.call(_CF + "CIF.with_reduced_powder_data", c3.with_reduced_powder_data, powder,
                comment=a["item_comment"], watch=live)
    live["c4"] = c4
    cal = build_calibration(a["cal"])
    c5 = W.call(_CF + "CIF.with_powder_calibration", c4.with_powder_calibration, cal,
                comment=a["item_comment"], watch=live)
    live["c5"] = c5
    live.update(people=people, powder=powder, cal=cal, beamline=beamline, source=source)
    c6 = W.call(_CF + "CIF.copy", c5.copy, watch=live)
    live["c6"] = c6
    for prop in ("name", "comment", "schema"):
        W.call(_CF + "CIF." + prop, lambda p=prop: getattr(c6, p), watch=live)
    W.call(_CF + "CIF.save", c5.save, io.StringIO(), out=(0,), watch=live)
    W.call(_CF + "save_cif", cif.save_cif, io.StringIO(), c6, comment=a["save_comment"],
           out=(0,), watch=live)
    W.call(_CF + "CIF.save", c0.save, io.StringIO(), out=(0,), watch=live)
    # a save that fails (the directory does not exist) must leave the builder as it was, one-off
    # comment included (seeded C09-s14: set comment, save, restore -- without try/finally)
    comment_before = c6.comment
    W.call(_CF + "save_cif", cif.save_cif, "/nonexistent-directory-vf/sub/out.cif", c6, comment="one-off comment",
           watch=live, allowed=(OSError,))
    if c6.comment != comment_before:
        raise Violation("argument-modified", f"a failed save_cif(path, builder, comment='one-off comment') left the "
                                             f"builder's comment at {c6.comment!r} (was {comment_before!r})")

_SQ = "io.sqw."


@st.composite
def _s_sqw(draw):
    npix = draw(st.integers(1, 12))
    sizes = {"obs": npix}
    nexp = draw(st.integers(1, 2))

    def angle():
        return draw(s_var("angle", [], sizes, lo=-3.0, hi=3.0, dtypes=_FLOATS))

    experiments = []
    for _ in range(nexp):
        nen = draw(st.integers(1, 3))
        experiments.append({
            "efix": draw(s_var("energy", [], sizes, dtypes=_FLOATS)),
            "en": draw(s_var("energy", ["energy_transfer"], {"energy_transfer": nen},
                             dtypes=_FLOATS)),
            "mode": draw(st.sampled_from(["direct", "indirect"])),
            "angles": [angle() for _ in range(5)],
        })
    return {
        "npix": npix,
        "q_unit": draw(st.sampled_from(["1/angstrom", "1/angstrom", "1/nm"])),
        "e_unit": draw(st.sampled_from(["meV", "meV", "eV"])),
        "pix_dtype": draw(st.sampled_from(["float64", "float64", "float32"])),
        "pix": [[draw(st.floats(-5, 5, allow_nan=False)) for _ in range(npix)] for _ in range(4)],
        "signal": [draw(st.floats(0, 100, allow_nan=False)) for _ in range(npix)],
        "experiments": experiments,
        "byteorder": draw(st.sampled_from(["native", "little", "big"])),
        "title": draw(st.sampled_from(["", "a title"])),
        "lattice_unit": draw(st.sampled_from(["angstrom", "angstrom", "nm"])),
        "lattice_angle_unit": draw(st.sampled_from(["deg", "deg", "rad"])),
        "parts": draw(st.lists(st.sampled_from(["instrument", "sample", "detpar", "dnd"]),
                               unique=True, max_size=4)),
        "with_w": draw(st.booleans()),
        "chunk": draw(st.sampled_from([8192, 64])),
    }


def _sqw_models(a, W):
    import scipp as sc
    from scippneutron.io import sqw

    lu, au = a["lattice_unit"], a["lattice_angle_unit"]
    lf = {"angstrom": 1.0, "nm": 0.1}[lu]
    af = {"deg": 1.0, "rad": math.pi / 180}[au]
    spacing = sc.vector([2.86 * lf, 3.1 * lf, 4.0 * lf], unit=lu)
    angles = sc.vector([90.0 * af, 90.0 * af, 120.0 * af], unit=au)
    qu, eu = a["q_unit"], a["e_unit"]
    qf = {"1/angstrom": 1.0, "1/nm": 10.0}[qu]
    ef = {"meV": 1.0, "eV": 1e-3}[eu]
    W.alias = W.alias or (lu == "angstrom" and au == "deg" and qu == "1/angstrom" and eu == "meV")
    units4 = [qu, qu, qu, eu]
    f4 = [qf, qf, qf, ef]
    axes = W.call(
        _SQ + "SqwLineAxes", sqw.SqwLineAxes, title="My Axes", label=["u1", "u2", "u3", "u4"],
        img_scales=[sc.scalar(1.0 * f, unit=u) for f, u in zip(f4, units4, strict=True)],
        img_range=[sc.array(dims=["range"], values=[0.0, 1.0 * f], unit=u)
                   for f, u in zip(f4, units4, strict=True)],
        n_bins_all_dims=sc.array(dims=["axis"], values=[2, 2, 2, 2], unit=None),
        single_bin_defines_iax=sc.array(dims=["axis"], values=[True] * 4),
        dax=sc.arange("axis", 4, unit=None),
        offset=[sc.scalar(0.0, unit=u) for u in units4],
        changes_aspect_ratio=True, filename="dnd_axes", filepath="/dnd")
    proj = W.call(
        _SQ + "SqwLineProj", sqw.SqwLineProj, title="My Projection", lattice_spacing=spacing,
        lattice_angle=angles, offset=[sc.scalar(0.0, unit=u) for u in units4],
        label=["u1", "u2", "u3", "u4"], u=sc.vector([1.0 * qf, 0.0, 0.0], unit=qu),
        v=sc.vector([0.0, 1.0 * qf, 0.0], unit=qu),
        w=sc.vector([0.0, 0.0, 1.0 * qf], unit=qu) if a["with_w"] else None,
        non_orthogonal=False, type="aaa")
    dnd = W.call(_SQ + "SqwDndMetadata", sqw.SqwDndMetadata, axes=axes, proj=proj)
    source = W.call(_SQ + "SqwIXSource", sqw.SqwIXSource, name="My Source",
                    target_name="The target", frequency=sc.scalar(13.4, unit="MHz"))
    instrument = W.call(_SQ + "SqwIXNullInstrument", sqw.SqwIXNullInstrument,
                        name="Custom Instrument", source=source)
    sample = W.call(_SQ + "SqwIXSample", sqw.SqwIXSample, name="Vibranium",
                    lattice_spacing=spacing, lattice_angle=angles)
    experiments = []
    for i, e in enumerate(a["experiments"]):
        psi, omega, dpsi, gl, gs = (W.var(d) for d in e["angles"])
        experiments.append(W.call(
            _SQ + "SqwIXExperiment", sqw.SqwIXExperiment, run_id=i, efix=W.var(e["efix"]),
            emode=sqw.EnergyMode[e["mode"]], en=W.var(e["en"]), psi=psi,
            u=sc.vector([1.0, 0.0, 0.0], unit="1/angstrom"),
            v=sc.vector([0.0, 1.0, 0.0], unit="1/angstrom"), omega=omega, dpsi=dpsi, gl=gl, gs=gs,
            filename=f"experiment{i}.nxspe", filepath="/data"))
    return {"dnd": dnd, "instrument": instrument, "sample": sample, "experiments": experiments,
            "axes": axes, "proj": proj, "source": source}


@recipe("sqw", "io",
        [_SQ + n for n in (
            "Sqw.build", "Sqw.open", "Sqw.read_data_block", "Sqw.data_block_names",
            "Sqw.file_header", "Sqw.byteorder", "Sqw.__str__", "SqwBuilder",
            "SqwBuilder.add_pixel_data", "SqwBuilder.add_default_instrument",
            "SqwBuilder.add_default_sample", "SqwBuilder.add_empty_detector_params",
            "SqwBuilder.add_empty_dnd_data", "SqwBuilder.create", "SqwLineAxes", "SqwLineProj",
            "SqwDndMetadata", "SqwIXSource", "SqwIXNullInstrument", "SqwIXSample",
            "SqwIXExperiment", "SqwMainHeader", "Serializable.serialize_to_ir",
            "Serializable.prepare_for_serialization",
            "SqwDndMetadata.prepare_for_serialization",
            "SqwMainHeader.prepare_for_serialization")], _s_sqw,
        doc="SQW writer and reader on BytesIO: models in the file's units (angstrom, deg, rad, meV, "
            "1/angstrom, float64) are serialised through copy=False views of the caller's buffers")
def _r_sqw(a, W):
    import datetime

    import scipp as sc
    from scippneutron.io import sqw

    m = _sqw_models(a, W)
    npix = a["npix"]
    qu, eu = a["q_unit"], a["e_unit"]
    qf = {"1/angstrom": 1.0, "1/nm": 10.0}[qu]
    ef = {"meV": 1.0, "eV": 1e-3}[eu]
    dt = a["pix_dtype"]
    nexp = len(m["experiments"])
    coords = {
        "u1": sc.array(dims=["obs"], values=np.array(a["pix"][0]) * qf, unit=qu, dtype=dt),
        "u2": sc.array(dims=["obs"], values=np.array(a["pix"][1]) * qf, unit=qu, dtype=dt),
        "u3": sc.array(dims=["obs"], values=np.array(a["pix"][2]) * qf, unit=qu, dtype=dt),
        "u4": sc.array(dims=["obs"], values=np.array(a["pix"][3]) * ef, unit=eu, dtype=dt),
        "irun": sc.array(dims=["obs"], values=[i % nexp for i in range(npix)], unit=None),
        "idet": sc.array(dims=["obs"], values=list(range(npix)), unit=None),
        "ien": sc.array(dims=["obs"], values=[i % 3 for i in range(npix)], unit=None),
    }
    pixels = sc.DataArray(
        sc.array(dims=["obs"], values=a["signal"], variances=[s + 1.0 for s in a["signal"]],
                 unit="count", dtype=dt), coords=coords)
    everything = {**m, "pixels": pixels}
    for key in ("dnd", "instrument", "sample", "axes", "proj", "source"):
        W.call(_SQ + "Serializable.serialize_to_ir", m[key].serialize_to_ir, watch=everything)
    W.call(_SQ + "Serializable.serialize_to_ir", m["experiments"][0].serialize_to_ir,
           watch=everything)
    W.call(_SQ + "SqwDndMetadata.prepare_for_serialization", m["dnd"].prepare_for_serialization,
           filename="f.sqw", filepath="/p", watch=everything)
    W.call(_SQ + "Serializable.prepare_for_serialization", m["sample"].prepare_for_serialization,
           filename="f.sqw", filepath="/p", watch=everything)
    header = W.call(_SQ + "SqwMainHeader", sqw.SqwMainHeader, full_filename="x", title="t",
                    nfiles=1, creation_date=datetime.datetime(2024, 1, 1,
                                                              tzinfo=datetime.timezone.utc))
    W.call(_SQ + "SqwMainHeader.prepare_for_serialization", header.prepare_for_serialization,
           filename="f.sqw", filepath="/p", watch={"self": header})
    W.call(_SQ + "Serializable.serialize_to_ir", header.serialize_to_ir, watch={"self": header})
    bo = sqw.Byteorder.parse(a["byteorder"])
    buffer = io.BytesIO()
    builder = W.call(_SQ + "Sqw.build", sqw.Sqw.build, buffer, title=a["title"],
                     byteorder=a["byteorder"], out=(0,))
    W.call(_SQ + "SqwBuilder", sqw.SqwBuilder, io.BytesIO(), "t", byteorder=bo, out=(0,))
    # the builder methods mutate (and return) the builder: only their arguments are watched
    for part in a["parts"]:
        if part == "instrument":
            W.call(_SQ + "SqwBuilder.add_default_instrument", builder.add_default_instrument,
                   m["instrument"], watch=everything)
        elif part == "sample":
            W.call(_SQ + "SqwBuilder.add_default_sample", builder.add_default_sample, m["sample"],
                   watch=everything)
        elif part == "detpar":
            W.call(_SQ + "SqwBuilder.add_empty_detector_params",
                   builder.add_empty_detector_params, watch=everything)
        else:
            W.call(_SQ + "SqwBuilder.add_empty_dnd_data", builder.add_empty_dnd_data, m["dnd"],
                   watch=everything)
    exps = m["experiments"]
    W.call(_SQ + "SqwBuilder.add_pixel_data", builder.add_pixel_data, pixels, experiments=exps,
           watch=everything)
    W.call(_SQ + "SqwBuilder.create", builder.create, chunk_size=a["chunk"], watch=everything)
    data = io.BytesIO(buffer.getvalue())
    with sqw.Sqw.open(data, byteorder=None if a["byteorder"] == "native" else a["byteorder"]) as f:
        W.labels.append("c:" + _SQ + "Sqw.open")
        W.completed += 1
        me = {"self_file": data, **everything}
        names = W.call(_SQ + "Sqw.data_block_names", f.data_block_names, watch=me)
        W.call(_SQ + "Sqw.file_header", lambda: f.file_header, watch=me)
        W.call(_SQ + "Sqw.byteorder", lambda: f.byteorder, watch=me)
        W.call(_SQ + "Sqw.__str__", f.__str__, watch=me)
        for name in list(names):
            W.call(_SQ + "Sqw.read_data_block", f.read_data_block, name, watch=me)
        W.call(_SQ + "Sqw.read_data_block", f.read_data_block, "pix", "metadata", watch=me)
        W.call(_SQ + "Sqw.read_data_block", f.read_data_block, "nope", "nope", watch=me,
               allowed=(KeyError,))

# ============================================================================= Part B: histories

_GT = "conversion.graph.tof."
_GB = "conversion.graph.beamline."
_CC_ = "core.conversions."
_STARTS = ["tof", "wavelength", "energy", "Q", "dspacing"]
_TOF_FACTORIES = ["elastic", "kinematic", "elastic_dspacing", "elastic_energy", "elastic_Q",
                  "elastic_Q_vec", "elastic_hkl", "elastic_wavelength", "direct_inelastic",
                  "indirect_inelastic"]
_BEAMLINE_FACTORIES = {"incident_beam": [[]], "scattered_beam": [[]], "two_theta": [[]],
                       "L1": [[]], "L2": [[]], "Ltotal": [[True], [False]],
                       "beamline": [[True], [False]]}
_CG_ORIGINS = ["tof", "wavelength", "energy", "Q"]
_CG_TARGETS = ["wavelength", "energy", "dspacing", "Q", "two_theta", "L1", "energy_transfer"]
_CG_MODES = ["elastic", "direct_inelastic", "indirect_inelastic"]
_DEDUCE_DATA = ["plain", "direct", "indirect", "both"]


def _graph_factory_table():
    """factory name -> list of argument lists (JSON primitives)."""
    table = {_GT + f: [[s] for s in _STARTS] for f in _TOF_FACTORIES}
    for f, args in _BEAMLINE_FACTORIES.items():
        table[_GB + f] = args
    table[_CC_ + "conversion_graph"] = [
        [o, t, s, m] for o in _CG_ORIGINS for t in _CG_TARGETS for s in (True, False)
        for m in _CG_MODES]
    table[_CC_ + "deduce_conversion_graph"] = [
        [d, "tof", t, s] for d in _DEDUCE_DATA
        for t in ("wavelength", "energy", "dspacing", "energy_transfer") for s in (True, False)]
    return table


GRAPH_FACTORIES = _graph_factory_table()


def _deduce_data(kind):
    import scipp as sc

    coords = {"tof": sc.arange("tof", 3.0, unit="us")}
    if kind in ("direct", "both"):
        coords["incident_energy"] = sc.scalar(3.0, unit="meV")
    if kind in ("indirect", "both"):
        coords["final_energy"] = sc.scalar(3.0, unit="meV")
    return sc.DataArray(sc.ones(dims=["tof"], shape=[3]), coords=coords)


def _call_graph_factory(name, args):
    """Call a graph factory; returns the dict, or the exception instance it raised."""
    from scippneutron.conversion.graph import beamline as gb
    from scippneutron.conversion.graph import tof as gt
    from scippneutron.core import conversions as cc

    try:
        if name.startswith(_GT):
            return getattr(gt, name[len(_GT):])(*args)
        if name.startswith(_GB):
            return getattr(gb, name[len(_GB):])(*args)
        if name == _CC_ + "conversion_graph":
            return cc.conversion_graph(*args)
        if name == _CC_ + "deduce_conversion_graph":
            return cc.deduce_conversion_graph(_deduce_data(args[0]), *args[1:])
    except (KeyError, RuntimeError) as e:   # documented: unknown start / inconsistent energy coords
        return e
    raise HarnessError(f"unknown graph factory {name}")


def _norm_graph(g):
    """JSON form of a graph: ordered [key, qualified function name] pairs."""
    if isinstance(g, Exception):
        return {"raises": type(g).__name__}
    out = []
    for k, v in g.items():
        key = list(k) if isinstance(k, tuple) else k
        fn = f"{getattr(v, '__module__', '?')}.{getattr(v, '__qualname__', repr(v))}"
        out.append([key, fn])
    return {"graph": out}


def _dump_pristine_graphs():
    """Runs in a fresh interpreter: every factory x argument list -> normalised result."""
    out = {}
    for name, arglists in GRAPH_FACTORIES.items():
        out[name] = [_norm_graph(_call_graph_factory(name, args)) for args in arglists]
    return out


_PRISTINE: dict = {}


def pristine_graphs():
    key = str(repo_src())
    if key not in _PRISTINE:
        code = (
            "import sys, json\n"
            f"sys.path.insert(0, {str(ROOT)!r})\n"
            "from vf import core\n"
            "core.bootstrap()\n"
            "core.assert_tree()\n"
            "from vf.props import c09\n"
            "sys.stdout.write('@@' + json.dumps(c09._dump_pristine_graphs()))\n"
        )
        env = dict(os.environ, PYTHONHASHSEED="0")
        r = subprocess.run([sys.executable, "-c", code], capture_output=True, text=True, env=env,
                           cwd=str(ROOT), check=False)
        if r.returncode != 0 or "@@" not in r.stdout:
            raise HarnessError("pristine graph snapshot failed:\n" + r.stderr[-2000:])
        _PRISTINE[key] = json.loads(r.stdout.split("@@", 1)[1])
    return _PRISTINE[key]


def _bogus_kernel(**kwargs):
    raise AssertionError("injected by the C09 history check")


def _check_all_graphs(step):
    expect = pristine_graphs()
    for name, arglists in GRAPH_FACTORIES.items():
        for args, want in zip(arglists, expect[name], strict=True):
            got = _norm_graph(_call_graph_factory(name, args))
            if got != want:
                raise Violation(
                    "stale-graph",
                    f"after step {step}: {name}({', '.join(map(repr, args))}) returns "
                    f"{_clip(got)}; in a fresh interpreter it returns {_clip(want)}",
                    {"factory": name, "args": args, "got": got, "pristine": want})


def _clip(x, n=400):
    s = json.dumps(x, default=str)
    return s if len(s) <= n else s[:n] + "..."


@st.composite
def s_graph_history(draw):
    names = sorted(GRAPH_FACTORIES) + [_CC_ + "conversion_graph", _CC_ + "deduce_conversion_graph"] * 2
    nops = draw(st.integers(2, 8))
    ops = []
    ncalls = 0
    for i in range(nops):
        want_call = i == 0 or (ncalls < 4 and draw(st.booleans()))
        if want_call:
            f = draw(st.sampled_from(names))
            k = draw(st.integers(0, len(GRAPH_FACTORIES[f]) - 1))
            ops.append({"op": "call", "f": f, "args": GRAPH_FACTORIES[f][k]})
            ncalls += 1
        else:
            ops.append({"op": "mut", "i": draw(st.integers(0, 3)),
                        "how": draw(st.sampled_from(["overwrite", "insert", "pop", "clear",
                                                     "update", "reorder", "popitem"])),
                        "k": draw(st.integers(0, 9)), "j": draw(st.integers(0, 3))})
    return {"ops": ops}


def check_graph_history(case):
    clear_state()
    kept = []
    labels = []
    mutated = False
    for step, op in enumerate(case["ops"]):
        if op["op"] == "call":
            g = _call_graph_factory(op["f"], op["args"])
            labels.append("call:" + op["f"].rsplit(".", 1)[-1])
            if isinstance(g, dict):
                kept.append(g)
            else:
                labels.append("call-raised:" + type(g).__name__)
        else:
            if not kept:
                labels.append("mut-skipped")
                continue
            d = kept[op["i"] % len(kept)]
            keys = list(d)
            how = op["how"]
            if how in ("pop", "overwrite", "reorder") and not keys:
                labels.append("mut-skipped")
                continue
            if how == "pop":
                d.pop(keys[op["k"] % len(keys)])
            elif how == "popitem" and keys:
                d.popitem()
            elif how == "insert":
                d[f"injected{op['k']}"] = _bogus_kernel
            elif how == "overwrite":
                d[keys[op["k"] % len(keys)]] = _bogus_kernel
            elif how == "clear":
                d.clear()
            elif how == "update":
                d.update(kept[op["j"] % len(kept)])
                d["also_injected"] = _bogus_kernel
            elif how == "reorder":
                key = keys[op["k"] % len(keys)]
                d[key] = d.pop(key)
            labels.append("mut:" + how)
            mutated = True
        _check_all_graphs(step)
    return labels, mutated


# ----------------------------------------------------------------------------- atoms

_SP_FIELDS = [f for f, _ in csvtab.SCATTERING_FIELDS]
_SP_UNITS = dict(csvtab.SCATTERING_FIELDS)
_MUTATIONS = ["value", "imul", "iadd", "unit", "variance", "values_buffer"]


def _cell_var(cell, unit):
    import scipp as sc

    if cell is None or cell.blank:
        return None
    var = csvtab.to_float(cell.std) ** 2 if cell.std else None
    return sc.scalar(csvtab.to_float(cell.value), variance=var, unit=unit)


def _same_var(got, want):
    import scipp as sc

    if want is None or got is None:
        return want is None and got is None
    return isinstance(got, sc.Variable) and sc.identical(got, want, equal_nan=True)


def _mutate_var(v, how, x):
    import scipp as sc

    if how == "value":
        v.value = x
    elif how == "imul":
        v *= x
    elif how == "iadd":
        v += sc.scalar(x, unit=v.unit)
    elif how == "unit":
        v.unit = "m"
    elif how == "variance":
        v.variance = None if v.variance is not None else abs(x) + 1.0
    elif how == "values_buffer":
        v.values[...] = x


def _fresh_atom_matches(api, name):
    """None if a fresh lookup equals the CSV expectation, else a description."""
    import scipp as sc
    from scippneutron import atoms

    if api == "reference_wavelength":
        got = atoms.reference_wavelength()
        want = sc.scalar(1.7982, unit="angstrom")   # "1.7982 Å" (docstring of the function)
        return None if _same_var(got, want) else f"reference_wavelength() = {got.value!r} {got.unit}"
    if api == "ScatteringParams":
        got = atoms.ScatteringParams.for_isotope(name)
        cells = csvtab.expect_scattering(name)
        if got.isotope != name:
            return f"isotope = {got.isotope!r}"
        for fname, cell in zip(_SP_FIELDS, cells, strict=True):
            want = _cell_var(cell, _SP_UNITS[fname])
            have = getattr(got, fname)
            if not _same_var(have, want):
                return f"{fname} = {_show(have)}, bundled table says {_show(want)}"
        return None
    got = atoms.Atom.for_isotope(name)
    exp = csvtab.expect_atom(name)
    if got.isotope != name or got.z != exp["z"]:
        return f"isotope/z = {got.isotope!r}/{got.z!r}, table says {name!r}/{exp['z']}"
    for prop, cell in (("atomic_weight", exp["weight"]), ("atomic_mass", exp["mass"])):
        want = _cell_var(cell, "Da")
        try:
            have = getattr(got, prop)
        except ValueError:
            have = None
        if not _same_var(have, want):
            return f"{prop} = {_show(have)}, bundled table says {_show(want)}"
    return None


def _show(v):
    if v is None:
        return "None"
    return f"{v.value!r} (variance {v.variance!r}) {v.unit}"


def _s_atom_history(apis):
    t = csvtab.tables()
    pools = {
        "Atom": st.one_of(st.sampled_from(["H", "V", "1H", "2H", "51V", "Tc"]),
                          st.sampled_from(list(t.weights_order)),
                          st.sampled_from(list(t.masses_order))),
        "ScatteringParams": st.one_of(st.sampled_from(["H", "V", "157Gd", "Tc", "Ac"]),
                                      st.sampled_from(list(t.scattering_order))),
        "reference_wavelength": st.just(""),
    }

    @st.composite
    def strat(draw):
        nops = draw(st.integers(2, 8))
        ops = []
        nlook = 0
        first_names = {}
        for i in range(nops):
            if i == 0 or (nlook < 4 and draw(st.integers(0, 2)) == 0):
                api = draw(st.sampled_from(apis))
                # repeat an earlier key with good probability: that is what shares a cache entry
                if api in first_names and draw(st.booleans()):
                    name = first_names[api]
                else:
                    name = draw(pools[api])
                    first_names.setdefault(api, name)
                ops.append({"op": "lookup", "api": api, "name": name})
                nlook += 1
            else:
                ops.append({"op": "mut", "i": draw(st.integers(0, 3)),
                            "field": draw(st.integers(0, 7)),
                            "how": draw(st.sampled_from(_MUTATIONS)),
                            "x": draw(st.sampled_from([99.0, 0.0, -1.5, 2.0, 1e6]))})
        return {"ops": ops}

    return strat()


def check_atom_history(case):
    from scippneutron import atoms

    clear_state()
    kept = []       # (api, name, object)
    seen = []       # (api, name) in lookup order
    labels = []
    mutated = False
    for step, op in enumerate(case["ops"]):
        if op["op"] == "lookup":
            api, name = op["api"], op["name"]
            if api == "reference_wavelength":
                obj = atoms.reference_wavelength()
            else:
                obj = getattr(atoms, api).for_isotope(name)
            kept.append((api, name, obj))
            if (api, name) not in seen:
                seen.append((api, name))
            labels.append("lookup:" + api)
        else:
            if not kept:
                labels.append("mut-skipped")
                continue
            api, name, obj = kept[op["i"] % len(kept)]
            if api == "reference_wavelength":
                target = obj
            elif api == "Atom":
                prop = ("atomic_weight", "atomic_mass")[op["field"] % 2]
                try:
                    target = getattr(obj, prop)
                except ValueError:       # documented: no weight / no mass for this name
                    target = None
            else:
                target = getattr(obj, _SP_FIELDS[op["field"] % len(_SP_FIELDS)])
            if target is None:
                labels.append("mut-skipped:none-field")
                continue
            _mutate_var(target, op["how"], op["x"])
            labels.append(f"mut:{api}:{op['how']}")
            mutated = True
        for api, name in seen:
            bad = _fresh_atom_matches(api, name)
            if bad is not None:
                call = "reference_wavelength()" if api == "reference_wavelength" else \
                    f"{api}.for_isotope({name!r})"
                raise Violation("stale-lookup", f"after step {step}: fresh {call}: {bad}",
                                {"api": api, "name": name, "step": step})
    return labels, mutated


# ----------------------------------------------------------------------------- models

_BOUNDS = {"GaussianModel": {"scale": (0.0, math.inf)},
           "LorentzianModel": {"scale": (0.0, math.inf)},
           "PseudoVoigtModel": {"scale": (0.0, math.inf), "fraction": (0.0, 1.0)},
           "PolynomialModel": {}}


def _spec_names(spec):
    if spec["kind"] == "leaf":
        return {spec["prefix"] + n for n in _base_names(spec["cls"], spec["degree"])}
    inner = _spec_names(spec["left"]) | _spec_names(spec["right"])
    return {spec["prefix"] + n for n in inner}


def _spec_bounds(spec):
    if spec["kind"] == "leaf":
        return {spec["prefix"] + k: v for k, v in _BOUNDS[spec["cls"]].items()}
    inner = {**_spec_bounds(spec["left"]), **_spec_bounds(spec["right"])}
    return {spec["prefix"] + k: v for k, v in inner.items()}


@st.composite
def s_model_history(draw):
    nops = draw(st.integers(2, 8))
    ops = []
    prefixes = ["", "a_", "b_", "peak_", "bkg_", "c_", "d_", "e_"]
    for i in range(nops):
        kind = "new" if i == 0 else draw(st.sampled_from(
            ["mut_set", "mut_dict", "with_prefix", "add", "names", "bounds", "mut_set",
             "mut_dict", "new"]))
        op = {"op": kind, "i": draw(st.integers(0, 5)), "j": draw(st.integers(0, 5))}
        if kind == "add":
            # right operand: an existing model (may clash) or a new one with a unique prefix
            op["fresh_right"] = draw(st.sampled_from([None, *_MODEL_CLASSES]))
        if kind == "new":
            op.update(cls=draw(st.sampled_from(_MODEL_CLASSES)), degree=draw(st.integers(1, 3)),
                      prefix=draw(st.sampled_from(prefixes)))
        elif kind == "with_prefix":
            op["prefix"] = draw(st.sampled_from(prefixes))
        elif kind in ("mut_set", "mut_dict"):
            op["how"] = draw(st.sampled_from(["add", "discard", "clear"] if kind == "mut_set"
                                             else ["pop", "insert", "overwrite", "clear"]))
            op["make"] = draw(st.booleans())   # take a fresh set/dict from model i first
            op["k"] = draw(st.integers(0, 5))
        ops.append(op)
    return {"ops": ops}


def check_model_history(case):
    from scippneutron.peaks import model as M

    clear_state()
    models = []       # (live model, spec)
    sets, dicts = [], []
    labels = []
    mutated = False
    for step, op in enumerate(case["ops"]):
        kind = op["op"]
        labels.append("op:" + kind)
        if kind == "new":
            m = _make_model(op["cls"], op["prefix"], op["degree"])
            models.append((m, {"kind": "leaf", "cls": op["cls"], "degree": op["degree"],
                               "prefix": op["prefix"]}))
        elif not models:
            continue
        elif kind == "with_prefix":
            m, spec = models[op["i"] % len(models)]
            models.append((m.with_prefix(op["prefix"]), {**spec, "prefix": op["prefix"]}))
        elif kind == "add":
            m1, s1 = models[op["i"] % len(models)]
            if op.get("fresh_right"):
                s2 = {"kind": "leaf", "cls": op["fresh_right"], "degree": 1,
                      "prefix": f"u{step}_"}
                m2 = _make_model(s2["cls"], s2["prefix"], 1)
                models.append((m2, s2))
            else:
                m2, s2 = models[op["j"] % len(models)]
            clash = _spec_names(s1) & _spec_names(s2)
            try:
                m = m1 + m2
            except ValueError:          # documented: overlapping parameter names
                if not clash:
                    raise Violation(
                        "model-state", f"after step {step}: adding models with disjoint "
                        f"parameter names {sorted(_spec_names(s1))} and "
                        f"{sorted(_spec_names(s2))} raised ValueError") from None
                labels.append("add:clash")
                m = None
            if m is not None:
                if clash:
                    raise Violation("model-state", f"after step {step}: models sharing "
                                    f"{sorted(clash)} were combined without error")
                models.append((m, {"kind": "comp", "left": s1, "right": s2, "prefix": ""}))
        elif kind == "names":
            sets.append(models[op["i"] % len(models)][0].param_names)
        elif kind == "bounds":
            dicts.append(models[op["i"] % len(models)][0].param_bounds)
        elif kind == "mut_set" and (sets or op.get("make")):
            if op.get("make") or not sets:
                sets.append(models[op["j"] % len(models)][0].param_names)
            s = sets[op["i"] % len(sets)] if not op.get("make") else sets[-1]
            if op["how"] == "add":
                s.add(f"injected{op['k']}")
            elif op["how"] == "discard" and s:
                s.discard(sorted(s)[op["k"] % len(s)])
            else:
                s.clear()
            mutated = True
            labels.append("mut:set:" + op["how"])
        elif kind == "mut_dict" and (dicts or op.get("make")):
            if op.get("make") or not dicts:
                dicts.append(models[op["j"] % len(models)][0].param_bounds)
            d = dicts[op["i"] % len(dicts)] if not op.get("make") else dicts[-1]
            keys = sorted(d)
            if op["how"] == "pop" and keys:
                d.pop(keys[op["k"] % len(keys)])
            elif op["how"] == "insert":
                d[f"injected{op['k']}"] = (-1.0, 1.0)
            elif op["how"] == "overwrite" and keys:
                d[keys[op["k"] % len(keys)]] = (-1.0, 1.0)
            else:
                d.clear()
            mutated = True
            labels.append("mut:dict:" + op["how"])
        for idx, (m, spec) in enumerate(models):
            want_cls = spec["cls"] if spec["kind"] == "leaf" else "CompositeModel"
            problems = []
            if type(m).__name__ != want_cls:
                problems.append(f"class {type(m).__name__} != {want_cls}")
            if m.prefix != spec["prefix"]:
                problems.append(f"prefix {m.prefix!r} != {spec['prefix']!r}")
            if m.param_names != _spec_names(spec):
                problems.append(f"param_names {sorted(m.param_names)} != "
                                f"{sorted(_spec_names(spec))}")
            if m.param_bounds != _spec_bounds(spec):
                problems.append(f"param_bounds {m.param_bounds} != {_spec_bounds(spec)}")
            if spec["kind"] == "leaf" and spec["cls"] == "PolynomialModel" \
                    and m.degree != spec["degree"]:
                problems.append(f"degree {m.degree} != {spec['degree']}")
            if problems:
                raise Violation("model-state", f"after step {step}: model #{idx} built as "
                                f"{_spec_str(spec)}: " + "; ".join(problems),
                                {"model": idx, "spec": spec})
    # combinators were exercised, or a handed-out container was mutated
    return labels, mutated or any(o["op"] in ("with_prefix", "add") for o in case["ops"][1:])


def _spec_str(spec):
    if spec["kind"] == "leaf":
        d = f"degree={spec['degree']}, " if spec["cls"] == "PolynomialModel" else ""
        return f"{spec['cls']}({d}prefix={spec['prefix']!r})"
    return f"({_spec_str(spec['left'])} + {_spec_str(spec['right'])}).prefix={spec['prefix']!r}"


# ----------------------------------------------------------------------------- CIF builders


def _mask_date(text):
    return "\n".join("_audit.creation_date <masked>" if ln.startswith("_audit.creation_date")
                     else ln for ln in text.splitlines())


def _render_cif(c):
    f = io.StringIO()
    c.save(f)
    return _mask_date(f.getvalue())


def _render_block(b):
    from scippneutron.io import cif

    f = io.StringIO()
    cif.save_cif(f, b)
    return f.getvalue()


def _fresh_cif(lineage):
    """A builder made by replaying nothing but its own lineage of operations on fresh objects."""
    from scippneutron import metadata
    from scippneutron.io import cif

    c = None
    for kind, arg in lineage:
        if kind == "new":
            c = cif.CIF(arg["name"], comment=arg["comment"])
        elif kind == "authors":
            c = c.with_authors(*build_people(arg))
        elif kind == "reducers":
            c = c.with_reducers(*arg)
        elif kind == "beamline":
            c = c.with_beamline(metadata.Beamline(name=arg["name"], facility=arg["facility"]))
        elif kind == "powder":
            c = c.with_reduced_powder_data(build_powder(arg))
        elif kind == "cal":
            c = c.with_powder_calibration(build_calibration(arg))
        elif kind == "copy":
            c = c.copy()
        elif kind == "set_name":
            c.name = arg
        elif kind == "set_comment":
            c.comment = arg
        elif kind == "save":
            c.save(io.StringIO())
    return c


def _fresh_block(lineage):
    from scippneutron.io import cif

    b = None
    for kind, arg in lineage:
        if kind == "new":
            b = cif.Block(arg["name"], [dict(p) for p in arg["pairs"]])
        elif kind == "add":
            b.add(dict(arg))
        elif kind == "copy":
            b = b.copy()
        elif kind == "set_name":
            b.name = arg
    return b


def _lineage_summary(lineage):
    """What the lineage says about the saved text (independent of the implementation)."""
    name, comment = "", ""
    counts = {"beamline": 0, "powder": 0, "cal": 0}
    for kind, arg in lineage:
        if kind == "new":
            name, comment = arg["name"], arg.get("comment", "")
        elif kind == "set_name":
            name = arg
        elif kind == "set_comment":
            comment = arg
        elif kind in counts:
            counts[kind] += 1
    return name, comment, counts


_NAMES = ["", "blk", "other", "data-1"]
_PAIRS = st.lists(st.tuples(st.sampled_from(["a.x", "a.y", "b.z"]),
                            st.sampled_from(["v", "two words", "3.5"])).map(list),
                  min_size=1, max_size=2)


@st.composite
def s_cif_history(draw):
    nops = draw(st.integers(2, 8))
    ops = []
    for i in range(nops):
        kind = "new_cif" if i == 0 else draw(st.sampled_from(
            ["copy", "reducers", "cal", "beamline", "authors", "powder", "set_name", "block_add",
             "block_copy", "set_comment", "save", "new_block", "copy", "block_add",
             "block_set_name", "new_cif"]))
        # -1 = the object created last (seeded/C09-s9: a combinator that returns the builder itself
        # when there is nothing to add is only seen if the *result* is modified afterwards)
        op = {"op": kind, "i": draw(st.sampled_from([-1, -1, 0, 1, 2, 3, 4, 5]))}
        if kind == "new_cif":
            op.update(name=draw(st.sampled_from(_NAMES)), comment=draw(st.sampled_from(["", "c"])))
        elif kind == "authors":
            op["people"] = draw(st.one_of(st.just([]), _s_people(roles=False), _s_people(roles=False)))
        elif kind == "reducers":
            op["reducers"] = draw(st.lists(st.sampled_from(["r1 1.0", "r2", "r3 v2"]), min_size=0,
                                           max_size=2))
        elif kind == "beamline":
            op["beamline"] = {"name": draw(st.sampled_from(["DREAM", "POWGEN"])),
                              "facility": draw(st.sampled_from([None, "ESS", "SNS"]))}
        elif kind == "powder":
            op["powder"] = draw(_s_powder())
        elif kind == "cal":
            op["cal"] = draw(_s_calibration())
        elif kind in ("set_name", "block_set_name"):
            op["name"] = draw(st.sampled_from(_NAMES))
        elif kind == "set_comment":
            op["comment"] = draw(st.sampled_from(["", "changed", "two\nlines"]))
        elif kind == "new_block":
            op.update(name=draw(st.sampled_from(_NAMES)), pairs=draw(st.lists(_PAIRS, max_size=2)))
        elif kind == "block_add":
            op["pairs"] = draw(_PAIRS)
        ops.append(op)
    return {"ops": ops}


def check_cif_history(case):
    from scippneutron import metadata
    from scippneutron.io import cif

    clear_state()
    cifs, blocks = [], []       # [live object, lineage]
    labels = []
    derived = False
    for step, op in enumerate(case["ops"]):
        kind = op["op"]
        labels.append("op:" + kind)
        pick = cifs[op["i"] % len(cifs)] if cifs else None
        pickb = blocks[op["i"] % len(blocks)] if blocks else None
        if kind == "new_cif":
            arg = {"name": op["name"], "comment": op["comment"]}
            cifs.append([cif.CIF(op["name"], comment=op["comment"]), [("new", arg)]])
        elif kind == "new_block":
            arg = {"name": op["name"], "pairs": op["pairs"]}
            blocks.append([cif.Block(op["name"], [dict(p) for p in op["pairs"]]), [("new", arg)]])
        elif kind in ("authors", "reducers", "beamline", "powder", "cal", "copy"):
            if pick is None:
                continue
            c, lineage = pick
            if kind == "authors":
                c2, arg = c.with_authors(*build_people(op["people"])), op["people"]
            elif kind == "reducers":
                c2, arg = c.with_reducers(*op["reducers"]), op["reducers"]
            elif kind == "beamline":
                arg = op["beamline"]
                c2 = c.with_beamline(metadata.Beamline(name=arg["name"], facility=arg["facility"]))
            elif kind == "powder":
                c2, arg = c.with_reduced_powder_data(build_powder(op["powder"])), op["powder"]
            elif kind == "cal":
                c2, arg = c.with_powder_calibration(build_calibration(op["cal"])), op["cal"]
            else:
                c2, arg = c.copy(), None
            if c2 is c:
                # the builder has setters (name, comment): handing out the same object means that
                # whatever the caller does to the result happens to the original
                raise Violation("builder-aliased", f"step {step}: CIF.{'copy' if kind == 'copy' else 'with_' + kind}"
                                f"({arg!r}) returned the builder it was called on, not a new one")
            cifs.append([c2, [*lineage, (kind, arg)]])
            derived = True
        elif kind == "set_name" and pick is not None:
            pick[0].name = op["name"]
            pick[1].append(("set_name", op["name"]))
        elif kind == "set_comment" and pick is not None:
            pick[0].comment = op["comment"]
            pick[1].append(("set_comment", op["comment"]))
        elif kind == "save" and pick is not None:
            pick[0].save(io.StringIO())
            pick[1].append(("save", None))
        elif kind == "block_add" and pickb is not None:
            pickb[0].add(dict(op["pairs"]))
            pickb[1].append(("add", op["pairs"]))
        elif kind == "block_copy" and pickb is not None:
            b2 = pickb[0].copy()
            if b2 is pickb[0]:
                raise Violation("builder-aliased", f"step {step}: Block.copy() returned the block itself")
            blocks.append([b2, [*pickb[1], ("copy", None)]])
            derived = True
        elif kind == "block_set_name" and pickb is not None:
            pickb[0].name = op["name"]
            pickb[1].append(("set_name", op["name"]))
        # invariant: every live object saves what a fresh replay of its own lineage saves, and
        # what the lineage itself says (name, comment, number of items of each kind)
        for idx, (c, lineage) in enumerate(cifs):
            got, want = _render_cif(c), _render_cif(_fresh_cif(lineage))
            name, comment, n = _lineage_summary(lineage)
            counts = {"_diffrn_source.beamline ": n["beamline"], "_pd_calib_d_to_tof.id": n["cal"],
                      "_pd_data.point_id": n["powder"], f"data_{name}\n": 1}
            bad = [f"{tok!r} x{got.count(tok)} (expected {k})" for tok, k in counts.items()
                   if got.count(tok) != k]
            if c.name != name or c.comment != comment:
                bad.append(f"name/comment {c.name!r}/{c.comment!r} != {name!r}/{comment!r}")
            if got != want or bad:
                raise Violation(
                    "builder-state", f"after step {step}: CIF builder #{idx} does not save what "
                    f"its own construction history says; {'; '.join(bad) or _first_diff(got, want)}",
                    {"builder": idx, "lineage": lineage})
        for idx, (b, lineage) in enumerate(blocks):
            got, want = _render_block(b), _render_block(_fresh_block(lineage))
            name, _, _ = _lineage_summary(lineage)
            chunks = [arg["pairs"] for k, arg in lineage if k == "new"][0] + \
                [arg for k, arg in lineage if k == "add"]
            keys = sum(len(dict(p)) for p in chunks)
            have = sum(1 for ln in got.splitlines()
                       if ln.startswith("_") and not ln.startswith("_audit_conform"))
            if got != want or b.name != name or have != keys:
                raise Violation(
                    "builder-state", f"after step {step}: Block #{idx} ({len(chunks)} chunks, "
                    f"{keys} keys expected, {have} written) does not save what its own "
                    f"construction history says; {_first_diff(got, want)}",
                    {"block": idx, "lineage": lineage})
    return labels, derived


def _first_diff(a, b):
    la, lb = a.splitlines(), b.splitlines()
    for i, (x, y) in enumerate(zip(la, lb, strict=False)):
        if x != y:
            return f"line {i}: {x!r} vs expected {y!r}"
    return f"{len(la)} lines vs expected {len(lb)} lines"


# ----------------------------------------------------------------------------- CIF: repeated save


@st.composite
def s_cif_repeat(draw):
    return {"people": draw(_s_people(roles=True)),
            "reducers": draw(st.lists(st.sampled_from(["r1", "r2"]), max_size=2)),
            "via": draw(st.sampled_from(["save", "save_cif", "copy_then_save"])),
            "repeats": draw(st.integers(2, 3))}


def check_cif_repeat(case):
    from scippneutron.io import cif

    clear_state()
    c = cif.CIF("x").with_authors(*build_people(case["people"])).with_reducers(*case["reducers"])
    texts = []
    for _ in range(case["repeats"]):
        f = io.StringIO()
        if case["via"] == "save":
            c.save(f)
        elif case["via"] == "save_cif":
            cif.save_cif(f, c)
        else:
            c.copy().save(f)
        texts.append(_mask_date(f.getvalue()))
    labels = ["via:" + case["via"], f"people:{len(case['people'])}",
              "roles" if any(p["role"] for p in case["people"]) else "no-roles"]
    for k, t in enumerate(texts[1:], start=2):
        if t != texts[0]:
            raise Violation(
                "save-not-repeatable",
                f"saving the same CIF builder for the {k}. time writes a different file "
                f"({case['via']}): {_first_diff(t, texts[0])}",
                {"first": texts[0][-600:], "later": t[-600:]})
    return labels, bool(case["people"])


# ----------------------------------------------------------------------------- quadrature histories

_QUAD_SCRIPT = r"""
import json, sys
sys.path.insert(0, sys.argv[1])
import scipp as sc
from scippneutron.absorption import Cylinder

def mk(c):
    return Cylinder(sc.vector(c["axis"]), sc.vector(c["base"], unit="m"),
                    sc.scalar(float(c["r"]), unit="m"), sc.scalar(float(c["h"]), unit="m"))

spec = json.loads(sys.argv[2])
out = []
for c in spec["cyls"]:
    pts, w = mk(c).quadrature(spec["kind"])
    out.append({"p": [[float(x).hex() for x in row] for row in pts.values.tolist()],
                "w": [float(x).hex() for x in w.values.tolist()]})
print(json.dumps(out))
"""

_QUAD_SIZES = [(1.0, 1.0), (1.0, 3.0), (1.0, 0.3), (2.0, 10.0), (5.0, 1.0), (0.01, 0.04), (1.0, 1.5), (3.0, 1.0)]
_QUAD_AXES = [[0.0, 0.0, 1.0], [0.0, 1.0, 0.0], [0.6, 0.0, 0.8], [0.0, -0.6, -0.8]]


@st.composite
def s_quadrature_history(draw):
    def cyl():
        r, h = draw(st.sampled_from(_QUAD_SIZES))
        return {"r": r, "h": h, "axis": draw(st.sampled_from(_QUAD_AXES)),
                "base": [draw(st.sampled_from([0.0, 0.5, -2.0])) for _ in range(3)]}
    return {"kind": draw(st.sampled_from(["cheap", "medium", "medium", "expensive"])),
            "earlier": [cyl() for _ in range(draw(st.integers(1, 2)))], "last": cyl()}


def _quad_in_fresh_interpreter(spec):
    r = subprocess.run([sys.executable, "-c", _QUAD_SCRIPT, str(repo_src()), json.dumps(spec)],
                       capture_output=True, text=True, env=dict(os.environ, OMP_NUM_THREADS="1"))
    if r.returncode != 0:
        raise HarnessError("fresh-interpreter quadrature failed:\n" + r.stderr[-1500:])
    return json.loads(r.stdout.strip().splitlines()[-1])


def check_quadrature_history(case):
    """Cylinder.quadrature(kind) of a cylinder after other cylinders of other proportions have used the
    same kind in this process equals, bit for bit, what a fresh interpreter computes for that cylinder
    alone (seeded C09-s13: the assembled rule cached per kind although it depends on height/radius)."""
    import scipp as sc
    from scippneutron.absorption import Cylinder

    def mk(c):
        return Cylinder(sc.vector(c["axis"]), sc.vector(c["base"], unit="m"),
                        sc.scalar(float(c["r"]), unit="m"), sc.scalar(float(c["h"]), unit="m"))

    kind = case["kind"]
    for c in case["earlier"]:
        mk(c).quadrature(kind)
    pts, w = mk(case["last"]).quadrature(kind)
    fresh = _quad_in_fresh_interpreter({"kind": kind, "cyls": [case["last"]]})[0]
    got_p = [[float(x).hex() for x in row] for row in pts.values.tolist()]
    got_w = [float(x).hex() for x in w.values.tolist()]
    labels = ["kind:" + kind, f"earlier:{len(case['earlier'])}"]
    differs = any((c["r"], c["h"]) != (case["last"]["r"], case["last"]["h"]) for c in case["earlier"])
    if differs:
        labels.append("earlier-cylinder-of-other-proportions")
    if len(got_w) != len(fresh["w"]):
        raise Violation("history-dependent", f"Cylinder.quadrature({kind!r}) of r={case['last']['r']}, h={case['last']['h']} "
                                             f"has {len(got_w)} points after {[(c['r'], c['h']) for c in case['earlier']]} "
                                             f"used the same kind, {len(fresh['w'])} in a fresh interpreter")
    if got_p != fresh["p"] or got_w != fresh["w"]:
        raise Violation("history-dependent", f"Cylinder.quadrature({kind!r}) of r={case['last']['r']}, h={case['last']['h']} "
                                             f"differs from a fresh interpreter after earlier calls with "
                                             f"{[(c['r'], c['h']) for c in case['earlier']]}")
    return labels, differs

# ============================================================================= registry meta-check

# module (relative to scippneutron) -> how public names are found ('all' = __all__)
MODULES = [
    "conversion.tof", "conversion.beamline", "conversion.graph.tof", "conversion.graph.beamline",
    "core.conversions", "beamline_components", "chopper.disk_chopper", "chopper.filtering",
    "chopper.nexus_chopper", "tof.chopper_cascade", "tof.diagram", "peaks", "peaks.model",
    "absorption.cylinder", "absorption.base", "absorption.material", "absorption.types",
    "io.xye", "io.cif", "io.sqw", "atoms",
]
_DUNDERS = ("__call__", "__eq__", "__add__", "__getitem__", "__setitem__", "__len__", "__str__")

# names covered by the history facets (Part B) rather than by a Part A recipe
HISTORY_COVERS = {
    **{_GT + f: "hist_graphs" for f in _TOF_FACTORIES},
    **{_GB + f: "hist_graphs" for f in _BEAMLINE_FACTORIES},
}

# Public names deliberately without a recipe.  Every entry needs a reason.
EXCLUDED = {
    # abstract base classes: cannot be instantiated; their concrete methods are exercised
    # through the subclasses (keys 'peaks.model.Model.*', 'absorption.cylinder.Cylinder.*')
    "peaks.model.Model": "abstract base class (methods covered through subclasses)",
    "absorption.types.SampleShape": "abstract interface",
    "absorption.types.SampleShape.beam_intersection": "abstract method",
    "absorption.types.SampleShape.volume": "abstract property",
    "absorption.types.SampleShape.quadrature": "abstract method",
    # plain parameter records without methods (dataclasses with float fields only)
    "peaks.FitParameters": "record of two floats, no methods",
    "peaks.FitRequirements": "record of three floats, no methods",
    "io.sqw.SqwFileHeader": "frozen record produced by the reader, no methods",
    "io.sqw.Sqw": "constructed only by Sqw.open (takes the internal LowLevelSqw handle)",
    # sentinel type with a __repr__ only
    "io.xye.GenerateHeaderType": "sentinel type",
}


def _member_keys(modname, cls, public_classes):
    """Keys 'module.DefiningClass.attr' for the public computational members of a class."""
    import enum

    if issubclass(cls, enum.Enum) or issubclass(cls, BaseException) or issubclass(cls, dict):
        return None     # enums / exceptions / TypedDicts: no computational entry point
    keys = []
    for attr in sorted(set(dir(cls))):
        if attr.startswith("_") and attr not in _DUNDERS:
            continue
        owner = next((k for k in cls.__mro__ if attr in k.__dict__), None)
        if owner is None or not owner.__module__.startswith("scippneutron"):
            continue
        raw = owner.__dict__[attr]
        fn = raw.__func__ if isinstance(raw, classmethod | staticmethod) else raw
        fn = getattr(fn, "__wrapped__", fn) if not isinstance(fn, property) else fn
        if isinstance(fn, property):
            fn = fn.fget
        if not inspect.isfunction(fn):
            continue                      # dataclass fields, class variables
        if not fn.__code__.co_filename.startswith(str(repo_src())):
            continue                      # generated by @dataclass (e.g. __eq__): no source file
        owner_name = owner.__name__ if owner in public_classes or owner is cls or \
            not owner.__name__.startswith("_") else cls.__name__
        if owner is not cls and owner not in public_classes and owner.__name__.startswith("_"):
            owner_name = cls.__name__     # private base (e.g. _CIFBase): attribute of the subclass
        keys.append(f"{modname}.{owner_name}.{attr}")
    return keys


def discover_public_names():
    """Public callables of the modules under the property, as registry keys."""
    found = {}
    skipped = []
    for modname in MODULES:
        mod = importlib.import_module("scippneutron." + modname)
        names = getattr(mod, "__all__", None)
        objs = {}
        for n in sorted(names if names is not None else dir(mod)):
            if n.startswith("_"):
                continue
            o = getattr(mod, n)
            if inspect.ismodule(o) or not callable(o):
                continue
            home = getattr(o, "__module__", "") or ""
            if names is None and not home.startswith("scippneutron." + modname):
                continue                  # imported from elsewhere (scipp, typing, ...)
            objs[n] = o
        public_classes = {o for o in objs.values() if inspect.isclass(o)}
        if modname == "io.sqw":           # the serialisation base class lives in a private module
            from scippneutron.io.sqw import _ir
            public_classes.add(_ir.Serializable)
        for n, o in objs.items():
            if inspect.isclass(o):
                members = _member_keys(modname, o, public_classes)
                if members is None:
                    skipped.append(f"{modname}.{n}")
                    continue
                found[f"{modname}.{n}"] = "class"
                for k in members:
                    found[k] = "member"
            else:
                found[f"{modname}.{n}"] = "function"
    return found, skipped


def registry():
    reg = {}
    for r in RECIPES.values():
        for name in r.covers:
            reg.setdefault(name, []).append("recipe:" + r.key)
    for name, facet in HISTORY_COVERS.items():
        reg.setdefault(name, []).append("history:" + facet)
    return reg


def check_registry(case):
    found, skipped = discover_public_names()
    reg = registry()
    missing = sorted(set(found) - set(reg) - set(EXCLUDED))
    # A public name without a recipe is reported in the evidence (label UNCOVERED-NEW) but is not
    # fatal: a harmless refactoring that adds a public helper must not break the check.
    # entries that no longer name anything public (removed upstream) are reported, not fatal:
    # the recipe that calls them fails on its own if the callable is really gone
    stale = sorted((set(reg) | set(EXCLUDED)) - set(found))
    both = sorted(set(reg) & set(EXCLUDED))
    if both:
        raise HarnessError("names both covered and excluded: " + ", ".join(both))
    labels = [f"covered:{len(reg)}", f"public:{len(found)}"]
    labels += ["uncovered(excluded):" + n for n in sorted(EXCLUDED)]
    labels += ["skipped(enum/typeddict/exception):" + n for n in skipped]
    labels += ["stale-registry-entry:" + n for n in stale]
    labels += ["UNCOVERED-NEW:" + n for n in missing]
    return labels, True


# ============================================================================= facets


def _sp_mutation_before_lookup(case):
    """True iff a ScatteringParams object was mutated and the same isotope looked up afterwards
    or kept (every step re-checks all names seen so far)."""
    kept = []
    for op in case.get("ops", []):
        if op["op"] == "lookup":
            kept.append(op)
        elif kept and kept[op["i"] % len(kept)]["api"] == "ScatteringParams":
            return True
    return False


MATCHERS = {
    # ScatteringParams.for_isotope hands out the lru_cached object; its Variables are mutable
    "C09.scattering_params_cached_mutable":
        lambda case, v: v.kind == "stale-lookup" and (v.details or {}).get("api") == "ScatteringParams"
        and _sp_mutation_before_lookup(case),
    # CIF.save draws author ids from a generator owned by the builder: each save advances it
    "C09.cif_save_consumes_author_ids":
        lambda case, v: v.kind == "save-not-repeatable" and case.get("via") in ("save", "save_cif")
        and any(p["role"] for p in case.get("people", [])),
}

_ARGS_DOC = "deep snapshot of every argument (and self) before each call, identity after: "

FACETS = [
    Facet("args_conversion", check_recipe, strategy=lambda tier: group_strategy("conversion"),
          quick=(2, 250), thorough=(16, 1500), min_nontrivial=0.2,
          doc=_ARGS_DOC + "conversion.tof, conversion.beamline, core, beamline_components"),
    Facet("args_chopper_tof", check_recipe, strategy=lambda tier: group_strategy("chopper_tof"),
          quick=(3, 80), thorough=(16, 600), min_nontrivial=0.2,
          doc=_ARGS_DOC + "DiskChopper, filtering, NeXus extraction, chopper cascade"),
    Facet("args_peaks", check_recipe, strategy=lambda tier: group_strategy("peaks"),
          quick=(3, 60), thorough=(16, 400), min_nontrivial=0.2,
          doc=_ARGS_DOC + "peak models, FitResult, fit_peaks, remove_peaks"),
    Facet("args_absorption_atoms", check_recipe,
          strategy=lambda tier: group_strategy("absorption_atoms"),
          quick=(1, 200), thorough=(16, 600), min_nontrivial=0.2,
          doc=_ARGS_DOC + "Cylinder, Material, compute_transmission_map, atoms lookups"),
    Facet("args_io", check_recipe, strategy=lambda tier: group_strategy("io"),
          quick=(3, 60), thorough=(16, 300), min_nontrivial=0.2,
          doc=_ARGS_DOC + "XYE, CIF objects and builder, SQW writer/reader"),
    Facet("hist_graphs", check_graph_history, strategy=lambda tier: s_graph_history(),
          quick=(2, 125), thorough=(16, 400), min_nontrivial=0.3,
          doc="graph factories / conversion_graph after mutating earlier results, vs a snapshot "
              "from a fresh interpreter"),
    Facet("hist_atoms", check_atom_history,
          strategy=lambda tier: _s_atom_history(["Atom", "Atom", "reference_wavelength"]),
          quick=(1, 300), thorough=(16, 1500), min_nontrivial=0.3,
          doc="Atom.for_isotope / reference_wavelength after mutating earlier results, vs the CSV"),
    Facet("hist_scattering_params", check_atom_history,
          strategy=lambda tier: _s_atom_history(["ScatteringParams"]),
          quick=(1, 300), thorough=(16, 1500), min_nontrivial=0.3,
          doc="ScatteringParams.for_isotope after mutating earlier results, vs the CSV"),
    Facet("hist_models", check_model_history, strategy=lambda tier: s_model_history(),
          quick=(2, 200), thorough=(16, 2000), min_nontrivial=0.3,
          doc="model constructors, with_prefix, +, param_names, param_bounds under mutation of "
              "the returned sets/dicts, vs the constructor arguments"),
    Facet("hist_cif", check_cif_history, strategy=lambda tier: s_cif_history(),
          quick=(2, 150), thorough=(16, 500), min_nontrivial=0.3,
          doc="CIF / Block builders: derived builders and setters must not change their "
              "ancestors; each builder saves what its own lineage says"),
    Facet("hist_quadrature", check_quadrature_history, strategy=lambda tier: s_quadrature_history(),
          quick=(3, 6), thorough=(16, 25), min_nontrivial=0.3,
          doc="Cylinder.quadrature after other cylinders used the same kind vs a fresh interpreter"),
    Facet("cif_save_repeat", check_cif_repeat, strategy=lambda tier: s_cif_repeat(),
          quick=(1, 100), thorough=(4, 500), min_nontrivial=0.3,
          doc="saving the same builder repeatedly writes the same file (creation date masked)"),
    Facet("registry_meta", check_registry, enumerate=lambda tier, seed: [{"meta": "registry"}],
          quick=(1, 0), thorough=(1, 0), exhaustive_in=("quick", "thorough"), min_nontrivial=0.0,
          doc="every public callable of the modules has a recipe or a commented exclusion"),
]


def selftest():
    import scipp as sc

    snapshot.selftest()
    csvtab.selftest()
    # the watcher must notice an in-place change of an argument, also when the call raises
    v = sc.array(dims=["x"], values=[1.0, 2.0], unit="m")

    def bad(x):
        x *= 2.0
        return x

    def bad_raising(x):
        x += x
        raise ValueError("boom")

    for fn in (bad, bad_raising):
        W = Watch(["t"])
        try:
            W.call("t", fn, v, allowed=(ValueError,))
        except Violation as e:
            assert e.kind == "argument-modified", e
        else:
            raise AssertionError("watcher missed an in-place modification")
    W = Watch(["t"])
    assert W.call("t", lambda x: x * 2.0, v) is not None and W.completed == 1
    # expectations used by the model history
    spec = {"kind": "comp", "prefix": "z", "left": {"kind": "leaf", "cls": "GaussianModel",
            "degree": 1, "prefix": "a_"}, "right": {"kind": "leaf", "cls": "PolynomialModel",
            "degree": 1, "prefix": ""}}
    assert _spec_names(spec) == {"za_amplitude", "za_loc", "za_scale", "za0", "za1"}
    assert _spec_bounds(spec) == {"za_scale": (0.0, math.inf)}
    # CSV-derived expectation of a hand-checked row
    gd = [_cell_var(c, _SP_UNITS[f]) for f, c in
          zip(_SP_FIELDS, csvtab.expect_scattering("157Gd"), strict=True)]
    assert gd[7].value == 259000.0 and gd[7].variance == 490000.0 and str(gd[7].unit) == "barn"
    assert gd[0].variance is None and gd[0].value == -1.14
