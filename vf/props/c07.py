"""C07 — kernels are unit-equivariant and keep the documented dtype contract.

Enumerated: per kernel the Cartesian grid (unit per argument) x (dtype per argument).  Every grid
point is compared with the closed form in 50-digit arithmetic evaluated on the *stored* operand
values converted exactly to SI, so two grid points that express the same physical input in different
units are compared through the common physical reference (equivariance by transitivity).
"""

import random
from collections.abc import Sequence
from functools import lru_cache

import mpmath as mp
import numpy as np

from ..core import Facet, Violation
from ..ref import kin, units
from .c01 import TOL, in_f32_range

PROPERTY = "C07"
RULE = (
    "Enumerated, per kernel, over the full Cartesian grid of (unit per argument) x (dtype per argument "
    "in float64/float32/int64/int32); the thorough tier visits every grid point, the quick tier every "
    "point of kernels with <= 3000 points and a seeded 3000-point sample (random.Random(seed), index 0 "
    "always included) of the larger ones (gravity functions: 2000 of 3840; the three finding facets "
    "400-600). Vector operands (beams, gravity) vary in unit only; pulse_time/tof of "
    "time_at_sample_from_tof vary jointly. Each point "
    "carries three values per operand (dimension x): float operands are a fixed physically sensible "
    "SI triple expressed in the operand's unit and rounded to its dtype, integer operands are integers "
    "in their own unit, < 2**15. Oracle: closed forms in 50-digit arithmetic on the stored values "
    "(exact unit factors, h/m_n/g from scipp.constants); value tolerance by the coarsest floating "
    "operand; output unit is the documented one; dtype is float32 iff the data operand(s) are float32. "
    "A point is non-trivial when the kernel returned (not the allowed int32 'pow' DTypeError), unit "
    "and dtype of the result were checked, and at least two operand attributes deviate from the "
    "defaults (an operand not in its default unit counts one, an operand that is not float64 counts "
    "one). Distinct = distinct descriptor hash."
)
TOLERANCES = {
    "float64_rel": 1e-11,
    "float32_rel": 1e-5,
    "note": "relative to the result; for sums/differences (inelastic, time_at_sample, propagate_times) "
            "relative to the forward-error scale sum|terms| (+ 2 (t+t0)/|t-t0| amplification for the "
            "inelastic kernels); class = float32 if any operand is float32",
}
ASSUMPTIONS = [
    "mpmath at 50 digits is exact enough to serve as ground truth for 1e-11",
    "points with a float32 operand whose stored inputs, their squares, or the reference result / "
    "intermediates leave [1e-18, 1e18] are checked for unit and dtype but not for value "
    "(underflow/overflow of single-precision intermediates is not part of the property)",
    "time_at_sample_from_tof: pulse_time and tof share unit and dtype (the kernel adds them; scipp "
    "addition requires identical units)",
    "inelastic points whose reference t - t0 is within 1e-4 (relative to t + t0) of zero are not "
    "compared (NaN boundary belongs to C05)",
    "vector operands (beams, gravity) exist only as float64 in scipp; their dtype is not varied",
    "generic-path two_theta of scattering_angles_with_gravity is compared with the same call in "
    "default units (metamorphic) rather than with the documented construction, because the sign of "
    "the raised beam on that path is C04's subject; phi on that path is compared with the reference",
]

DTYPES = ["float64", "float32", "int64", "int32"]

T_UNITS = ["s", "ms", "us", "ns"]
L_UNITS = ["m", "mm", "cm", "km", "angstrom"]
WL_UNITS = ["angstrom", "m", "mm", "cm", "km"]     # same set, default first
E_UNITS = ["meV", "ueV", "eV", "J"]
Q_UNITS = ["1/angstrom", "1/nm", "1/m", "1/cm"]
A_UNITS = ["rad", "deg"]
G_UNITS = {"m/s^2": mp.mpf(1), "cm/s^2": mp.mpf(1) / 100, "mm/s^2": mp.mpf(1) / 1000,
           "m/ms^2": mp.mpf(10) ** 6}
BEAM_UNITS = ["m", "mm", "cm", "km"]

# role -> (unit list, default unit, sensible SI triple)
_MEV = units.ENERGY["meV"]
ROLES = {
    "tof": (T_UNITS, "s", ["0.0125", "0.031", "0.0049"]),
    "pulse_time": (T_UNITS, "s", ["0.25", "1.5", "0.005"]),
    "time": (T_UNITS, "s", ["0.0025", "0.0005", "0.007"]),
    "Ltotal": (L_UNITS, "m", ["23.0", "34.75", "15.75"]),
    "L1": (L_UNITS, "m", ["20.0", "32.5", "11.25"]),
    "L2": (L_UNITS, "m", ["3.0", "2.25", "4.5"]),
    "distance": (L_UNITS, "m", ["6.5", "18.0", "77.0"]),
    "wavelength": (WL_UNITS, "angstrom", ["1.8e-10", "4.2e-10", "0.9e-10"]),
    "energy": (E_UNITS, "meV", [_MEV * 20, _MEV * mp.mpf("7.5"), _MEV * 55]),
    "Q": (Q_UNITS, "1/angstrom", ["1.25e10", "3.5e10", "0.4e10"]),
    "two_theta": (A_UNITS, "rad", ["0.31", "1.23", "2.74"]),
    # long wavelengths so that the gravity drop is not negligible
    "wavelength_g": (WL_UNITS, "angstrom", ["9.5e-10", "14.0e-10", "21.5e-10"]),
}
INT_HI = {"rad": 3, "deg": 179}


@lru_cache(maxsize=None)
def values_for(role: str, unit: str, dtype: str) -> tuple:
    """Pure: the three stored values (as python floats/ints) of an operand."""
    _, _, si = ROLES[role]
    f = units.ALL[unit]
    out = []
    for i, s in enumerate(si):
        x = mp.mpf(s) / f
        if dtype.startswith("int"):
            hi = INT_HI.get(unit, 32767)
            v = int(mp.floor(x + mp.mpf("0.5"))) if x < 10**6 else 10**6
            v = max(v, 1 + i)
            v = min(v, hi - (2 - i))
            out.append(int(v))
        elif dtype == "float32":
            out.append(float(np.float32(float(x))))
        else:
            out.append(float(x))
    return tuple(out)


# --------------------------------------------------------------------------- references (SI in/out)


def _ref_plain(v):
    return {"value": v, "scale": abs(v), "aux": []}


def ref_inelastic(kind, t, L1, L2, E):
    """Delta E (J) for direct / indirect geometry; value None = NaN expected; skip = boundary."""
    m = kin.consts()["m_n"]
    if kind == "direct":
        t0 = L1 * mp.sqrt(m / (2 * E))
        Lo = L2
    else:
        t0 = L2 * mp.sqrt(m / (2 * E))
        Lo = L1
    dt = t - t0
    if abs(dt) <= mp.mpf("1e-4") * (t + t0):
        return {"skip": True}
    if dt < 0:
        return {"value": None, "aux": [t0]}
    term = m * Lo * Lo / (2 * dt * dt)
    value = E - term if kind == "direct" else term - E
    scale = abs(E) + term * (1 + 2 * (t + t0) / dt)
    return {"value": value, "scale": scale, "aux_energy": [term], "aux_time": [t0, dt]}


def ref_time_at_sample(tp, t, L2, lam):
    flight = L2 * kin.inverse_velocity_from_wavelength(lam)
    return {"value": tp + t - flight, "scale": abs(tp) + abs(t) + abs(flight), "aux": [flight]}


def ref_propagate(t, lam, d):
    flight = d * kin.inverse_velocity_from_wavelength(lam)
    return {"value": t + flight, "scale": abs(t) + abs(flight), "aux": [flight]}


def ref_gravity(b1, b2, g, lam):
    """Documented construction (module docs of conversion.beamline), everything in SI."""
    gn = kin.norm(g)
    ey = [-x / gn for x in g]
    p = kin.dot(b1, ey)
    zproj = [a - p * e for a, e in zip(b1, ey, strict=True)]
    zn = kin.norm(zproj)
    ez = [x / zn for x in zproj]
    ex = kin.cross(ey, ez)
    xd, yd, zd = kin.dot(b2, ex), kin.dot(b2, ey), kin.dot(b2, ez)
    delta = kin.gravity_drop(gn, lam, kin.norm(b2))
    yp = yd + delta
    raised = [b + delta * e for b, e in zip(b2, ey, strict=True)]
    return {
        "phi": mp.atan2(yp, xd),
        "two_theta": kin.kahan_angle(b1, raised),
        "two_theta_orth": mp.atan2(mp.sqrt(xd * xd + yp * yp), zd),
        "gamma": mp.atan2(abs(yp), zd),
        "delta": delta,
        "yd": yd,
    }


# --------------------------------------------------------------------------- kernel table

# name -> dict(ops=[(argument name, role)], data=[argument names], out=unit rule, fn=reference,
#              family, plain=bool (no float32 selection in the code: dtype clause in its own facet))


def _elastic(ops, data, out, fn):
    return {"ops": ops, "data": [data], "out": out, "fn": fn, "family": "elastic", "plain": False}


def _specs():
    k = kin
    P = _ref_plain
    s = {
        "wavelength_from_tof": _elastic(
            [("tof", "tof"), ("Ltotal", "Ltotal")], "tof", "angstrom",
            lambda a: P(k.wavelength_from_tof(a["tof"], a["Ltotal"]))),
        "dspacing_from_tof": _elastic(
            [("tof", "tof"), ("Ltotal", "Ltotal"), ("two_theta", "two_theta")], "tof", "angstrom",
            lambda a: P(k.dspacing_from_wavelength(
                k.wavelength_from_tof(a["tof"], a["Ltotal"]), a["two_theta"]))),
        "energy_from_tof": _elastic(
            [("tof", "tof"), ("Ltotal", "Ltotal")], "tof", "meV",
            lambda a: P(k.energy_from_tof(a["tof"], a["Ltotal"]))),
        "energy_from_wavelength": _elastic(
            [("wavelength", "wavelength")], "wavelength", "meV",
            lambda a: P(k.energy_from_wavelength(a["wavelength"]))),
        "wavelength_from_energy": _elastic(
            [("energy", "energy")], "energy", "angstrom",
            lambda a: P(k.wavelength_from_energy(a["energy"]))),
        "Q_from_wavelength": _elastic(
            [("wavelength", "wavelength"), ("two_theta", "two_theta")], "wavelength", "1/wavelength",
            lambda a: P(k.Q_from_wavelength(a["wavelength"], a["two_theta"]))),
        "wavelength_from_Q": _elastic(
            [("Q", "Q"), ("two_theta", "two_theta")], "Q", "angstrom",
            lambda a: P(4 * mp.pi * mp.sin(a["two_theta"] / 2) / a["Q"])),
        "dspacing_from_wavelength": _elastic(
            [("wavelength", "wavelength"), ("two_theta", "two_theta")], "wavelength", "angstrom",
            lambda a: P(k.dspacing_from_wavelength(a["wavelength"], a["two_theta"]))),
        "dspacing_from_energy": _elastic(
            [("energy", "energy"), ("two_theta", "two_theta")], "energy", "angstrom",
            lambda a: P(k.dspacing_from_wavelength(
                k.wavelength_from_energy(a["energy"]), a["two_theta"]))),
        "energy_transfer_direct_from_tof": {
            "ops": [("tof", "tof"), ("L1", "L1"), ("L2", "L2"), ("incident_energy", "energy")],
            "data": ["tof", "incident_energy"], "out": "=incident_energy", "family": "inelastic",
            "plain": False,
            "fn": lambda a: ref_inelastic("direct", a["tof"], a["L1"], a["L2"], a["incident_energy"]),
        },
        "energy_transfer_indirect_from_tof": {
            "ops": [("tof", "tof"), ("L1", "L1"), ("L2", "L2"), ("final_energy", "energy")],
            "data": ["tof", "final_energy"], "out": "=final_energy", "family": "inelastic",
            "plain": False,
            "fn": lambda a: ref_inelastic("indirect", a["tof"], a["L1"], a["L2"], a["final_energy"]),
        },
        "time_at_sample_from_tof": {
            "ops": [("pulse_time", "pulse_time"), ("tof", "tof"), ("L2", "L2"),
                    ("wavelength", "wavelength")],
            "data": ["tof"], "out": "=tof", "family": "time_at_sample", "plain": True,
            "joint": ("pulse_time", "tof"),
            "fn": lambda a: ref_time_at_sample(a["pulse_time"], a["tof"], a["L2"], a["wavelength"]),
        },
        "wavelength_to_inverse_velocity": {
            "ops": [("wavelength", "wavelength")], "data": ["wavelength"], "out": "s/m",
            "family": "chopper", "plain": True,
            "fn": lambda a: P(k.inverse_velocity_from_wavelength(a["wavelength"])),
        },
        "propagate_times": {
            "ops": [("time", "time"), ("wavelength", "wavelength"), ("distance", "distance")],
            "data": ["time"], "out": "=time", "family": "chopper", "plain": True,
            "fn": lambda a: ref_propagate(a["time"], a["wavelength"], a["distance"]),
        },
    }
    return s


SPECS = _specs()
PLAIN_KERNELS = tuple(sorted(n for n, s in SPECS.items() if s["plain"]))
GRAVITY_KERNELS = ("scattering_angles_with_gravity:orthogonal",
                   "scattering_angles_with_gravity:generic",
                   "scattering_angle_in_yz_plane")


def _call(kernel, args):
    from scippneutron.conversion import tof as K
    from scippneutron.tof import chopper_cascade as CC

    if kernel == "wavelength_to_inverse_velocity":
        return CC.wavelength_to_inverse_velocity(args["wavelength"])
    if kernel == "propagate_times":
        return CC.propagate_times(args["time"], args["wavelength"], args["distance"])
    return getattr(K, kernel)(**args)


# --------------------------------------------------------------------------- lazy enumerations


class LazyCases(Sequence):
    """List-like of case descriptors built on demand from compact keys (pure, no state)."""

    def __init__(self, keys, build):
        self.keys = keys
        self.build = build

    def __len__(self):
        return len(self.keys)

    def __getitem__(self, i):
        if isinstance(i, slice):
            return LazyCases(self.keys[i], self.build)
        return self.build(self.keys[i])


def _decode(idx, radices):
    out = []
    for r in reversed(radices):
        out.append(idx % r)
        idx //= r
    return out[::-1]


def _axes(kernel, unit_override=None, dtype_override=None):
    """Axes of the grid of a scalar kernel: list of (argument, 'unit'|'dtype', choices).

    Operands named in spec['joint'] share one unit axis and one dtype axis."""
    spec = SPECS[kernel]
    joint = spec.get("joint", ())
    axes = []
    for arg, role in spec["ops"]:
        if arg in joint and arg != joint[0]:
            continue
        ulist = (unit_override or {}).get(arg, ROLES[role][0])
        dlist = (dtype_override or {}).get(arg, DTYPES)
        axes.append((arg, "unit", list(ulist)))
        axes.append((arg, "dtype", list(dlist)))
    return axes


def _build_scalar(kernel, axes, idx):
    spec = SPECS[kernel]
    joint = spec.get("joint", ())
    choice = {}
    for (arg, what, choices), j in zip(axes, _decode(idx, [len(a[2]) for a in axes]), strict=True):
        choice[(arg, what)] = choices[j]
    ops = {}
    for arg, role in spec["ops"]:
        src = joint[0] if arg in joint else arg
        unit, dtype = choice[(src, "unit")], choice[(src, "dtype")]
        ops[arg] = {"unit": unit, "dtype": dtype, "values": list(values_for(role, unit, dtype))}
    return {"kernel": kernel, "ops": ops}


def _grid_size(axes):
    n = 1
    for a in axes:
        n *= len(a[2])
    return n


QUICK_CAP = 3000


def _scalar_cases(kernels, tier, seed, unit_override=None, dtype_override=None, cap=QUICK_CAP):
    axes_of = {k: _axes(k, (unit_override or {}).get(k), (dtype_override or {}).get(k))
               for k in kernels}
    keys = []
    for kpos, k in enumerate(kernels):
        n = _grid_size(axes_of[k])
        if tier == "quick" and n > cap:
            rng = random.Random(seed * 1000003 + kpos)      # pure function of the seed
            idxs = sorted({0, *rng.sample(range(1, n), cap - 1)})   # 0 = first choice on every axis
        else:
            idxs = range(n)
        keys.extend((k, i) for i in idxs)
    return LazyCases(keys, lambda key: _build_scalar(key[0], axes_of[key[0]], key[1]))


ELASTIC = tuple(n for n, s in SPECS.items() if s["family"] == "elastic")
INELASTIC = tuple(n for n, s in SPECS.items() if s["family"] == "inelastic")
CHOPPER = tuple(n for n, s in SPECS.items() if s["family"] == "chopper")


def enum_elastic(tier, seed):
    return _scalar_cases(ELASTIC, tier, seed)


def enum_inelastic(tier, seed):
    return _scalar_cases(INELASTIC, tier, seed)


def enum_time_at_sample(tier, seed):
    # wavelength in angstrom only here; other wavelength units: facet time_at_sample_wavelength_unit
    return _scalar_cases(["time_at_sample_from_tof"], tier, seed,
                         unit_override={"time_at_sample_from_tof": {"wavelength": ["angstrom"]}})


def enum_time_at_sample_wl_unit(tier, seed):
    return _scalar_cases(
        ["time_at_sample_from_tof"], tier, seed,
        unit_override={"time_at_sample_from_tof": {"wavelength": [u for u in WL_UNITS if u != "angstrom"]}},
        cap=600)


def enum_chopper(tier, seed):
    return _scalar_cases(CHOPPER, tier, seed)


def enum_plain_f32(tier, seed):
    over = {k: {SPECS[k].get("joint", SPECS[k]["data"])[0]: ["float32"]} for k in PLAIN_KERNELS}
    # data operand float32 (for time_at_sample the joint pair pulse_time/tof)
    uo = {"time_at_sample_from_tof": {"wavelength": ["angstrom"]}}
    return _scalar_cases(list(PLAIN_KERNELS), tier, seed, unit_override=uo, dtype_override=over, cap=400)


# gravity: vectors are float64 only; axes = units of the four operands, wavelength dtype, layout

_B1 = {"orthogonal": ["1.5", "0", "40.0"], "generic": ["1.5", "-2.25", "40.0"]}
_G = {"orthogonal": ["0", "-9.81", "0"], "generic": ["0.5", "-9.7", "1.1"]}
_B2 = [["7.5", "-4.25", "28.0"], ["-3.5", "6.0", "19.5"], ["5.25", "2.75", "-12.0"]]


def _gravity_axes(wl_dtypes):
    return [
        ("kernel", list(GRAVITY_KERNELS)),
        ("layout", ["x", "det"]),
        ("incident_beam", BEAM_UNITS),
        ("scattered_beam", BEAM_UNITS),
        ("gravity", list(G_UNITS)),
        ("wavelength", WL_UNITS),
        ("wl_dtype", list(wl_dtypes)),
    ]


def _vec_in(si, factor):
    return [float(mp.mpf(s) / factor) for s in si]


def _build_gravity(axes, idx):
    c = {name: ch[j] for (name, ch), j in zip(axes, _decode(idx, [len(a[1]) for a in axes]), strict=True)}
    path = "generic" if c["kernel"].endswith(":generic") else "orthogonal"
    ub1, ub2, ug, uw = c["incident_beam"], c["scattered_beam"], c["gravity"], c["wavelength"]
    return {
        "kernel": c["kernel"],
        "layout": c["layout"],
        "ops": {
            "incident_beam": {"unit": ub1, "values": _vec_in(_B1[path], units.ALL[ub1])},
            "scattered_beam": {"unit": ub2, "values": [_vec_in(v, units.ALL[ub2]) for v in _B2]},
            "gravity": {"unit": ug, "values": _vec_in(_G[path], G_UNITS[ug])},
            "wavelength": {"unit": uw, "dtype": c["wl_dtype"],
                           "values": list(values_for("wavelength_g", uw, c["wl_dtype"]))},
        },
    }


def _gravity_cases(wl_dtypes, tier, seed, cap):
    axes = _gravity_axes(wl_dtypes)
    n = 1
    for a in axes:
        n *= len(a[1])
    if tier == "quick" and n > cap:
        idxs = sorted({0, *random.Random(seed * 1000003 + 77).sample(range(1, n), cap - 1)})
    else:
        idxs = range(n)
    return LazyCases(list(idxs), lambda i: _build_gravity(axes, i))


def enum_gravity(tier, seed):
    return _gravity_cases(["float64", "float32"], tier, seed, 2000)


def enum_gravity_int(tier, seed):
    return _gravity_cases(["int64", "int32"], tier, seed, 600)


# --------------------------------------------------------------------------- building and checking


def build_op(op):
    import scipp as sc

    return sc.array(dims=["x"], values=np.asarray(op["values"], dtype=op["dtype"]),
                    unit=op["unit"], dtype=op["dtype"])


DEFAULT_UNIT = {arg: ROLES[role][1] for s in SPECS.values() for arg, role in s["ops"]}
DEFAULT_UNIT.update({"incident_beam": "m", "scattered_beam": "m", "gravity": "m/s^2"})


def _labels(case):
    labs = ["kernel:" + case["kernel"]]
    deviations = 0
    nondefault = 0
    for name, op in case["ops"].items():
        if "dtype" in op:
            labs.append(f"{name}:{op['dtype']}")
            if op["dtype"] != "float64":
                deviations += 1
        if op["unit"] != DEFAULT_UNIT[name]:
            nondefault += 1
    labs.append(f"non-default-units:{nondefault}")
    return labs, deviations + nondefault


def _out_factor(unit):
    if unit in units.ALL:
        return units.ALL[unit]
    if unit == "s/m":
        return mp.mpf(1)
    raise KeyError(unit)


def _tol_class(ops):
    return "float32" if any(op.get("dtype") == "float32" for op in ops.values()) else "float64"


def _expected_dtype(spec, ops):
    return "float32" if all(ops[d]["dtype"] == "float32" for d in spec["data"]) else "float64"


def _out_unit(spec, ops):
    out = spec["out"]
    if out.startswith("="):
        return ops[out[1:]]["unit"]
    if out == "1/wavelength":
        return "1/" + ops["wavelength"]["unit"]
    return out


def _is_allowed_int32_failure(exc, ops) -> bool:
    return "'pow'" in str(exc) and any(op.get("dtype") == "int32" for op in ops.values())


def in_f32_normal(x) -> bool:
    """Representable as a normal float32 with a little head room."""
    ax = abs(x)
    return ax == 0 or (mp.mpf("1e-36") <= ax <= mp.mpf("1e36"))


def _f32_inputs_in_range(ops) -> bool:
    """Single-precision cases are value-checked only if every stored operand is a normal float32 and
    the operands the formulas square (times, lengths, wavelengths; not energies or angles) have
    squares in range as well.  (An earlier version also required energies to lie in [1e-18, 1e18];
    that skipped every energy given in J and hid a seeded float32 underflow, seeded/C07-s2.)"""
    for name, op in ops.items():
        if "dtype" not in op:
            continue
        squared = "energy" not in name and "theta" not in name
        for v in op["values"]:
            x = mp.mpf(v)
            if not in_f32_normal(x) or (squared and not in_f32_range(x)):
                return False
    return True


def _unit_equal(got_unit, expected: str) -> bool:
    import scipp as sc

    return got_unit == sc.Unit(expected)


def _run_scalar(case):
    """Call the kernel; returns (spec, ops, labels, deviations, result or None if unsupported)."""
    import scipp as sc

    kernel = case["kernel"]
    spec = SPECS[kernel]
    ops = case["ops"]
    labs, dev = _labels(case)
    args = {name: build_op(op) for name, op in ops.items()}
    try:
        got = _call(kernel, args)
    except sc.DTypeError as e:
        if _is_allowed_int32_failure(e, ops):
            return spec, ops, [*labs, "unsupported_by_scipp:int32-pow"], dev, None
        raise
    return spec, ops, labs, dev, got


def check_point(case):
    """Value, output unit and dtype of one grid point of a scalar-operand kernel."""
    spec, ops, labs, dev, got = _run_scalar(case)
    kernel = case["kernel"]
    if got is None:
        return labs, False

    # --- output unit
    out_unit = _out_unit(spec, ops)
    if not _unit_equal(got.unit, out_unit):
        raise Violation("unit", f"{kernel}: result unit {got.unit}, documented {out_unit}",
                        {"got": str(got.unit)})
    # --- dtype
    want = _expected_dtype(spec, ops)
    if spec["plain"] and want == "float32":
        labs.append("dtype:no-documented-float32-contract")
    elif str(got.dtype) != want:
        raise Violation(
            "dtype", f"{kernel}: result dtype {got.dtype}, contract says {want} "
            f"(operand dtypes {[ops[n]['dtype'] for n in ops]})", {"got": str(got.dtype)})
    labs.append("result:" + str(got.dtype))
    if tuple(got.dims) != ("x",) or got.shape != (3,):
        raise Violation("dims", f"{kernel}: result dims {got.dims} shape {got.shape}")

    # --- values
    cls = _tol_class(ops)
    tol = TOL[cls]
    labs.append("tol:" + cls)
    if cls == "float32" and not _f32_inputs_in_range(ops):
        labs.append("f32-input-range-skip")
        return labs, dev >= 2
    factor = _out_factor(out_unit)
    g = np.asarray(got.values, dtype=np.float64)
    compared = 0
    worst = mp.mpf(0)
    for i in range(3):
        a = {name: units.si(op["values"][i], op["unit"]) for name, op in ops.items()}
        r = spec["fn"](a)
        if r.get("skip"):
            labs.append("nan-boundary-skip")
            continue
        gv = float(g[i])
        if r["value"] is None:
            labs.append("nan-expected")
            if not np.isnan(gv):
                raise Violation("value", f"{kernel}[{i}]: got {gv!r}, reference says unphysical (NaN)",
                                {"index": i})
            compared += 1
            continue
        ref = r["value"] / factor
        scale = r["scale"] / factor
        if cls == "float32":
            tfac = _out_factor(ops["tof"]["unit"]) if "tof" in ops else factor
            inter = [ref] + [x / factor for x in r.get("aux", [])] \
                + [x / factor for x in r.get("aux_energy", [])] \
                + [x / tfac for x in r.get("aux_time", [])]
            if not all(in_f32_normal(x) for x in inter):
                labs.append("f32-result-range-skip")
                continue
        if not np.isfinite(gv):
            raise Violation("non-finite", f"{kernel}[{i}]: got {gv!r}, reference {mp.nstr(ref, 17)}",
                            {"index": i})
        err = abs(mp.mpf(gv) - ref) / scale if scale != 0 else abs(mp.mpf(gv))
        if err > tol:
            raise Violation(
                "value",
                f"{kernel}[{i}]: got {gv!r} {out_unit}, reference {mp.nstr(ref, 20)}, "
                f"error/scale {mp.nstr(err, 3)} > {mp.nstr(tol, 3)}",
                {"index": i, "rel_err": float(err)})
        compared += 1
        worst = max(worst, err)
    if compared:
        labs.append("value-compared")
        labs.append(_err_label(cls, worst))
    return labs, dev >= 2 and compared > 0


def _err_label(cls, err):
    """Decade bucket of the worst error/scale of a point (evidence for the tolerance margin)."""
    if err == 0:
        return f"err[{cls}]:0"
    return f"err[{cls}]:<1e{int(mp.floor(mp.log10(err))) + 1}"


def check_plain_dtype(case):
    """dtype clause for the kernels that have no float32 selection in their code."""
    spec, ops, labs, dev, got = _run_scalar(case)
    if got is None:
        return labs, False
    want = _expected_dtype(spec, ops)
    if str(got.dtype) != want:
        raise Violation(
            "dtype", f"{case['kernel']}: result dtype {got.dtype}, contract says {want} "
            f"(operand dtypes {[ops[n]['dtype'] for n in ops]})", {"got": str(got.dtype)})
    return [*labs, "result:" + str(got.dtype)], True


# --------------------------------------------------------------------------- gravity


def _gravity_inputs(ops, layout):
    import scipp as sc

    b1 = sc.vector(ops["incident_beam"]["values"], unit=ops["incident_beam"]["unit"])
    g = sc.vector(ops["gravity"]["values"], unit=ops["gravity"]["unit"])
    b2 = sc.vectors(dims=[layout], values=np.asarray(ops["scattered_beam"]["values"], dtype=float),
                    unit=ops["scattered_beam"]["unit"])
    wl = build_op(ops["wavelength"])
    return b1, b2, wl, g


def _gravity_call(kernel, b1, b2, wl, g):
    from scippneutron.conversion import beamline as B

    if kernel == "scattering_angle_in_yz_plane":
        return {"gamma": B.scattering_angle_in_yz_plane(
            incident_beam=b1, scattered_beam=b2, wavelength=wl, gravity=g)}
    return dict(B.scattering_angles_with_gravity(
        incident_beam=b1, scattered_beam=b2, wavelength=wl, gravity=g))


def _default_unit_ops(ops):
    """Same physical stored inputs re-expressed in m, m/s^2, angstrom."""
    def conv(v, f):
        return float(mp.mpf(v) * f)

    wl = ops["wavelength"]
    wvals = [float(units.si(v, wl["unit"]) / units.ALL["angstrom"]) for v in wl["values"]]
    if wl["dtype"] == "float32":
        wvals = [float(np.float32(v)) for v in wvals]
    return {
        "incident_beam": {"unit": "m", "values": [conv(v, units.ALL[ops["incident_beam"]["unit"]])
                                                  for v in ops["incident_beam"]["values"]]},
        "scattered_beam": {"unit": "m", "values": [[conv(v, units.ALL[ops["scattered_beam"]["unit"]])
                                                    for v in vec] for vec in ops["scattered_beam"]["values"]]},
        "gravity": {"unit": "m/s^2", "values": [conv(v, G_UNITS[ops["gravity"]["unit"]])
                                                for v in ops["gravity"]["values"]]},
        # an integer wavelength need not be an integer in angstrom: the double it stands for is used
        "wavelength": {"unit": "angstrom", "values": wvals,
                       "dtype": wl["dtype"] if wl["dtype"].startswith("float") else "float64"},
    }


def check_gravity(case):
    import scipp as sc

    kernel, layout, ops = case["kernel"], case["layout"], case["ops"]
    labs, dev = _labels(case)
    labs.append("layout:" + layout)
    wl_dtype = ops["wavelength"]["dtype"]
    b1, b2, wl, g = _gravity_inputs(ops, layout)
    got = _gravity_call(kernel, b1, b2, wl, g)

    want = "float32" if wl_dtype == "float32" else "float64"
    dims = ("x",) if layout == "x" else ("det", "x")
    for name, var in got.items():
        if var.unit != sc.Unit("rad"):
            raise Violation("unit", f"{kernel}.{name}: unit {var.unit}, expected rad")
        if str(var.dtype) != want:
            raise Violation("dtype", f"{kernel}.{name}: dtype {var.dtype}, contract says {want} "
                            f"(wavelength {wl_dtype})", {"got": str(var.dtype)})
        if set(var.dims) != set(dims):
            raise Violation("dims", f"{kernel}.{name}: dims {var.dims}, expected {dims}")
    labs.append("result:" + want)

    cls = "float32" if wl_dtype == "float32" else "float64"
    tol = TOL[cls]
    b1_si = [units.si(v, ops["incident_beam"]["unit"]) for v in ops["incident_beam"]["values"]]
    g_si = [mp.mpf(v) * G_UNITS[ops["gravity"]["unit"]] for v in ops["gravity"]["values"]]
    b2_si = [[units.si(v, ops["scattered_beam"]["unit"]) for v in vec]
             for vec in ops["scattered_beam"]["values"]]
    lam_si = [units.si(v, ops["wavelength"]["unit"]) for v in ops["wavelength"]["values"]]

    generic = kernel.endswith(":generic")
    vals = {n: np.asarray(v.transpose(dims).values, dtype=np.float64) for n, v in got.items()}
    meta = None
    if generic:
        dops = _default_unit_ops(ops)
        meta_got = _gravity_call(kernel, *_gravity_inputs(dops, layout))
        meta = np.asarray(meta_got["two_theta"].transpose(dims).values, dtype=np.float64)

    worst = mp.mpf(0)
    for j in range(3):              # wavelength index (x)
        for d in ([j] if layout == "x" else range(3)):      # detector index
            r = ref_gravity(b1_si, b2_si[d], g_si, lam_si[j])
            idx = (j,) if layout == "x" else (d, j)
            expect = {}
            if kernel == "scattering_angle_in_yz_plane":
                expect["gamma"] = r["gamma"]
            else:
                expect["phi"] = r["phi"]
                if not generic:
                    expect["two_theta"] = r["two_theta_orth"]
            for name, ref in expect.items():
                gv = float(vals[name][idx])
                err = abs(mp.mpf(gv) - ref) / abs(ref)
                if not np.isfinite(gv) or err > tol:
                    raise Violation(
                        "value", f"{kernel}.{name}{list(idx)}: got {gv!r} rad, reference "
                        f"{mp.nstr(ref, 20)} (drop {mp.nstr(r['delta'], 6)} m), rel.err "
                        f"{mp.nstr(err, 3)} > {mp.nstr(tol, 3)}", {"index": list(idx), "rel_err": float(err)})
                worst = max(worst, err)
            if generic:
                gv, mv = float(vals["two_theta"][idx]), float(meta[idx])
                if not abs(gv - mv) <= float(tol) * abs(mv):
                    raise Violation(
                        "equivariance", f"{kernel}.two_theta{list(idx)}: {gv!r} rad in the given units vs "
                        f"{mv!r} rad for the same physical input in (m, angstrom, m/s^2)",
                        {"index": list(idx)})
    labs.append(_err_label(cls, worst))
    return labs, dev >= 2


# --------------------------------------------------------------------------- facets, matchers


def _m_gravity_int(case, v):
    return (case.get("kernel") in GRAVITY_KERNELS
            and case["ops"]["wavelength"].get("dtype") in ("int64", "int32")
            and v.kind == "unexpected-exception:DTypeError")


def _m_tas_wavelength_unit(case, v):
    return (case.get("kernel") == "time_at_sample_from_tof"
            and case["ops"]["wavelength"]["unit"] != "angstrom"
            and v.kind == "unexpected-exception:UnitError")


def _m_plain_f32(case, v):
    k = case.get("kernel")
    if k not in PLAIN_KERNELS or v.kind != "dtype":
        return False
    spec = SPECS[k]
    return (all(case["ops"][d]["dtype"] == "float32" for d in spec["data"])
            and isinstance(v.details, dict) and v.details.get("got") == "float64")


MATCHERS = {
    "C07.gravity_int_wavelength_dtypeerror": _m_gravity_int,
    "C07.time_at_sample_wavelength_not_angstrom": _m_tas_wavelength_unit,
    "C07.plain_kernel_float32_promoted": _m_plain_f32,
}

# --------------------------------------------------------------------------- Frame.propagate_to (tof/chopper_cascade.py)

_FP_UNITS = {"m": 1.0, "mm": 1e-3, "cm": 1e-2}


def enum_frame_propagate(tier, seed):
    cases = []
    for u1 in _FP_UNITS:
        for d1 in ("float64", "int64"):
            for u2 in _FP_UNITS:
                for d2 in ("float64", "int64"):
                    for first_m, second_m in ((1.5, 3.0), (2.371, 27.25), (0.037, 12.6)):
                        cases.append({"u1": u1, "d1": d1, "u2": u2, "d2": d2, "first_m": first_m, "second_m": second_m})
    return cases


def check_frame_propagate(case):
    """Two successive Frame.propagate_to calls with the distances given in any unit x dtype: the vertex times
    must be t + d*lambda*m_n/h for the final distance d, whatever unit/dtype the intermediate one had."""
    import scipp as sc
    from scippneutron.tof import chopper_cascade as cc

    def dist(metres, unit, dtype):
        v = metres / _FP_UNITS[unit]
        if dtype == "int64":
            v = int(round(v))
        return sc.scalar(v, unit=unit, dtype=dtype), float(v) * _FP_UNITS[unit]

    d1, d1_m = dist(case["first_m"], case["u1"], case["d1"])
    d2, d2_m = dist(case["second_m"], case["u2"], case["d2"])
    seq = cc.FrameSequence.from_source_pulse(sc.scalar(0.0, unit="ms"), sc.scalar(2.0, unit="ms"),
                                             sc.scalar(1.0, unit="angstrom"), sc.scalar(7.5, unit="angstrom"))
    fr = seq[0].propagate_to(d1).propagate_to(d2)
    sub = fr.subframes[0]
    t0 = np.array([0.0, 2e-3, 2e-3, 0.0])
    lam = np.array([1.0, 1.0, 7.5, 7.5])
    k = kin.consts()
    alpha = float(k["m_n"] / k["h"]) * 1e-10
    want = t0 + alpha * d2_m * lam
    got = np.asarray(sub.time.to(unit="s").values, dtype=float)
    err = float(np.max(np.abs(got - want) / np.abs(want).clip(1e-300)))
    labs = [f"d1:{case['u1']}/{case['d1']}", f"d2:{case['u2']}/{case['d2']}"]
    if err > 1e-11:
        raise Violation("value", f"Frame.propagate_to({d1.value} {case['u1']} [{case['d1']}]).propagate_to({d2.value} {case['u2']} "
                                 f"[{case['d2']}]): vertex times {got.tolist()}, expected t + d*lambda*m_n/h = {want.tolist()} "
                                 f"(rel. error {err:.3e})")
    return labs, case["u1"] != "m" or case["d1"] != "float64" or case["u2"] != "m" or case["d2"] != "float64"


FACETS = [
    Facet("elastic", check_point, enumerate=enum_elastic, exhaustive_in=("quick", "thorough"),
          quick=(3, 0), thorough=(16, 0), min_nontrivial=0.3,
          doc="9 elastic kernels: full unit x dtype grid; value vs closed form, output unit, dtype"),
    Facet("inelastic", check_point, enumerate=enum_inelastic, exhaustive_in=("thorough",),
          quick=(4, 0), thorough=(16, 0), min_nontrivial=0.3,
          doc="direct/indirect energy transfer: unit x dtype grid (102400 points each)"),
    Facet("time_at_sample", check_point, enumerate=enum_time_at_sample,
          exhaustive_in=("quick", "thorough"), quick=(1, 0), thorough=(16, 0), min_nontrivial=0.3,
          doc="time_at_sample_from_tof, wavelength in angstrom; pulse_time/tof joint"),
    Facet("chopper", check_point, enumerate=enum_chopper, exhaustive_in=("thorough",),
          quick=(2, 0), thorough=(16, 0), min_nontrivial=0.3,
          doc="wavelength_to_inverse_velocity, propagate_times"),
    Facet("frame_propagate", check_frame_propagate, enumerate=enum_frame_propagate,
          exhaustive_in=("quick", "thorough"), quick=(1, 0), thorough=(2, 0), min_nontrivial=0.3,
          doc="Frame.propagate_to in two steps: distance unit (m, mm, cm) x dtype (float64, int64) for each step"),
    Facet("gravity", check_gravity, enumerate=enum_gravity, exhaustive_in=("thorough",),
          quick=(3, 0), thorough=(16, 0), min_nontrivial=0.3,
          doc="_drop_due_to_gravity through scattering_angles_with_gravity (both paths) and "
              "scattering_angle_in_yz_plane; float wavelength"),
    Facet("gravity_int_wavelength", check_gravity, enumerate=enum_gravity_int,
          exhaustive_in=("thorough",), quick=(1, 0), thorough=(16, 0), min_nontrivial=0.3,
          doc="same with int64/int32 wavelength (every other numeric operand type gives double)"),
    Facet("time_at_sample_wavelength_unit", check_point, enumerate=enum_time_at_sample_wl_unit,
          exhaustive_in=("thorough",), quick=(1, 0), thorough=(16, 0), min_nontrivial=0.3,
          doc="time_at_sample_from_tof with wavelength in mm..km"),
    # NOTE: a facet "plain_f32_dtype" (float32 data operand => float32 result for
    # time_at_sample_from_tof, propagate_times, wavelength_to_inverse_velocity) was written and then
    # withdrawn as a false alarm: these three functions promote to float64 on the unchanged tree, but
    # the package documents (docstrings/tests) a float32 contract only for the elastic, inelastic and
    # gravity kernels, and C07 is about the *documented* dtype contract. See DESIGN.md, "False alarms
    # corrected". check_plain_dtype is kept for reference but is not part of the check.
]


def selftest():
    units.selftest()
    kin.selftest()
    c = kin.consts()
    m, h = c["m_n"], c["h"]
    # inelastic: v = 1000 m/s in and out => Delta E = 0; tof below t0 => NaN
    E = m * 10**6 / 2
    r = ref_inelastic("direct", mp.mpf("0.015"), mp.mpf(10), mp.mpf(5), E)
    assert abs(r["value"]) < E * mp.mpf(10) ** -40, r
    r = ref_inelastic("indirect", mp.mpf("0.015"), mp.mpf(10), mp.mpf(5), E)
    # t0 = 5 ms, dt = 10 ms, v_i = 1000 => 0
    assert abs(r["value"]) < E * mp.mpf(10) ** -40, r
    assert ref_inelastic("direct", mp.mpf("0.005"), mp.mpf(10), mp.mpf(5), E)["value"] is None
    # direct, out at 500 m/s: E_f = E/4 => Delta E = 3E/4
    r = ref_inelastic("direct", mp.mpf("0.020"), mp.mpf(10), mp.mpf(5), E)
    assert mp.almosteq(r["value"], 3 * E / 4), r
    # time at sample: v = 2 m/s, L2 = 2 m, tof = 3 s (the package's own example) => pulse + 2 s
    lam = h / m / 2
    assert mp.almosteq(ref_time_at_sample(mp.mpf(7), mp.mpf(3), mp.mpf(2), lam)["value"], 9)
    assert mp.almosteq(ref_propagate(mp.mpf(1), lam, mp.mpf(4))["value"], 3)
    # gravity: drop = g t^2 / 2 with t = L2 / v
    lam = mp.mpf("10e-10")
    v = h / (m * lam)
    r = ref_gravity([mp.mpf(0), mp.mpf(0), mp.mpf(10)], [mp.mpf(3), mp.mpf(0), mp.mpf(4)],
                    [mp.mpf(0), -c["g"], mp.mpf(0)], lam)
    assert mp.almosteq(r["delta"], c["g"] * (5 / v) ** 2 / 2), r
    assert mp.almosteq(r["phi"], mp.atan2(r["delta"], 3))
    assert mp.almosteq(r["two_theta"], r["two_theta_orth"])
    assert mp.almosteq(r["gamma"], mp.atan2(r["delta"], 4))
    # value tables
    assert values_for("two_theta", "rad", "int64") == (1, 2, 3)
    assert values_for("tof", "us", "int64") == (12500, 31000, 4900)
    assert values_for("tof", "ns", "int32") == (32765, 32766, 32767)
    assert values_for("energy", "meV", "float64")[0] == 20.0
    assert _decode(5, [2, 3]) == [1, 2]
