"""C17 — peak fitting returns one coherent result per peak; removal touches only windows."""

import math
import warnings

import numpy as np
from hypothesis import strategies as st

from ..core import Facet, HarnessError, Violation
from ..ref import fitstats as fs

PROPERTY = "C17"
RULE = (
    "Hypothesis draws a data-set descriptor: a grid (uniform, smoothly varying or jittered spacing, "
    "ratio of spacings < 4; 40..600 points; a grid with one gap only in grid_gap), a linear or "
    "quadratic background, 1..6 peaks (Gaussian / Lorentzian / pseudo-Voigt, FWHM from half a grid "
    "spacing to a third of the range, signal-to-noise 1..300, overlapping or separate), a noise "
    "level and an integer seed expanded by numpy Generator(PCG64(seed)) (a pure function of the "
    "case) with variances equal to the noise variance (constant or signal dependent); sorted peak "
    "estimates (exact, jittered by up to one FWHM, decoys without a peak, duplicated, snapped to the "
    "first/last point, and - in the outside_* facets - beyond the data); windows as a scalar width "
    "(0.1 grid spacings .. 3x the range) or explicit rows (overlapping, reaching beyond the data, "
    "empty or single-point in tiny_window); model specifications as name, instance (arbitrary "
    "prefix), list/tuple of names, instances or both; default or custom FitParameters and "
    "FitRequirements; axis name and units from small pools. A quarter of the coherence cases and two "
    "thirds of the independence cases are 'friendly' (well separated peaks of one kind, the true "
    "model among the requested ones) so that successes and several successful combinations occur; "
    "edge_peak puts a strong peak 0.3..3.5 steps inside a window end. Facets partition the domain by the "
    "number of points in the narrowest window (0..3 tiny_window, 4..11 few_points and - when equal "
    "to the number of parameters - zero_dof, >= 12 main "
    "facets), by the position of the estimates (inside / outside the data) and by the grid, so that "
    "each known root cause is confined to one facet. Oracles: my own window rule, point count in the "
    "half-open label window, model evaluation, chi-square, p-value (mpmath incomplete gamma), AIC, "
    "weighted linear least squares for the background-only optimum, and subtraction. Non-trivial: "
    "coherence/few_points/edge_peak/grid_gap/guess_fraction - at least one result had its statistics "
    "recomputed and the results are mixed (>= 1 success and >= 1 non-success) or the case has a "
    "single result whose statistics were recomputed; zero_dof - a window holding exactly as many "
    "points as parameters; independence - at least one result with finite "
    "statistics was reproduced by a single-peak call; auto_windows - at least one window edge was "
    "moved by clipping or neighbour separation; tiny_window - a window with fewer points than "
    "parameters; outside_* - an estimate outside the data; remove_synthetic - a successful window "
    "holding >= 1 point with >= 1 point outside all successful windows (or the variances refusal). "
    "Distinct = distinct descriptor hash."
)
TOLERANCES = {
    "red_chisq_rel": 1e-9,
    "p_value_abs": 1e-9,
    "aic_abs": "1e-9 * (|AIC| + N)",
    "window_edge": "1e-12 * max(|x|) for neighbour-separation and requested-width bounds; exact for "
                   "the data range, lower <= upper and containment of the estimate",
    "success_requirements": "relative slack 1e-12 on FWHM bounds and edge distance",
    "background_aic": "success => AIC <= AIC(best polynomial by linear least squares) + 1e-6*(|AIC|+N)",
    "removal": "1e-12 * (|y| + sum |peak|) inside successful windows, bit-identical elsewhere",
    "independence": "bit-identical",
}
ASSUMPTIONS = [
    "data always carry variances (chi-square is undefined without them); float64; 1-d; ascending coord",
    "the window of a result is the half-open label interval [lower, upper) of scipp label slicing",
    "'stated distance from neighbouring estimates' = neighbor_separation_factor x (distance between "
    "the two estimates), measured from the neighbouring estimate, and it yields to the data range "
    "(a window clipped to the end of the data may be closer); factor drawn from (0, 0.5]",
    "automatic windows are also required not to exceed the requested interval estimate +- width/2 "
    "(documentation of the `windows` argument), not only the three requirements of the statement",
    "'window width' in max_peak_width_factor is the extent of the data points in the window and the "
    "local spacing in min_peak_width_factor is the smaller of the two spacings next to the point "
    "nearest to the fitted location (both at least as lenient as any reading of the documentation "
    "on uniform grids)",
    "estimates are sorted ascending (scalar windows raise ValueError otherwise, by documentation)",
    "guess_background_fraction is drawn from [0.34, 0.9] in the main facets and from (0.02, 0.34) in "
    "guess_fraction; edge_peak uses (2.1..3.9)/N, i.e. one point at either end of the window; 1.0 (no "
    "bulk left) is not generated",
    "grids of the main facets have max/min spacing < 4; a grid with a gap of 6..40 spacings only in "
    "grid_gap",
    "when every model combination fails the only requirement is that the result equals one of the "
    "single-combination results (the documentation does not say which)",
]

PEAK_KINDS = ("gaussian", "lorentzian", "pseudo_voigt")
BKG_KINDS = ("linear", "quadratic")
PEAK_NPAR = {"gaussian": 3, "lorentzian": 3, "pseudo_voigt": 4}
BKG_NPAR = {"linear": 2, "quadratic": 3}
DIMS = ("x", "dspacing", "tof")
XUNITS = ("angstrom", "us", "dimensionless")
YUNITS = ("counts", "dimensionless")
PREFIXES = ("", "peak_", "bkg_", "pre_", "g", "a0")
ASSESSMENTS = ("success", "failed", "background_is_better", "peak_too_narrow", "peak_too_wide",
               "peak_near_edge", "peak_points_down", "p_too_small", "window_too_narrow")

K_TINY = 4     # windows with fewer points are the tiny_window region
K_MAIN = 12    # main facets: every window holds at least this many points


# =============================================================================== data from a case


def grid_x(g):
    n = g["n"]
    i = np.arange(n, dtype=np.float64)
    if g["kind"] == "uniform":
        return g["x0"] + g["dx"] * i
    if g["kind"] == "smooth":     # spacing dx * (1 + amp*sin), amp <= 0.5 -> ratio <= 3
        sp = g["dx"] * (1 + g["amp"] * np.sin(2 * math.pi * g["waves"] * i[:-1] / n))
        return g["x0"] + np.concatenate([[0.0], np.cumsum(sp)])
    if g["kind"] == "jitter":     # x_i = x0 + dx*(i + amp*u_i), |u| <= 1/2, amp <= 0.5 -> ratio <= 3
        u = np.random.Generator(np.random.PCG64(g["seed"])).uniform(-0.5, 0.5, n)
        return g["x0"] + g["dx"] * (i + g["amp"] * u)
    if g["kind"] == "gap":        # uniform, one jump of `jump` spacings after n1 points (n = n1 + n2)
        sp = np.full(n - 1, g["dx"])
        sp[g["n1"] - 1] = g["jump"] * g["dx"]
        return g["x0"] + np.concatenate([[0.0], np.cumsum(sp)])
    raise HarnessError(f"grid kind {g['kind']}")


def _shape(kind, t, frac):
    """Unit-height peak with unit FWHM at offset t."""
    g = np.exp(-4 * math.log(2) * t * t)
    lo = 1 / (1 + 4 * t * t)
    if kind == "gaussian":
        return g
    if kind == "lorentzian":
        return lo
    return frac * lo + (1 - frac) * g


def clean_signal(case, x):
    mid = 0.5 * (x[0] + x[-1])
    rng = x[-1] - x[0]
    u = (x - mid) / rng
    c = case["bkg"]
    y = c[0] + c[1] * u + c[2] * u * u
    for p in case["peaks"]:
        y = y + p["height"] * _shape(p["kind"], (x - p["pos"]) / p["fwhm"], p["frac"])
    return y


def signal_xy(case):
    x = grid_x(case["grid"])
    clean = clean_signal(case, x)
    nz = case["noise"]
    if nz["mode"] == "const":
        sig = np.full(len(x), nz["sigma"])
    else:  # signal dependent, like counting statistics
        ref = max(float(np.mean(np.abs(clean))), 1e-6)
        sig = nz["sigma"] * np.sqrt(np.maximum(np.abs(clean), 0.05 * ref) / ref)
    z = np.random.Generator(np.random.PCG64(nz["seed"])).standard_normal(len(x))
    return x, clean + sig * z, sig * sig


def intended_windows(case, x=None):
    """My reading of the window rule: centred on the estimate, width `width`, kept at
    factor*(distance between the estimates) from each neighbouring estimate, inside the data."""
    if x is None:
        x = grid_x(case["grid"])
    est = np.asarray(case["estimates"], dtype=np.float64)
    w = case["windows"]
    if w["mode"] == "explicit":
        return np.asarray(w["ranges"], dtype=np.float64).reshape(len(est), 2)
    f = case["params"].get("nsf")
    f = 1 / 3 if f is None else f
    lo = est - w["width"] / 2
    hi = np.nextafter(est + w["width"] / 2, np.inf)
    if len(est) > 1:
        d = (est[1:] - est[:-1]) * f
        lo[1:] = np.maximum(lo[1:], est[:-1] + d)
        hi[:-1] = np.minimum(hi[:-1], est[1:] - d)
    lo = np.clip(lo, x[0], x[-1])
    hi = np.clip(hi, x[0], x[-1])
    hi = np.maximum(hi, lo)
    return np.stack([lo, hi], axis=1)


def count_in(x, lo, hi):
    return int(np.count_nonzero((x >= lo) & (x < hi)))


def intended_counts(case):
    x = grid_x(case["grid"])
    return [count_in(x, lo, hi) for lo, hi in intended_windows(case, x)]


def combos(case):
    """Model combinations in the documented order: background varies first."""
    return [(p, b) for p in case["models"]["peak"]["items"] for b in case["models"]["background"]["items"]]


# ---------------------------------------------------------------- building scipp objects


def _model_obj(item, role):
    from scippneutron.peaks import model as M

    kind = item["kind"]
    if item["as"] == "name":
        return kind
    pre = item["prefix"]
    if role == "background":
        return M.PolynomialModel(degree=1 if kind == "linear" else 2, prefix=pre)
    cls = {"gaussian": M.GaussianModel, "lorentzian": M.LorentzianModel,
           "pseudo_voigt": M.PseudoVoigtModel}[kind]
    return cls(prefix=pre)


def _spec_obj(spec, role):
    objs = [_model_obj(it, role) for it in spec["items"]]
    if spec["form"] == "single":
        return objs[0]
    return tuple(objs) if spec["form"] == "tuple" else list(objs)


def build(case):
    """Returns dict with numpy x, y, var and the scipp arguments of fit_peaks."""
    import scipp as sc
    from scippneutron.peaks import FitParameters, FitRequirements

    x, y, var = signal_xy(case)
    dim, xu, yu = case["dim"], case["xunit"], case["yunit"]
    da = sc.DataArray(
        sc.array(dims=[dim], values=y, variances=var, unit=yu),
        coords={dim: sc.array(dims=[dim], values=x, unit=xu)},
    )
    est = sc.array(dims=[dim], values=np.asarray(case["estimates"], dtype=np.float64), unit=xu)
    w = case["windows"]
    if w["mode"] == "scalar":
        win = sc.scalar(float(w["width"]), unit=xu)
    else:
        win = sc.array(dims=[dim, "range"],
                       values=np.asarray(w["ranges"], dtype=np.float64).reshape(len(case["estimates"]), 2),
                       unit=xu)
        if w.get("layout") == "range-dim":
            win = win.transpose(["range", dim]).copy()
        elif w.get("layout") == "transposed-view":
            win = win.transpose(["range", dim])
    kw = {}
    pr = case["params"]
    if pr.get("gbf") is not None or pr.get("nsf") is not None or pr.get("explicit_default"):
        a = {}
        if pr.get("gbf") is not None:
            a["guess_background_fraction"] = pr["gbf"]
        if pr.get("nsf") is not None:
            a["neighbor_separation_factor"] = pr["nsf"]
        kw["fit_parameters"] = FitParameters(**a)
    rq = case["reqs"]
    if rq is not None:
        kw["fit_requirements"] = FitRequirements(
            min_p_value=rq["min_p"], max_peak_width_factor=rq["max_w"], min_peak_width_factor=rq["min_w"])
    return {"x": x, "y": y, "var": var, "da": da, "est": est, "win": win, "kw": kw,
            "peak": _spec_obj(case["models"]["peak"], "peak"),
            "background": _spec_obj(case["models"]["background"], "background")}


def call_fit(b, da=None, est=None, win=None, peak=None, background=None):
    from scippneutron.peaks import fit_peaks

    with warnings.catch_warnings():
        warnings.simplefilter("ignore")
        return fit_peaks(
            b["da"] if da is None else da,
            peak_estimates=b["est"] if est is None else est,
            windows=b["win"] if win is None else win,
            background=b["background"] if background is None else background,
            peak=b["peak"] if peak is None else peak,
            **b["kw"],
        )


# =============================================================================== oracles on results


def _kind_of_peak(model):
    from scippneutron.peaks import model as M

    for kind, cls in (("gaussian", M.GaussianModel), ("lorentzian", M.LorentzianModel),
                      ("pseudo_voigt", M.PseudoVoigtModel)):
        if type(model) is cls:
            return kind
    raise Violation("model", f"result.peak is a {type(model).__name__}, not one of the requested models")


def _kind_of_bkg(model):
    from scippneutron.peaks import model as M

    if type(model) is not M.PolynomialModel or model.degree not in (1, 2):
        raise Violation("model", f"result.background is {type(model).__name__}, not a requested model")
    return "linear" if model.degree == 1 else "quadratic"


def _val(v):
    return float(np.asarray(v.value))


def popt_numbers(r, pk, bk):
    """Check the key set of popt and return (peak params, background coefficients) as floats."""
    names = ["amplitude", "loc", "scale"] + (["fraction"] if pk == "pseudo_voigt" else [])
    nb = BKG_NPAR[bk]
    want = {"peak_" + n for n in names} | {f"bkg_a{i}" for i in range(nb)}
    if set(r.popt) != want:
        raise Violation("popt-keys", f"popt has keys {sorted(r.popt)}, expected {sorted(want)}")
    return ({n: _val(r.popt["peak_" + n]) for n in names}, [_val(r.popt[f"bkg_a{i}"]) for i in range(nb)])


def check_window_geometry(case, x, i, lo, hi):
    """Oracle (5) for automatically built windows."""
    est = case["estimates"]
    e = est[i]
    width = case["windows"]["width"]
    f = case["params"].get("nsf")
    f = 1 / 3 if f is None else f
    xmin, xmax = float(x[0]), float(x[-1])
    tol = 1e-12 * max(abs(xmin), abs(xmax), 1e-300)
    ctx = {"peak": i, "window": [lo, hi], "estimate": e, "data_range": [xmin, xmax]}
    if not (lo <= hi):
        raise Violation("window-inverted", f"peak {i}: window [{lo!r}, {hi!r}] has lower > upper", ctx)
    if lo < xmin or hi > xmax:
        raise Violation("window-outside-data",
                        f"peak {i}: window [{lo!r}, {hi!r}] leaves the data range [{xmin!r}, {xmax!r}]", ctx)
    inside = xmin <= e <= xmax
    if inside and not (lo <= e <= hi):
        raise Violation("window-misses-estimate", f"peak {i}: window [{lo!r}, {hi!r}] does not contain {e!r}", ctx)
    if i > 0:
        bound = min(est[i - 1] + f * (e - est[i - 1]), xmax)
        if lo < bound - tol:
            raise Violation("window-too-close-to-neighbour",
                            f"peak {i}: lower edge {lo!r} < {bound!r} = left estimate + {f}*distance", ctx)
    if i < len(est) - 1:
        bound = max(est[i + 1] - f * (est[i + 1] - e), xmin)
        if hi > bound + tol:
            raise Violation("window-too-close-to-neighbour",
                            f"peak {i}: upper edge {hi!r} > {bound!r} = right estimate - {f}*distance", ctx)
    if inside and (lo < e - width / 2 - tol or hi > e + width / 2 + tol):
        raise Violation("window-wider-than-requested",
                        f"peak {i}: window [{lo!r}, {hi!r}] exceeds {e!r} +- {width / 2!r}", ctx)
    moved = inside and (lo > e - width / 2 + tol or hi < e + width / 2 - tol)
    return moved


def check_failure_fields(r, i, what):
    for name, v in r.popt.items():
        if not math.isnan(_val(v)):
            raise Violation("failure-fields", f"peak {i}: {what} result has popt[{name}] = {_val(v)!r}, expected NaN")
    for name in ("red_chisq", "p_value"):
        if not math.isnan(_val(getattr(r, name))):
            raise Violation("failure-fields", f"peak {i}: {what} result has {name} = {_val(getattr(r, name))!r}, expected NaN")
    if math.isfinite(_val(r.aic)):
        raise Violation("failure-fields", f"peak {i}: {what} result has finite aic = {_val(r.aic)!r}")


def analyse(case, b, results, labels, *, removal=True):
    """Oracles (1), (3), (4), (5), (6) on the list returned by fit_peaks. Returns a summary dict."""
    import scipp as sc
    from scippneutron.peaks import FitAssessment, FitResult

    x, y, var = b["x"], b["y"], b["var"]
    est = case["estimates"]
    if not isinstance(results, list) or len(results) != len(est):
        n = len(results) if hasattr(results, "__len__") else "?"
        raise Violation("result-count", f"{n} results for {len(est)} estimates")
    rq = case["reqs"] or {"min_p": 0.01, "max_w": 1.0, "min_w": 1.0}
    allowed = {(p["kind"], q["kind"]) for p, q in combos(case)}
    summary = {"recomputed": 0, "success": 0, "nonsuccess": 0, "too_narrow": 0, "moved": 0,
               "windows": [], "max_err": {"red": 0.0, "p": 0.0, "aic": 0.0}}
    for i, r in enumerate(results):
        if not isinstance(r, FitResult):
            raise Violation("result-type", f"result {i} is a {type(r).__name__}")
        wv = np.asarray(r.window.values, dtype=np.float64)
        if wv.shape != (2,) or r.window.unit != sc.Unit(case["xunit"]):
            raise Violation("window-shape", f"peak {i}: window {r.window}")
        lo, hi = float(wv[0]), float(wv[1])
        summary["windows"].append([lo, hi])
        if case["windows"]["mode"] == "explicit":
            given = case["windows"]["ranges"][i]
            if [lo, hi] != [float(given[0]), float(given[1])]:
                raise Violation("result-order", f"peak {i}: reported window [{lo!r}, {hi!r}], given {given}")
        else:
            if check_window_geometry(case, x, i, lo, hi):
                summary["moved"] += 1
        sel = (x >= lo) & (x < hi)
        n = int(np.count_nonzero(sel))
        pk, bk = _kind_of_peak(r.peak), _kind_of_bkg(r.background)
        if (pk, bk) not in allowed:
            raise Violation("model", f"peak {i}: models ({pk}, {bk}) were not requested")
        if r.peak.prefix != "peak_" or r.background.prefix != "bkg_":
            raise Violation("model", f"peak {i}: prefixes {r.peak.prefix!r}, {r.background.prefix!r}")
        ppar, bcoef = popt_numbers(r, pk, bk)
        k = PEAK_NPAR[pk] + BKG_NPAR[bk]
        a = r.assessment
        if not isinstance(a, FitAssessment):
            raise Violation("assessment-type", f"peak {i}: result.assessment is {a!r}, not a FitAssessment "
                                               f"(message {r.message!r})")
        labels.append("assess:" + a.name)
        if not isinstance(r.message, str) or not r.message:
            raise Violation("message", f"peak {i}: message {r.message!r}")
        if (r.message == "success") != (a is FitAssessment.success) or r.success != (a is FitAssessment.success):
            raise Violation("message", f"peak {i}: message {r.message!r} / success={r.success} for assessment {a.name}")
        # ---- too few points <=> 'window too narrow'
        # n == k (no degree of freedom) may be reported either way
        if (n < k and a is not FitAssessment.window_too_narrow) or (
                n > k and a is FitAssessment.window_too_narrow):
            raise Violation("too-narrow-rule",
                            f"peak {i}: {n} points in window for {k} parameters but assessment {a.name}",
                            {"window": [lo, hi]})
        if n == k:
            labels.append("points==parameters")
        if a is FitAssessment.success:
            summary["success"] += 1
        else:
            summary["nonsuccess"] += 1
        if a is FitAssessment.window_too_narrow:
            summary["too_narrow"] += 1
            if r.message != "window too narrow":
                raise Violation("message", f"peak {i}: message {r.message!r} for a too narrow window")
            check_failure_fields(r, i, "window-too-narrow")
            continue
        if a is FitAssessment.failed:
            check_failure_fields(r, i, "failed")
            continue
        # ---- (3) statistics recomputed from popt and the data in the window
        xs, ys, vs = x[sel], y[sel], var[sel]
        nu = n - k
        finite = all(math.isfinite(v) for v in [*ppar.values(), *bcoef])
        compared = False
        degenerate = finite and ppar["scale"] <= 1e-9 * float(np.min(np.diff(x)))
        if not finite:
            labels.append("popt-nonfinite")
        elif degenerate:
            labels.append("degenerate-scale")
        elif nu < 1:
            labels.append("zero-dof")
            # zero degrees of freedom: chi2/nu and the chi-square probability are undefined; recomputing them
            # from the definition with nu = n - k gives inf/NaN, so finite reported values are not
            # "those recomputed from the returned parameters" (seeded/C17-s5)
            g_red, g_p = _val(r.red_chisq), _val(r.p_value)
            if math.isfinite(g_red) or math.isfinite(g_p):
                raise Violation("zero-dof-statistics",
                                f"peak {i}: window with {n} points for {k} parameters (0 degrees of freedom) reports "
                                f"red_chisq = {g_red!r}, p = {g_p!r}; chi2/0 and the chi-square probability are undefined")
        else:
            with np.errstate(all="ignore"):
                model = fs.polynomial(xs, bcoef) + fs.peak(pk, xs, ppar)
            ref = fs.statistics(ys, vs, model, k)
            got = {"red_chisq": _val(r.red_chisq), "p_value": _val(r.p_value), "aic": _val(r.aic)}
            det = {"peak": i, "n": n, "k": k, "window": [lo, hi], "got": got,
                   "ref": {kk: ref[kk] for kk in ("red_chisq", "p_value", "aic")}}
            if math.isfinite(ref["red_chisq"]) and ref["chisq"] > 0:
                e_red = abs(got["red_chisq"] - ref["red_chisq"]) / ref["red_chisq"]
                e_p = abs(got["p_value"] - ref["p_value"])
                e_aic = abs(got["aic"] - ref["aic"]) / (abs(ref["aic"]) + n)
                if not e_red <= 1e-9:
                    raise Violation("red-chisq", f"peak {i}: reported {got['red_chisq']!r}, recomputed "
                                                 f"{ref['red_chisq']!r} (N={n}, k={k})", det)
                if not e_p <= 1e-9:
                    raise Violation("p-value", f"peak {i}: reported {got['p_value']!r}, recomputed "
                                               f"{ref['p_value']!r} (chi2={ref['chisq']!r}, nu={nu})", det)
                if not e_aic <= 1e-9:
                    raise Violation("aic", f"peak {i}: reported {got['aic']!r}, recomputed {ref['aic']!r} "
                                           f"(N={n}, k={k})", det)
                summary["recomputed"] += 1
                compared = True
                for key, e in (("red", e_red), ("p", e_p), ("aic", e_aic)):
                    summary["max_err"][key] = max(summary["max_err"][key], e)
        # ---- (4) success => every stated requirement
        if a is FitAssessment.success:
            if not finite:
                raise Violation("success-requirements", f"peak {i}: success with non-finite parameters {ppar}")
            p = _val(r.p_value)
            if not p >= rq["min_p"]:
                raise Violation("success-requirements", f"peak {i}: success with p = {p!r} < min_p_value {rq['min_p']}")
            if ppar["amplitude"] < 0:
                raise Violation("success-requirements", f"peak {i}: success with amplitude {ppar['amplitude']!r} < 0")
            width = fs.fwhm(pk, ppar["scale"])
            data_width = float(xs[-1] - xs[0])
            if width > rq["max_w"] * data_width * (1 + 1e-12):
                raise Violation("success-requirements",
                                f"peak {i}: success with FWHM {width!r} > {rq['max_w']} * window data width {data_width!r}")
            steps = np.diff(xs)
            c = int(np.argmin(np.abs(xs - ppar["loc"])))
            # "the spacing of the coordinate around the peak centre": the smallest spacing next to the
            # nearest point, or - when that is the first / last point, which has a spacing on one side
            # only - next to its inner neighbour (thorough run, seed 2: a last spacing larger than the
            # one before it must not make the reading stricter than the two-sided one)
            ci = min(max(c, 1), len(xs) - 2) if len(xs) >= 3 else c
            near = [steps[j] for j in {c - 1, c, ci - 1, ci} if 0 <= j < len(steps)]
            local = float(min(near))
            if width < rq["min_w"] * local * (1 - 1e-12):
                raise Violation("success-requirements",
                                f"peak {i}: success with FWHM {width!r} < {rq['min_w']} * local spacing {local!r}")
            step = float(np.min(steps))
            if (ppar["loc"] - xs[0] < 2 * step * (1 - 1e-12)) or (xs[-1] - ppar["loc"] < 2 * step * (1 - 1e-12)):
                raise Violation("success-requirements",
                                f"peak {i}: success with location {ppar['loc']!r} within 2 steps ({step!r}) of the "
                                f"window data [{float(xs[0])!r}, {float(xs[-1])!r}]")
            if compared:
                bmin = fs.min_chisq_polynomial(xs, ys, vs, BKG_NPAR[bk] - 1)
                if bmin > 0:
                    aic_b = fs.aic(bmin, n, BKG_NPAR[bk])
                    aic_f = _val(r.aic)
                    if aic_f > aic_b + 1e-6 * (abs(aic_b) + n):
                        raise Violation("success-requirements",
                                        f"peak {i}: success although the background alone has the lower AIC "
                                        f"({aic_b!r} < {aic_f!r})")
    # ---- (6) removal of the fitted peaks
    if removal:
        check_removal_of_results(case, b, results, labels)
    return summary


def check_removal_of_results(case, b, results, labels):
    import scipp as sc
    from scippneutron.peaks import remove_peaks

    x, y = b["x"], b["y"]
    dim = case["dim"]
    plain = sc.DataArray(sc.array(dims=[dim], values=y, unit=case["yunit"]),
                         coords={dim: b["da"].coords[dim].copy()})
    before = plain.copy(deep=True)
    out = remove_peaks(plain, results)
    if not sc.identical(plain, before):
        raise Violation("removal-input-modified", "remove_peaks changed its input")
    spec = []
    for r in results:
        if not r.success:
            continue
        pk, bk = _kind_of_peak(r.peak), _kind_of_bkg(r.background)
        ppar, _ = popt_numbers(r, pk, bk)
        wv = r.window.values
        spec.append((pk, ppar, float(wv[0]), float(wv[1])))
    compare_removal(x, y, out, spec, dim, case["yunit"], plain)
    labels.append(f"removed:{min(len(spec), 3)}")


def compare_removal(x, y, out, spec, dim, yunit, original):
    import scipp as sc

    if out.dims != (dim,) or out.unit != sc.Unit(yunit) or out.variances is not None:
        raise Violation("removal-shape", f"output dims {out.dims}, unit {out.unit}")
    if not sc.identical(out.coords[dim], original.coords[dim]):
        raise Violation("removal-coords", "output coordinate differs from the input coordinate")
    got = np.asarray(out.values, dtype=np.float64)
    expected = y.copy()
    scale = np.abs(y).copy()
    touched = np.zeros(len(x), dtype=bool)
    for pk, ppar, lo, hi in spec:
        sel = (x >= lo) & (x < hi)
        with np.errstate(all="ignore"):
            pv = fs.peak(pk, x[sel], ppar)
        expected[sel] = expected[sel] - pv
        scale[sel] += np.abs(pv)
        touched |= sel
    outside = ~touched
    if not np.array_equal(got[outside], y[outside]):
        j = int(np.flatnonzero(outside & (got != y))[0])
        raise Violation("removal-outside-window",
                        f"point {j} (x={float(x[j])!r}) outside every successful window changed from "
                        f"{float(y[j])!r} to {float(got[j])!r}",
                        {"windows": [[s[2], s[3]] for s in spec]})
    err = np.abs(got - expected)
    bad = err > 1e-12 * scale + 1e-300
    if np.any(bad):
        j = int(np.flatnonzero(bad)[0])
        raise Violation("removal-inside-window",
                        f"point {j} (x={float(x[j])!r}): got {float(got[j])!r}, expected input - fitted peak = "
                        f"{float(expected[j])!r} (input {float(y[j])!r})", {"windows": [[s[2], s[3]] for s in spec]})
    return int(np.count_nonzero(touched))


# =============================================================================== strategies


def _logu(lo, hi):
    return st.floats(math.log(lo), math.log(hi), allow_nan=False).map(math.exp)


@st.composite
def grids(draw, nmin, nmax, kinds=("uniform", "uniform", "smooth", "jitter")):
    kind = draw(st.sampled_from(kinds))
    n = draw(st.integers(nmin, nmax))
    rng = draw(st.sampled_from([1.0, 2.5, 10.0, 40.0, 100.0]))
    x0 = rng * draw(st.sampled_from([0.0, 0.1, -0.5, 1.0, 3.0]))
    g = {"kind": kind, "n": n, "x0": x0, "dx": rng / (n - 1)}
    if kind == "smooth":
        g["amp"] = draw(st.floats(0.05, 0.5))
        g["waves"] = draw(st.sampled_from([0.5, 1.0, 2.0]))
    elif kind == "jitter":
        g["amp"] = draw(st.floats(0.05, 0.5))
        g["seed"] = draw(st.integers(0, 2**32 - 1))
    return g


@st.composite
def model_spec(draw, role, max_items, kinds=None):
    kinds = kinds or (PEAK_KINDS if role == "peak" else BKG_KINDS)
    form = draw(st.sampled_from(["single", "single", "list", "tuple"])) if max_items > 1 else "single"
    n = 1 if form == "single" else draw(st.integers(1, max_items))
    items = []
    for _ in range(n):
        as_ = draw(st.sampled_from(["name", "instance"]))
        items.append({"kind": draw(st.sampled_from(kinds)), "as": as_,
                      "prefix": draw(st.sampled_from(PREFIXES)) if as_ == "instance" else ""})
    return {"form": form, "items": items}


@st.composite
def base_case(draw, nmin, nmax, max_peaks, grid_kinds=("uniform", "uniform", "smooth", "jitter"),
              max_models=(3, 2), custom=True, snr=(1.0, 300.0)):
    g = draw(grids(nmin, nmax, grid_kinds))
    x = grid_x(g)
    xmin, xmax = float(x[0]), float(x[-1])
    rng = xmax - xmin
    dxmax = float(np.max(np.diff(x)))
    sigma = draw(st.sampled_from([0.05, 0.3, 1.0, 4.0]))
    npk = draw(st.integers(1, max_peaks))
    pos = sorted(draw(st.lists(st.floats(0.04, 0.96), min_size=npk, max_size=npk)))
    peaks = []
    for f in pos:
        peaks.append({
            "kind": draw(st.sampled_from(PEAK_KINDS)),
            "pos": xmin + f * rng,
            "fwhm": draw(_logu(0.5 * dxmax, rng / 3)),
            "height": sigma * draw(_logu(*snr)),
            "frac": draw(st.sampled_from([0.0, 0.3, 0.5, 1.0])),
        })
    quad = draw(st.booleans())
    bkg = [draw(st.sampled_from([0.0, 5.0, 100.0])), draw(st.floats(-30, 30)),
           draw(st.floats(-30, 30)) if quad else 0.0]
    case = {
        "dim": draw(st.sampled_from(DIMS)), "xunit": draw(st.sampled_from(XUNITS)),
        "yunit": draw(st.sampled_from(YUNITS)),
        "grid": g, "bkg": bkg, "peaks": peaks,
        "noise": {"mode": draw(st.sampled_from(["const", "const", "signal"])), "sigma": sigma,
                  "seed": draw(st.integers(0, 2**32 - 1))},
        "models": {"peak": draw(model_spec("peak", max_models[0])),
                   "background": draw(model_spec("background", max_models[1]))},
        "params": {"gbf": None, "nsf": None, "explicit_default": False},
        "reqs": None,
    }
    if custom:
        case["params"] = {
            "gbf": draw(st.one_of(st.none(), st.none(), st.floats(0.34, 0.9))),
            "nsf": draw(st.one_of(st.none(), st.floats(0.05, 0.5))),
            "explicit_default": draw(st.booleans()),
        }
        if draw(st.booleans()):
            case["reqs"] = {"min_p": draw(st.sampled_from([0.0, 1e-6, 0.01, 0.05, 0.3])),
                            "max_w": draw(st.floats(0.2, 2.0)), "min_w": draw(st.floats(0.0, 3.0))}
    return case


@st.composite
def friendly_case(draw, nmin, nmax, max_peaks):
    """Well separated peaks of one kind, moderate signal-to-noise, the true models among the
    requested ones: most fits succeed, often with more than one model combination."""
    g = draw(grids(nmin, nmax))
    x = grid_x(g)
    xmin, rng = float(x[0]), float(x[-1] - x[0])
    sigma = draw(st.sampled_from([0.05, 0.3, 1.0]))
    npk = draw(st.integers(1, max_peaks))
    kind = draw(st.sampled_from(PEAK_KINDS))
    slot = rng / npk
    peaks = [{"kind": kind, "pos": xmin + (i + 0.5 + draw(st.floats(-0.1, 0.1))) * slot,
              "fwhm": slot / draw(st.floats(8, 16)), "height": sigma * draw(_logu(5, 300)),
              "frac": draw(st.sampled_from([0.3, 0.5, 0.7]))} for i in range(npk)]
    other = draw(st.sampled_from([k for k in PEAK_KINDS if k != kind]))
    pk_items = [kind, other] if draw(st.booleans()) else [other, kind]
    bk_items = draw(st.sampled_from([["linear", "quadratic"], ["quadratic", "linear"], ["linear"]]))
    quad = draw(st.booleans())

    def items(kinds):
        return [{"kind": k, "as": draw(st.sampled_from(["name", "instance"])), "prefix": "pre_"} for k in kinds]

    case = {
        "dim": draw(st.sampled_from(DIMS)), "xunit": draw(st.sampled_from(XUNITS)),
        "yunit": draw(st.sampled_from(YUNITS)), "grid": g,
        "bkg": [draw(st.sampled_from([0.0, 5.0, 100.0])), draw(st.floats(-5, 5)),
                draw(st.floats(-3, 3)) if quad else 0.0],
        "peaks": peaks,
        "noise": {"mode": draw(st.sampled_from(["const", "signal"])), "sigma": sigma,
                  "seed": draw(st.integers(0, 2**32 - 1))},
        "models": {"peak": {"form": draw(st.sampled_from(["list", "tuple"])), "items": items(pk_items)},
                   "background": {"form": draw(st.sampled_from(["list", "tuple"])), "items": items(bk_items)}},
        "params": {"gbf": None, "nsf": draw(st.one_of(st.none(), st.floats(0.05, 0.5))),
                   "explicit_default": draw(st.booleans())},
        "reqs": None,
    }
    est = [p["pos"] + draw(st.floats(-0.2, 0.2)) * p["fwhm"] for p in peaks]
    case["estimates"] = [float(v) for v in est]
    w = draw(st.floats(5, 9)) * peaks[0]["fwhm"]
    if draw(st.booleans()):
        case["windows"] = {"mode": "scalar", "width": float(w)}
    else:
        case["windows"] = {"mode": "explicit", "ranges": [[float(e - 0.5 * w), float(e + 0.5 * w)] for e in est]}
    return case


def _thin(values, min_sep, allow_dups):
    out = []
    for v in sorted(values):
        if not out or v - out[-1] >= min_sep or (allow_dups and v == out[-1]):
            out.append(v)
    return out


@st.composite
def inside_estimates(draw, case, min_sep_steps, edges=True, dups=True):
    """Sorted estimates inside the data: near the true peaks, decoys, duplicates, end points."""
    x = grid_x(case["grid"])
    xmin, xmax = float(x[0]), float(x[-1])
    dxmax = float(np.max(np.diff(x)))
    vals = []
    for p in case["peaks"]:
        how = draw(st.sampled_from(["exact", "exact", "jitter", "far", "drop"]))
        if how == "drop":
            continue
        j = {"exact": 0.0, "jitter": draw(st.floats(-0.3, 0.3)), "far": draw(st.floats(-1.0, 1.0))}[how]
        vals.append(min(max(p["pos"] + j * p["fwhm"], xmin), xmax))
    for _ in range(draw(st.integers(0, 2))):
        vals.append(xmin + draw(st.floats(0, 1)) * (xmax - xmin))
    if edges:
        e = draw(st.sampled_from(["none", "none", "first", "last", "both"]))
        if e in ("first", "both"):
            vals.append(xmin)
        if e in ("last", "both"):
            vals.append(xmax)
    if not vals:
        vals.append(case["peaks"][0]["pos"])
    vals = _thin(vals, min_sep_steps * dxmax, False)[:6]
    if dups and len(vals) < 6 and draw(st.integers(0, 4)) == 0:
        k = draw(st.integers(0, len(vals) - 1))
        vals.insert(k, vals[k])
    return [float(v) for v in vals]


def _widen_to(x, lo, hi, k):
    """Widen [lo, hi) symmetrically until it holds at least k points (or covers everything)."""
    step = float(np.max(np.diff(x)))
    for _ in range(200):
        if count_in(x, lo, hi) >= k:
            break
        lo -= step
        hi += step
    return lo, hi


@st.composite
def main_windows(draw, case, k_min, modes=("scalar", "explicit")):
    x = grid_x(case["grid"])
    rng = float(x[-1] - x[0])
    dxmax = float(np.max(np.diff(x)))
    est = case["estimates"]
    mode = draw(st.sampled_from(modes))
    wmax = max(p["fwhm"] for p in case["peaks"])

    def one_width():
        kind = draw(st.sampled_from(["fwhm", "fwhm", "range", "huge"]))
        if kind == "fwhm":
            return draw(st.floats(3, 12)) * wmax
        if kind == "range":
            return draw(st.floats(0.05, 1.0)) * rng
        return 3 * rng

    if mode == "scalar":
        w = max(one_width(), 2.5 * k_min * dxmax)
        return {"mode": "scalar", "width": float(w)}
    ranges = []
    for e in est:
        a, b = 0.5 * one_width() * draw(st.floats(0.5, 1.5)), 0.5 * one_width() * draw(st.floats(0.5, 1.5))
        lo, hi = _widen_to(x, e - a, e + b, k_min)
        ranges.append([float(lo), float(hi)])
    # explicit windows may be stored (dim, 'range') or ('range', dim), as a copy or as a transposed view
    # (seeded/C17-s3)
    return {"mode": "explicit", "ranges": ranges,
            "layout": draw(st.sampled_from(["dim-range", "dim-range", "range-dim", "transposed-view"]))}


@st.composite
def coherence_cases(draw, tier):
    if draw(st.integers(0, 3)) == 0:
        return draw(friendly_case(80, 200 if tier == "quick" else 600, 3))
    if tier == "quick":   # failing fits cost seconds each: fewer estimates and combinations
        case = draw(base_case(60, 200, 4, max_models=(2, 2)))
        case["estimates"] = draw(inside_estimates(case, 30))[:4]
    else:
        case = draw(base_case(60, 600, 6))
        case["estimates"] = draw(inside_estimates(case, 30))
    case["windows"] = draw(main_windows(case, K_MAIN))
    return case


@st.composite
def independence_cases(draw, tier):
    quick = tier == "quick"
    if draw(st.integers(0, 2)) > 0:
        case = draw(friendly_case(80, 150 if quick else 400, 2 if quick else 3))
        case["poison"] = draw(st.integers(0, len(case["estimates"]) - 1))
        case["poison_seed"] = draw(st.integers(0, 2**32 - 1))
        return case
    case = draw(base_case(60, 150 if quick else 400, 2 if quick else 3, max_models=(2, 2)))
    case["estimates"] = draw(inside_estimates(case, 30))[: 3 if quick else 4]
    case["windows"] = draw(main_windows(case, K_MAIN))
    case["poison"] = draw(st.integers(0, len(case["estimates"]) - 1))
    case["poison_seed"] = draw(st.integers(0, 2**32 - 1))
    return case


@st.composite
def auto_window_cases(draw, tier):
    """Scalar windows; estimates close together, duplicated, on the end points; any width that
    leaves at least K_TINY points in every window."""
    case = draw(base_case(40, 150, 4, max_models=(1, 1)))
    case["params"]["gbf"] = None
    case["estimates"] = draw(inside_estimates(case, draw(st.sampled_from([1, 3, 8, 20]))))
    x = grid_x(case["grid"])
    rng = float(x[-1] - x[0])
    dx = float(np.max(np.diff(x)))
    case["windows"] = {"mode": "scalar", "width": float(draw(st.one_of(
        _logu(6 * dx, 3 * rng), st.floats(8, 40).map(lambda m: m * dx), st.just(3 * rng))))}
    return case


@st.composite
def few_points_cases(draw, tier, zero_dof=False):
    case = draw(base_case(40, 120, 2, max_models=(2, 2), custom=False))
    case["reqs"] = draw(st.one_of(st.none(), st.just({"min_p": 0.0, "max_w": 2.0, "min_w": 0.0})))
    x = grid_x(case["grid"])
    est = draw(inside_estimates(case, 14, edges=False, dups=False))[:3]
    case["estimates"] = est
    if not zero_dof and case["grid"]["kind"] == "uniform" and len(est) == 1 and draw(st.booleans()):
        dx = float(np.max(np.diff(x)))
        case["windows"] = {"mode": "scalar", "width": float(draw(st.floats(4.2, 11.0)) * dx)}
        return case
    npars = sorted({PEAK_NPAR[p["kind"]] + BKG_NPAR[q["kind"]] for p, q in combos(case)})
    if zero_dof:
        allowed = npars
    else:
        allowed = [k for k in range(K_TINY, K_MAIN) if k not in npars]
    ranges = []
    for e in est:
        k = draw(st.sampled_from(allowed))
        j = int(np.argmin(np.abs(x - e)))
        i0 = min(max(j - k // 2, 0), len(x) - k)
        lo = float(x[i0])
        hi = float(np.nextafter(x[i0 + k - 1], np.inf))
        ranges.append([lo, hi])
    case["windows"] = {"mode": "explicit", "ranges": ranges}
    return case


@st.composite
def combo_order_cases(draw, tier):
    """Lists of models whose combinations differ in size, in either order, with explicit windows of
    5..8 points: the result must not depend on which combination is listed first being too large for
    the window (seeded C17-s13: a short-circuit on the first combination only)."""
    case = draw(few_points_cases(tier, zero_dof=True))
    # mostly the larger model first: that is the order in which a too-small window for the first
    # combination and a fitting later one can occur at all
    pk = draw(st.sampled_from([["pseudo_voigt", "gaussian"]] * 3 + [["gaussian", "pseudo_voigt"]]))
    bk = draw(st.sampled_from([["quadratic", "linear"]] * 3 + [["linear", "quadratic"]]))
    case["models"] = {
        "peak": {"form": draw(st.sampled_from(["list", "tuple"])),
                 "items": [{"kind": k, "as": "name", "prefix": ""} for k in pk]},
        "background": {"form": draw(st.sampled_from(["list", "tuple"])),
                       "items": [{"kind": k, "as": "name", "prefix": ""} for k in bk]},
    }
    x = grid_x(case["grid"])
    case["estimates"] = case["estimates"][:1]      # one peak per case: each costs seven fits
    ranges = []
    for e in case["estimates"]:
        k = draw(st.sampled_from([5, 6, 6, 6, 6, 7, 8]))
        j = int(np.argmin(np.abs(x - e)))
        i0 = min(max(j - k // 2, 0), len(x) - k)
        ranges.append([float(x[i0]), float(np.nextafter(x[i0 + k - 1], np.inf))])
    case["windows"] = {"mode": "explicit", "ranges": ranges}
    case["poison"] = draw(st.integers(0, 5))
    case["poison_seed"] = draw(st.integers(0, 2**32 - 1))
    # lenient requirements: whether some combination succeeds should depend on the window, not on noise
    case["reqs"] = {"min_p": 0.0, "max_w": 2.0, "min_w": 0.0}
    return case


@st.composite
def tiny_window_cases(draw, tier):
    """Estimates inside the data, default parameters; at least one window with 0..3 points."""
    case = draw(base_case(40, 120, 3, grid_kinds=("uniform", "uniform", "jitter"),
                          max_models=(2, 2), custom=False))
    x = grid_x(case["grid"])
    dx = float(np.min(np.diff(x)))
    est = draw(inside_estimates(case, 30, edges=False, dups=False))[:3]
    case["estimates"] = est
    if draw(st.booleans()):
        case["windows"] = {"mode": "scalar", "width": float(draw(st.sampled_from(
            [0.1, 0.5, 0.9, 1.0, 1.5, 2.0, 2.9, 3.5])) * dx)}
        return case
    tiny = draw(st.integers(0, len(est) - 1))
    ranges = []
    for i, e in enumerate(est):
        j = int(np.argmin(np.abs(x - e)))
        if i == tiny or draw(st.integers(0, 2)) == 0:
            k = draw(st.integers(0, K_TINY - 1))
            j = min(j, len(x) - 1 - max(k, 1))
            if k == 0:
                lo = float(x[j] + 0.25 * (x[j + 1] - x[j]))
                hi = float(x[j] + draw(st.sampled_from([0.25, 0.75])) * (x[j + 1] - x[j]))
            else:
                lo, hi = float(x[j]), float(np.nextafter(x[j + k - 1], np.inf))
        else:
            lo, hi = _widen_to(x, e, e, 2 * K_MAIN)
        ranges.append([float(lo), float(hi)])
    case["windows"] = {"mode": "explicit", "ranges": ranges}
    return case


@st.composite
def guess_fraction_cases(draw, tier):
    """Custom guess_background_fraction below 1/3 with windows of 6..40 points."""
    case = draw(base_case(60, 150, 2, grid_kinds=("uniform",), max_models=(1, 1), custom=False))
    case["params"]["gbf"] = draw(st.one_of(st.floats(0.02, 0.34), st.sampled_from([0.05, 0.1, 0.2, 0.25])))
    x = grid_x(case["grid"])
    est = draw(inside_estimates(case, 45, edges=False, dups=False))[:2]
    case["estimates"] = est
    ranges = []
    for e in est:
        k = draw(st.integers(6, 40))
        j = int(np.argmin(np.abs(x - e)))
        i0 = min(max(j - k // 2, 0), len(x) - k)
        ranges.append([float(x[i0]), float(np.nextafter(x[i0 + k - 1], np.inf))])
    case["windows"] = {"mode": "explicit", "ranges": ranges}
    return case


@st.composite
def edge_peak_cases(draw, tier):
    """A strong, well resolved peak 0.3..3.5 grid steps inside one end of an explicit window
    (the documented limit is 2 steps), model and background matching the data."""
    n = draw(st.integers(100, 160))
    dx = draw(st.sampled_from([0.01, 0.25, 1.0]))
    g = {"kind": "uniform", "n": n, "x0": draw(st.sampled_from([0.0, 1.0, -20.0])) * dx * 10, "dx": dx}
    x = grid_x(g)
    sigma = draw(st.sampled_from([0.05, 0.3, 1.0]))
    kind = draw(st.sampled_from(PEAK_KINDS[:2]))
    j = draw(st.integers(45, n - 46))       # index of the first / last point of the window
    t = draw(st.one_of(st.floats(1.05, 1.95), st.floats(0.3, 3.5)))   # distance of the peak from it
    far = draw(st.integers(25, 40))
    side = draw(st.sampled_from(["low", "high"]))
    if side == "low":
        pos = float(x[j] + t * dx)
        rng_ = [float(x[j]), float(np.nextafter(x[j + far], np.inf))]
    else:
        pos = float(x[j] - t * dx)
        rng_ = [float(x[j - far]), float(np.nextafter(x[j], np.inf))]
    npts = count_in(x, rng_[0], rng_[1])
    # the peak guess uses the window without int(N*fraction/2) points at either end: keep that at
    # one point so that a peak next to the window end can be found at all
    gbf = draw(st.floats(2.1, 3.9)) / npts
    return {
        "dim": "x", "xunit": "angstrom", "yunit": "counts", "grid": g,
        "bkg": [draw(st.sampled_from([0.0, 5.0])), draw(st.floats(-5, 5)), 0.0],
        "peaks": [{"kind": kind, "pos": pos, "fwhm": draw(st.floats(3.0, 8.0)) * dx,
                   "height": sigma * draw(_logu(20, 200)), "frac": 0.5}],
        "noise": {"mode": "const", "sigma": sigma, "seed": draw(st.integers(0, 2**32 - 1))},
        "models": {"peak": {"form": "single", "items": [{"kind": kind, "as": "name", "prefix": ""}]},
                   "background": {"form": "single", "items": [{"kind": "linear", "as": "name", "prefix": ""}]}},
        "params": {"gbf": gbf, "nsf": None, "explicit_default": False},
        "reqs": draw(st.one_of(st.none(), st.just({"min_p": 0.0, "max_w": 2.0, "min_w": 0.5}))),
        "estimates": [pos], "edge_side": side,
        "windows": {"mode": "explicit", "ranges": [[float(rng_[0]), float(rng_[1])]]},
    }


@st.composite
def gap_grid_cases(draw, tier):
    """Uniform grid with one gap of 6..40 spacings (removed region / merged banks); a broad strong
    peak centred inside the gap, fitted in a window that ends just behind the gap."""
    n1 = draw(st.integers(60, 140))
    n2 = draw(st.sampled_from([1, 1, 2, 30]))
    jump = draw(st.floats(6.0, 40.0))
    dx = draw(st.sampled_from([0.01, 0.05, 1.0]))
    g = {"kind": "gap", "n": n1 + n2, "n1": n1, "x0": draw(st.sampled_from([0.0, 1.0, 50.0])) * dx * 10,
         "dx": dx, "jump": jump}
    x = grid_x(g)
    gap = float(x[n1] - x[n1 - 1])
    sigma = draw(st.sampled_from([0.05, 0.3, 1.0]))
    kind = draw(st.sampled_from(PEAK_KINDS[:2]))
    # distance of the peak centre from the first point behind the gap, in units of the gap
    t = draw(st.one_of(st.floats(0.02, 0.5), st.floats(0.02, 0.5), st.floats(0.5, 1.5)))
    pos = float(x[n1] - t * gap)
    case = {
        "dim": "x", "xunit": "angstrom", "yunit": "counts", "grid": g,
        "bkg": [draw(st.sampled_from([0.0, 5.0])), draw(st.floats(-5, 5)), 0.0],
        "peaks": [{"kind": kind, "pos": pos, "fwhm": draw(st.floats(1.0, 5.0)) * gap,
                   "height": sigma * draw(_logu(20, 300)), "frac": 0.5}],
        "noise": {"mode": "const", "sigma": sigma, "seed": draw(st.integers(0, 2**32 - 1))},
        "models": {"peak": {"form": "single", "items": [{"kind": kind, "as": "name", "prefix": ""}]},
                   "background": {"form": "single", "items": [{"kind": "linear", "as": "name", "prefix": ""}]}},
        "params": {"gbf": None, "nsf": None, "explicit_default": False},
        "reqs": draw(st.one_of(st.none(), st.just({"min_p": 0.0, "max_w": 1.0, "min_w": 1.0}))),
        "estimates": [pos],
    }
    lo = float(x[n1 - 1] - draw(st.floats(1.0, 6.0)) * gap)
    case["windows"] = {"mode": "explicit",
                       "ranges": [[max(lo, float(x[0])), float(np.nextafter(x[n1], np.inf))]]}
    return case


@st.composite
def outside_inverted_low_cases(draw, tier):
    """Mirror image of outside_inverted_cases at the lower end: the separation bound of the first
    estimate lies below the first data point (estimate far below the data, or two estimates below)."""
    case = _simple_inside(draw)
    x = grid_x(case["grid"])
    xmin = float(x[0])
    rng = float(x[-1]) - xmin
    dx = float(np.max(np.diff(x)))
    f = case["params"]["nsf"] if case["params"]["nsf"] is not None else 1 / 3
    inside = draw(inside_estimates(case, 40, edges=False, dups=False))[:2]
    e_next = inside[0]
    e = e_next - (e_next - xmin) / f * draw(st.floats(1.05, 4.0)) - dx
    est = [e, *inside]
    if draw(st.booleans()):
        est.insert(0, e - draw(st.floats(0.01, 1.0)) * rng)
    case["estimates"] = [float(v) for v in est]
    case["windows"] = {"mode": "scalar", "width": float(draw(st.floats(30, 60)) * dx)}
    return case


def _simple_inside(draw, nmax=120, max_peaks=2):
    case = draw(base_case(50, nmax, max_peaks, grid_kinds=("uniform", "uniform", "jitter"),
                          max_models=(1, 1), custom=False))
    case["params"]["nsf"] = draw(st.one_of(st.none(), st.floats(0.05, 0.5)))
    return case


@st.composite
def outside_empty_cases(draw, tier):
    """An estimate beyond an end of the data whose window is merely clipped (empty or short):
    a single estimate, or an estimate beyond one end next to estimates inside the data, with the
    neighbour-separation bound still inside the data."""
    case = _simple_inside(draw)
    x = grid_x(case["grid"])
    xmin, xmax = float(x[0]), float(x[-1])
    rng = xmax - xmin
    dx = float(np.max(np.diff(x)))
    f = case["params"]["nsf"] if case["params"]["nsf"] is not None else 1 / 3
    width = float(draw(st.floats(30, 60)) * dx)
    beyond = draw(st.one_of(_logu(0.01, 2.0).map(lambda t: t * rng), st.floats(0.1, 40).map(lambda m: m * dx)))
    kind = draw(st.sampled_from(["single-high", "single-low", "high-after-inside", "low-before-inside"]))
    inside = draw(inside_estimates(case, 40, edges=False, dups=False))[:2]
    if kind == "single-high":
        est = [xmax + beyond]
    elif kind == "single-low":
        est = [xmin - beyond]
    elif kind == "high-after-inside":
        e_prev = inside[-1]
        # keep the separation bound inside the data: e_prev + f*(e - e_prev) <= xmax
        e = min(xmax + beyond, e_prev + 0.98 * (xmax - e_prev) / f)
        est = [*inside, e] if e > xmax else [xmax + beyond]
    else:
        e_next = inside[0]
        # keep the separation bound inside the data: e_next - f*(e_next - e) >= xmin
        e = max(xmin - beyond, e_next - 0.98 * (e_next - xmin) / f)
        est = [e, *inside] if e < xmin else [xmin - beyond]
    case["estimates"] = [float(v) for v in est]
    case["windows"] = {"mode": "scalar", "width": width}
    case["outside_kind"] = kind
    return case


@st.composite
def outside_inverted_cases(draw, tier):
    """Estimates inside the data followed by one beyond the upper end, so far out that the
    neighbour-separation bound  e_prev + f*(e - e_prev)  lies beyond the last data point."""
    case = _simple_inside(draw)
    x = grid_x(case["grid"])
    xmax = float(x[-1])
    rng = xmax - float(x[0])
    dx = float(np.max(np.diff(x)))
    f = case["params"]["nsf"] if case["params"]["nsf"] is not None else 1 / 3
    inside = draw(inside_estimates(case, 40, edges=False, dups=False))[:2]
    e_prev = inside[-1]
    e = e_prev + (xmax - e_prev) / f * draw(st.floats(1.05, 4.0)) + dx
    est = [*inside, e]
    if draw(st.booleans()):
        est.append(e + draw(st.floats(0.01, 1.0)) * rng)
    case["estimates"] = [float(v) for v in est]
    case["windows"] = {"mode": "scalar", "width": float(draw(st.floats(30, 60)) * dx)}
    return case


# =============================================================================== facet checks


def case_labels(case):
    g = case["grid"]
    labs = ["win:" + case["windows"]["mode"], f"n_est:{len(case['estimates'])}", "grid:" + g["kind"],
            "peakspec:" + case["models"]["peak"]["form"], "bkgspec:" + case["models"]["background"]["form"],
            f"combos:{len(combos(case))}", "noise:" + case["noise"]["mode"]]
    for role in ("peak", "background"):
        for it in case["models"][role]["items"]:
            labs.append(f"{role}:{it['kind']}:{it['as']}")
    if case["reqs"] is not None:
        labs.append("custom-requirements")
    if case["params"].get("gbf") is not None:
        labs.append("custom-guess-fraction")
    if case["params"].get("nsf") is not None:
        labs.append("custom-separation")
    est = case["estimates"]
    if any(a == b for a, b in zip(est, est[1:], strict=False)):
        labs.append("duplicate-estimates")
    x = grid_x(g)
    if any(e == x[0] or e == x[-1] for e in est):
        labs.append("estimate-on-end-point")
    if any(e < x[0] or e > x[-1] for e in est):
        labs.append("estimate-outside-data")
    cnt = intended_counts(case)
    m = min(cnt)
    labs.append("minpoints:" + ("0" if m == 0 else "1-3" if m < K_TINY else "4-11" if m < K_MAIN else "12+"))
    return labs


def _mixed(summary, n_results):
    if not summary["recomputed"]:
        return False
    return n_results == 1 or (summary["success"] >= 1 and summary["nonsuccess"] >= 1)


def _run_and_analyse(case, removal=True):
    w = case.get("windows", {})
    if (w.get("mode") == "explicit" and len(case["estimates"]) >= 2 and not case.get("_reordered")
            and math.floor(sum(case["estimates"]) * 1e3) % 2 == 0):
        # explicit windows do not need ascending estimates (only the automatic windows do): every other
        # such case lists its peaks from the right (seeded C17-s14: the sortedness refusal moved up front)
        case = dict(case, estimates=list(reversed(case["estimates"])), _reordered=True,
                    windows=dict(w, ranges=list(reversed(w["ranges"]))))
    labels = case_labels(case)
    if case.get("_reordered"):
        labels.append("estimates-descending")
    b = build(case)
    results = call_fit(b)
    summary = analyse(case, b, results, labels, removal=removal)
    if summary["success"] and summary["nonsuccess"]:
        labels.append("mixed-outcomes")
    return b, results, summary, labels


def check_coherence(case):
    _, results, summary, labels = _run_and_analyse(case)
    return labels, _mixed(summary, len(results))


def check_zero_dof(case):
    _, results, summary, labels = _run_and_analyse(case)
    return labels, "points==parameters" in labels


def check_auto_windows(case):
    _, results, summary, labels = _run_and_analyse(case)
    if summary["moved"]:
        labels.append("window-adjusted")
    return labels, summary["moved"] > 0


def check_tiny_window(case):
    _, results, summary, labels = _run_and_analyse(case)
    return labels, summary["too_narrow"] > 0


def check_outside(case):
    _, results, summary, labels = _run_and_analyse(case)
    if "outside_kind" in case:
        labels.append("outside:" + case["outside_kind"])
    return labels, "estimate-outside-data" in labels


def _result_fingerprint(r):
    fp = {
        "assessment": r.assessment.name, "message": r.message,
        "peak": type(r.peak).__name__, "background": (type(r.background).__name__, r.background.degree),
        "window": r.window.values.tolist(),
    }
    for name in ("red_chisq", "p_value", "aic"):
        fp[name] = _val(getattr(r, name))
    for name in sorted(r.popt):
        v = r.popt[name]
        fp["popt:" + name] = (_val(v), None if v.variance is None else float(v.variance), str(v.unit))
    return fp


def _differences(a, b):
    fa, fb = _result_fingerprint(a), _result_fingerprint(b)
    out = []
    for k in sorted(set(fa) | set(fb)):
        va, vb = fa.get(k), fb.get(k)
        if not _same(va, vb):
            out.append(f"{k}: {va!r} vs {vb!r}")
    return out


def _same(a, b):
    if isinstance(a, float) and isinstance(b, float):
        return a == b or (math.isnan(a) and math.isnan(b))
    if isinstance(a, (tuple, list)) and isinstance(b, (tuple, list)):
        return len(a) == len(b) and all(_same(p, q) for p, q in zip(a, b, strict=True))
    return a == b


def check_independence(case):
    import scipp as sc

    b, results, summary, labels = _run_and_analyse(case, removal=False)
    dim, xu = case["dim"], case["xunit"]
    cs = combos(case)
    reproduced = 0
    for i, r in enumerate(results):
        est = sc.array(dims=[dim], values=[case["estimates"][i]], unit=xu)
        win = sc.array(dims=[dim, "range"], values=[summary["windows"][i]], unit=xu)
        alone = call_fit(b, est=est, win=win)
        if len(alone) != 1:
            raise Violation("result-count", f"{len(alone)} results for a single estimate")
        diff = _differences(r, alone[0])
        if diff:
            raise Violation("independence", f"peak {i} fitted alone in its reported window differs from the "
                                            f"batch result: {'; '.join(diff[:4])}",
                            {"window": summary["windows"][i]})
        if math.isfinite(_val(r.red_chisq)):
            reproduced += 1
        if len(cs) > 1:
            singles = [call_fit(b, est=est, win=win, peak=_model_obj(p, "peak"),
                                background=_model_obj(q, "background"))[0] for p, q in cs]
            firsts = [j for j, s in enumerate(singles) if s.success]
            if firsts:
                labels.append("first-success-at:" + str(min(firsts[0], 3)))
                if len(firsts) > 1:
                    labels.append("several-combinations-succeed")
                diff = _differences(r, singles[firsts[0]])
                if diff:
                    raise Violation("model-order",
                                    f"peak {i}: combination {firsts[0]} {cs[firsts[0]][0]['kind']}+{cs[firsts[0]][1]['kind']} "
                                    f"is the first to succeed on its own, but the result differs: {'; '.join(diff[:4])}")
            else:
                labels.append("no-combination-succeeds")
                if r.success or all(_differences(r, s) for s in singles):
                    raise Violation("model-order", f"peak {i}: no single combination succeeds, result is "
                                                   f"{r.assessment.name} and equals none of them")
    # a result depends only on the data inside its own window
    k = case["poison"] % len(results)
    lo, hi = summary["windows"][k]
    x = b["x"]
    outside = ~((x >= lo) & (x < hi))
    if np.any(outside):
        z = np.random.Generator(np.random.PCG64(case["poison_seed"])).standard_normal(len(x))
        y2 = b["y"].copy()
        y2[outside] = 1e3 * (1 + np.abs(b["y"][outside])) * z[outside]
        da2 = b["da"].copy(deep=True)
        da2.values = y2
        win_all = sc.array(dims=[dim, "range"], values=np.asarray(summary["windows"]), unit=xu)
        again = call_fit(b, da=da2, win=win_all)
        diff = _differences(results[k], again[k])
        if diff:
            raise Violation("independence", f"peak {k} changed when only data outside its window "
                                            f"[{lo!r}, {hi!r}) were replaced: {'; '.join(diff[:4])}")
        labels.append("poisoned-outside")
    return labels, reproduced > 0


# ------------------------------------------------------------------- remove_peaks on hand-built results


@st.composite
def removal_cases(draw, tier):
    g = draw(grids(20, 300))
    x = grid_x(g)
    xmin, xmax = float(x[0]), float(x[-1])
    rng = xmax - xmin
    dx = float(np.max(np.diff(x)))
    res = []
    for _ in range(draw(st.integers(0, 6))):
        lo = xmin + draw(st.floats(-0.3, 1.2)) * rng
        wkind = draw(st.sampled_from(["normal", "normal", "empty", "one-point", "all"]))
        if wkind == "normal":
            hi = lo + draw(st.floats(0.0, 0.8)) * rng
        elif wkind == "empty":
            hi = lo
        elif wkind == "one-point":
            j = draw(st.integers(0, len(x) - 1))
            lo, hi = float(x[j]), float(np.nextafter(x[j], np.inf))
        else:
            lo, hi = xmin - dx, xmax + dx
        a = draw(st.sampled_from(["success", "success", "success", *ASSESSMENTS[1:]]))
        res.append({
            "kind": draw(st.sampled_from(PEAK_KINDS)), "bkg": draw(st.sampled_from(BKG_KINDS)),
            "amplitude": draw(st.floats(-50, 50)) * rng, "loc": xmin + draw(st.floats(-0.2, 1.2)) * rng,
            "scale": draw(_logu(0.01 * dx, rng)), "fraction": draw(st.floats(0, 1)),
            "lo": float(lo), "hi": float(hi), "assessment": a,
            "nan_popt": a != "success" and draw(st.booleans()), "popt_variances": draw(st.booleans()),
        })
    return {
        "dim": draw(st.sampled_from(DIMS)), "xunit": draw(st.sampled_from(XUNITS)),
        "yunit": draw(st.sampled_from(YUNITS)), "grid": g,
        "y": {"c0": draw(st.floats(-100, 100)), "c1": draw(st.floats(-50, 50)),
              "sigma": draw(st.sampled_from([0.0, 0.1, 3.0])), "seed": draw(st.integers(0, 2**32 - 1))},
        "results": res, "variances": draw(st.integers(0, 9)) == 0,
        "container": draw(st.sampled_from(["list", "tuple", "generator"])), "mask": draw(st.booleans()),
    }


def check_removal(case):
    import scipp as sc
    from scippneutron.peaks import FitAssessment, FitResult, remove_peaks
    from scippneutron.peaks import model as M

    x = grid_x(case["grid"])
    dim, xu, yu = case["dim"], case["xunit"], case["yunit"]
    yy = case["y"]
    z = np.random.Generator(np.random.PCG64(yy["seed"])).standard_normal(len(x))
    y = yy["c0"] + yy["c1"] * (x - x[0]) / (x[-1] - x[0]) + yy["sigma"] * z
    data = sc.array(dims=[dim], values=y, unit=yu)
    if case["variances"]:
        data.variances = np.full(len(x), 0.5)
    da = sc.DataArray(data, coords={dim: sc.array(dims=[dim], values=x, unit=xu)})
    if case["mask"]:
        da.masks["m"] = sc.array(dims=[dim], values=(np.arange(len(x)) % 3 == 0))
    results, spec = [], []
    ux, uy = sc.Unit(xu), sc.Unit(yu)
    for rs in case["results"]:
        cls = {"gaussian": M.GaussianModel, "lorentzian": M.LorentzianModel,
               "pseudo_voigt": M.PseudoVoigtModel}[rs["kind"]]
        deg = 1 if rs["bkg"] == "linear" else 2
        nan = rs["nan_popt"]
        ppar = {"amplitude": rs["amplitude"], "loc": rs["loc"], "scale": rs["scale"]}
        units = {"amplitude": uy * ux, "loc": ux, "scale": ux}
        if rs["kind"] == "pseudo_voigt":
            ppar["fraction"] = rs["fraction"]
            units["fraction"] = sc.Unit("one")
        popt = {}
        for name, v in ppar.items():
            popt["peak_" + name] = sc.scalar(math.nan if nan else v, unit=units[name],
                                             variance=0.25 if rs["popt_variances"] else None)
        for i in range(deg + 1):
            popt[f"bkg_a{i}"] = sc.scalar(math.nan if nan else 1.0 + i, unit=uy / ux**i)
        results.append(FitResult(
            aic=sc.scalar(math.nan), assessment=FitAssessment[rs["assessment"]],
            background=M.PolynomialModel(degree=deg, prefix="bkg_"), message=rs["assessment"],
            p_value=sc.scalar(math.nan), peak=cls(prefix="peak_"), popt=popt, red_chisq=sc.scalar(math.nan),
            window=sc.array(dims=["range"], values=[rs["lo"], rs["hi"]], unit=xu)))
        if rs["assessment"] == "success":
            spec.append((rs["kind"], ppar, rs["lo"], rs["hi"]))
    arg = {"list": list, "tuple": tuple, "generator": iter}[case["container"]](results)
    before = da.copy(deep=True)
    labels = [f"n_results:{len(results)}", f"n_success:{len(spec)}", "container:" + case["container"],
              "grid:" + case["grid"]["kind"]]
    if case["variances"]:
        labels.append("with-variances")
        try:
            remove_peaks(da, arg)
        except sc.VariancesError:
            if not sc.identical(da, before):
                raise Violation("removal-input-modified", "input modified while refusing variances") from None
            return labels, True
        raise Violation("variances-accepted", "remove_peaks accepted data with variances")
    out = remove_peaks(da, arg)
    if not sc.identical(da, before):
        raise Violation("removal-input-modified", "remove_peaks changed its input")
    if case["mask"] and ("m" not in out.masks or not sc.identical(out.masks["m"], before.masks["m"])):
        raise Violation("removal-coords", "mask lost or changed")
    touched = compare_removal(x, y, out, spec, dim, yu, before)
    for rs in case["results"]:
        labels.append("window:" + ("empty" if count_in(x, rs["lo"], rs["hi"]) == 0 else "nonempty")
                      + ":" + ("success" if rs["assessment"] == "success" else "ignored"))
    return labels, 0 < touched < len(x)


# =============================================================================== known findings


def _is(v, name):
    return v.kind == "unexpected-exception:" + name


def _m_guess_before_guard(case, v):
    """Guesses computed before the point-count guard: a window with fewer than 4 points raises."""
    return (_is(v, "ValueError") and "empty" in v.message and "estimates" in case
            and case["params"].get("gbf") is None and min(intended_counts(case)) < K_TINY)


def _m_guess_fraction(case, v):
    """guess_background_fraction so small that int(N*f/2) == 0: data[0:-0] is empty."""
    f = case.get("params", {}).get("gbf")
    return (_is(v, "ValueError") and "empty" in v.message and f is not None
            and any(c >= K_TINY and int(c * f / 2) == 0 for c in intended_counts(case)))


def _m_window_beyond_data(case, v):
    """Clipping before neighbour separation: an estimate beyond the data gets an inverted window."""
    if "estimates" not in case or case["windows"]["mode"] != "scalar":
        return False
    x = grid_x(case["grid"])
    outside = any(e < x[0] or e > x[-1] for e in case["estimates"])
    return outside and ((_is(v, "IndexError") and "end must be >= begin" in v.message)
                        or v.kind in ("window-inverted", "window-outside-data"))


def _m_too_narrow_index(case, v):
    """_peak_is_too_narrow indexes one past the last point of the window when the fitted location
    is nearest to that point (possible only where the spacing there exceeds 4x the smallest)."""
    return (_is(v, "IndexError") and "requested index" in v.message
            and case.get("grid", {}).get("kind") == "gap")


def _npars(case):
    return {PEAK_NPAR[p["kind"]] + BKG_NPAR[q["kind"]] for p, q in combos(case)}


def _m_zero_dof_success(case, v):
    """A window with exactly as many points as parameters: p-value NaN, yet marked successful."""
    return (v.kind == "success-requirements" and "p = nan" in v.message and "estimates" in case
            and any(c in _npars(case) for c in intended_counts(case)))


MATCHERS = {
    "C17.guess_before_guard": _m_guess_before_guard,
    "C17.guess_fraction_empty_bulk": _m_guess_fraction,
    "C17.window_beyond_data": _m_window_beyond_data,
    "C17.too_narrow_index_at_gap": _m_too_narrow_index,
    "C17.success_with_zero_dof": _m_zero_dof_success,
}


# =============================================================================== facets


def _in_range(lo, hi, near_npar=None):
    """All intended windows hold lo..hi points; near_npar=d excludes windows whose point count is
    within d of the parameter count of a requested combination (the zero_dof region)."""
    def pred(case):
        c = intended_counts(case)
        if min(c) < lo or (hi is not None and min(c) > hi):
            return False
        if near_npar is not None:
            ks = _npars(case)
            if any(abs(n - k) <= near_npar for n in c for k in ks):
                return False
        return True
    return pred


def _zero_dof_region(case):
    c = intended_counts(case)
    return min(c) >= K_TINY and any(n in _npars(case) for n in c)


FACETS = [
    Facet("coherence", check_coherence,
          strategy=lambda tier: coherence_cases(tier).filter(_in_range(K_MAIN, None)),
          quick=(5, 10), thorough=(16, 60), shrink=False, min_nontrivial=0.2,
          doc="count/order, statistics recomputed, success => requirements, too-narrow rule, removal; "
              "windows of >= 12 points, estimates inside the data"),
    Facet("independence", check_independence,
          strategy=lambda tier: independence_cases(tier).filter(_in_range(K_MAIN, None)),
          quick=(4, 5), thorough=(16, 20), shrink=False, min_nontrivial=0.2,
          doc="each peak alone in its reported window; first successful combination wins; data outside "
              "the window are irrelevant"),
    Facet("auto_windows", check_auto_windows,
          strategy=lambda tier: auto_window_cases(tier).filter(_in_range(K_TINY, None, near_npar=1)),
          quick=(2, 12), thorough=(16, 40), shrink=False, min_nontrivial=0.2,
          doc="scalar widths: windows inside the data, containing the estimate, separated from neighbours"),
    Facet("few_points", check_coherence,
          strategy=lambda tier: few_points_cases(tier).filter(_in_range(K_TINY, K_MAIN - 1, near_npar=0)),
          quick=(4, 12), thorough=(16, 15), shrink=False, min_nontrivial=0.0,
          doc="windows of 4..11 points (not equal to a parameter count): too-narrow rule at the boundary"),
    Facet("edge_peak", check_coherence, strategy=lambda tier: edge_peak_cases(tier),
          quick=(1, 20), thorough=(16, 40), shrink=False, min_nontrivial=0.2,
          doc="peak 0.3..3.5 steps inside a window end: success only if at least 2 steps away"),
    Facet("remove_synthetic", check_removal, strategy=lambda tier: removal_cases(tier),
          quick=(3, 250), thorough=(16, 1500), min_nontrivial=0.2,
          doc="remove_peaks on hand-built FitResults: arbitrary windows, assessments, containers, variances refusal"),
    # ---- facets confined to one suspected root cause each (see MATCHERS)
    Facet("tiny_window", check_tiny_window,
          strategy=lambda tier: tiny_window_cases(tier).filter(lambda c: min(intended_counts(c)) < K_TINY),
          quick=(1, 30), thorough=(4, 100), shrink=True, min_nontrivial=0.2,
          doc="windows of 0..3 points must give 'window too narrow', not an exception"),
    Facet("zero_dof", check_zero_dof,
          strategy=lambda tier: few_points_cases(tier, zero_dof=True).filter(_zero_dof_region),
          quick=(4, 12), thorough=(16, 60), shrink=False, min_nontrivial=0.2,
          doc="windows holding exactly as many points as the model has parameters"),
    Facet("combo_order", check_independence, strategy=lambda tier: combo_order_cases(tier),
          quick=(8, 3), thorough=(16, 40), shrink=False, min_nontrivial=0.0,
          doc="pseudo-Voigt/Gaussian x quadratic/linear lists in either order on windows of 5..8 points: the "
              "result is that of the first combination that succeeds on its own (or of one of them if none does)"),
    Facet("guess_fraction", check_coherence, strategy=lambda tier: guess_fraction_cases(tier),
          quick=(1, 25), thorough=(4, 80), shrink=True, min_nontrivial=0.0,
          doc="custom guess_background_fraction below 1/3 with windows of 6..40 points"),
    Facet("outside_empty_window", check_outside, strategy=lambda tier: outside_empty_cases(tier),
          quick=(1, 25), thorough=(4, 80), shrink=True, min_nontrivial=0.2,
          doc="estimate beyond the data whose window is merely clipped"),
    Facet("outside_inverted_window", check_outside, strategy=lambda tier: outside_inverted_cases(tier),
          quick=(1, 25), thorough=(4, 80), shrink=True, min_nontrivial=0.2,
          doc="estimate beyond the upper end whose neighbour-separation bound lies beyond the data"),
    Facet("outside_inverted_low", check_outside, strategy=lambda tier: outside_inverted_low_cases(tier),
          quick=(1, 25), thorough=(4, 80), shrink=True, min_nontrivial=0.2,
          doc="mirror image at the lower end (scipp maps both inverted labels to index 0: no IndexError, "
              "the empty slice reaches the guess code instead)"),
    Facet("grid_gap", check_coherence, strategy=lambda tier: gap_grid_cases(tier),
          quick=(1, 25), thorough=(4, 80), shrink=False, min_nontrivial=0.0,
          doc="uniform grid with one gap; broad peak centred in the gap, window ending behind it"),
]


def selftest():
    fs.selftest()
    case = {"grid": {"kind": "uniform", "n": 201, "x0": 0.0, "dx": 0.05},
            "estimates": [3.0, 3.3, 7.0], "windows": {"mode": "scalar", "width": 2.0},
            "params": {"nsf": None}}
    w = intended_windows(case)
    assert abs(w[0][0] - 2.0) < 1e-12 and abs(w[0][1] - 3.2) < 1e-12, w
    assert abs(w[1][0] - 3.1) < 1e-12 and abs(w[1][1] - 4.3) < 1e-12, w
    assert abs(w[2][0] - 6.0) < 1e-12 and abs(w[2][1] - 8.0) < 1e-12, w
    x = grid_x(case["grid"])
    assert count_in(x, 1.0, 1.1) == 2 and count_in(x, 1.01, 1.04) == 0 and count_in(x, 0.0, 10.0) == 200
    case["estimates"] = [9.9, 12.0]
    w = intended_windows(case)
    assert w[1][0] == 10.0 and w[1][1] == 10.0, w
    g = grid_x({"kind": "gap", "n": 5, "n1": 3, "x0": 1.0, "dx": 0.5, "jump": 4.0})
    assert g.tolist() == [1.0, 1.5, 2.0, 4.0, 4.5]
