"""C06 — event-mode conversion equals dense conversion and preserves the data."""

import itertools
import math

import numpy as np
from hypothesis import strategies as st

from ..core import Facet, HarnessError, Violation
from ..gen import unit_vector

PROPERTY = "C06"
RULE = (
    "Hypothesis draws a bin grid (1-d pixels, pixels x origin-dim in both dim orders, 2-d pixel "
    "grid, origin-dim only, a single 0-d bin), a buffer layout given by explicit per-bin sizes "
    "(0 biased), gaps before each bin, a trailing gap and the order in which the bins sit in the "
    "buffer (identity / reversed / permuted), from which begin/end are computed and passed to "
    "sc.bins; layout classes with extra mass: all events in one bin, empty first and last bin, all "
    "bins empty over a non-empty buffer, zero events in total. Event coordinate dtype float64/"
    "float32/int64/int32 (int32 with values below 2^31) in a drawn unit with physical magnitudes (tof 1e-5..1e-1 s, wavelength 0.05..50 "
    "angstrom, energy 0.01..1e4 meV, Q 0.01..50 1/angstrom, occasionally 0); weights float64/float32 "
    "with or without variances; a unique int64 event-id coordinate, optionally an event mask; masks "
    "on the pixel dims and on the origin dim; unrelated pixel and scalar coordinates; a bin-edge (or "
    "point, or no) dense coordinate on the origin dim in float64 or the event dtype, in the unit of "
    "the events or another one; geometry per pixel either as positions (source, sample, pixel "
    "position; random directions, m/mm/cm) or as derived lengths and angles (Ltotal, L1, L2, "
    "two_theta; m/mm, rad/deg, float64/float32, per pixel or scalar), optionally without scattering; "
    "fixed energy for the inelastic targets as float64/float32/int64 scalar or per pixel, arrival "
    "times on both sides of t0. Optionally the object is a slice of a larger one and/or an item of a "
    "Dataset (with a dense item beside it). Origins tof, wavelength, energy, Q; targets wavelength, "
    "energy, dspacing, Q, Qx, Qy, Qz, Q_vec, energy_transfer (direct and indirect). layout_grid "
    "enumerates 6 fixed layouts x 4 grids x 4 event dtypes x all 22 origin/target pairs. "
    "convert_history draws such an object (2/3 inelastic), converts it, then changes one geometry "
    "coordinate of the same object in its own buffer (L1, L2, Ltotal, two_theta, position, "
    "source_position, sample_position, incident_energy, final_energy: floats and vectors scaled by "
    "0.8..1.25, two_theta by 0.5..0.98, integers shifted by 1..7; through the parent when the object "
    "is a slice) and converts again, once or twice; all conversions run back to back after one "
    "warm-up conversion of a fixed unrelated object, the comparisons with the dense kernels follow, "
    "each against the snapshot of the coordinates taken before its conversion. convert_large builds "
    "1-d pixel grids of 701..2003 pixels holding 2^21..3.4e6 events in total (bin sizes 0, n, 2n "
    "cycled over the pixels, bins in buffer order or reversed, tof float64/float32/int64/int32, "
    "optional variances and event mask, per-pixel Ltotal/L2/two_theta/final_energy) vectorised from "
    "a seed in the case (splitmix64 counter hash, no generator state) and compares all events with the "
    "dense kernels applied to the flat event table with the geometry of each event's pixel repeated "
    "per event, plus bin sizes, event count, weights, event ids, masks, coordinates. "
    "kernel_events calls the 13 conversion kernels directly with binned variables (1 to 3 binned "
    "operands sharing begin/end, dense operands per pixel or scalar in drawn units and dtypes), in "
    "1/3 of the cases a second time after one dense operand was changed in place; "
    "gravity_events does the same for the two gravity-corrected angle functions with binned "
    "wavelength (geometry coordinates are kept in the dim order of the data). Oracle: for every bin, the dense kernel chain "
    "(scippneutron.conversion.beamline + .tof functions called on a dense 1-d variable holding that "
    "bin's events, read from the input object before the call, and the 0-d geometry of that bin's "
    "pixel) must reproduce the event values, unit and dtype bit for bit (NaN = NaN); same for the "
    "dense origin coordinate; weights, variances, event ids, event masks per bin in order, bin "
    "sizes, masks, unrelated coords, dense dataset item equal to the input modulo one consistent "
    "rename of the origin dim; every buffer of the input (including events in gaps and the parent of "
    "a slice) bitwise unchanged. A case is non-trivial when at least one event value was compared "
    "and (the grid has an empty and a non-empty bin, or the event dtype is not float64, or the grid "
    "is 2-d); a history is non-trivial when event values were compared for the last conversion, a "
    "large case when it has at least 2^21 events and both empty and non-empty bins; distinct = "
    "distinct descriptor hash."
)
TOLERANCES = {"event_values": "bitwise (NaN equals NaN)", "preserved_data": "bitwise"}
ASSUMPTIONS = [
    "the dense kernels are themselves verified against closed forms by C01/C03/C05; C06 only decides "
    "that event mode agrees with them",
    "scipp's own handling of binned variables (sc.bins, .bins.constituents, slicing, copy) is a "
    "dependency, used to read inputs and outputs",
    "bin membership is decided semantically (same events per bin in the same order); the raw "
    "begin/end indices may differ because scipp compacts gapped buffers when it copies them "
    "(observed: convert of begin=[0,2,2,5,7,7] returns begin=[0,2,2,4,6,6])",
    "which name the origin dim carries afterwards is not part of C06; only that data, masks and "
    "coordinates are renamed consistently",
    "int32 event coordinates: scipp's pow rejects int32, so conversions to 'energy' (kernels energy_from_tof, "
    "energy_from_wavelength) raise scipp.DTypeError; that exception is accepted only for int32 events and only "
    "when the dense kernel chain raises the same DTypeError for an int32 dense coordinate with the same "
    "geometry (then there is no dense value to compare with); every other int32 conversion is compared "
    "bitwise, including the result dtype",
    "a sequence of conversions of one object is only meaningful if the harness does not call the kernels in "
    "between: convert_history and kernel_events make all calls under test first and the dense reference "
    "calls afterwards, from copies of the coordinates taken before each call; each such case starts with "
    "one call on fixed unrelated operands so that its outcome does not depend on the case that ran before it",
    "convert_large: applying a dense kernel to per-event copies of the pixel geometry (numpy.repeat) gives "
    "the same bits as applying it to the 0-d geometry of the pixel (element-wise kernels; confirmed on the "
    "unchanged tree on more than 160 distinct large cases drawn over the 5 targets and 4 dtypes)",
]

EVDIM = "event"


# ------------------------------------------------------------------ bit-exact comparison helpers


def bits_equal(a, b) -> bool:
    """Same shape, same dtype, same bits; NaN equals NaN (any payload)."""
    a, b = np.asarray(a), np.asarray(b)
    if a.shape != b.shape or a.dtype != b.dtype:
        return False
    if a.dtype.kind == "f":
        ui = {4: np.uint32, 8: np.uint64}[a.dtype.itemsize]
        same = a.view(ui) == b.view(ui) if a.flags.c_contiguous and b.flags.c_contiguous else \
            np.ascontiguousarray(a).view(ui) == np.ascontiguousarray(b).view(ui)
        return bool(np.all(same | (np.isnan(a) & np.isnan(b))))
    return bool(np.all(a == b))


def first_diff(a, b):
    a, b = np.asarray(a), np.asarray(b)
    if a.shape != b.shape or a.dtype != b.dtype:
        return f"shape/dtype {a.shape} {a.dtype} vs {b.shape} {b.dtype}"
    fa, fb = a.reshape(-1), b.reshape(-1)
    for i in range(fa.size):
        if not bits_equal(fa[i:i + 1], fb[i:i + 1]):
            return f"element {i}: {fa[i]!r} vs {fb[i]!r}"
    return "no difference"


def snap_var(v):
    """Plain-numpy snapshot of a dense variable."""
    vals = np.array(v.values, copy=True)
    var = np.array(v.variances, copy=True) if v.variances is not None else None
    return {"dims": tuple(v.dims), "shape": tuple(v.shape), "unit": v.unit,
            "dtype": str(v.dtype), "values": vals, "variances": var}


def snap_equal(a, b, rename=None, any_dim_order=False) -> bool:
    da = tuple((rename or {}).get(d, d) for d in a["dims"])
    if any_dim_order and da != b["dims"] and sorted(da) == sorted(b["dims"]):
        perm = [b["dims"].index(d) for d in da]
        b = dict(b, dims=da, shape=tuple(b["shape"][i] for i in perm),
                 values=np.moveaxis(b["values"], perm, range(len(perm))),
                 variances=None if b["variances"] is None else np.moveaxis(b["variances"], perm, range(len(perm))))
    if da != b["dims"] or a["shape"] != b["shape"] or a["unit"] != b["unit"] or a["dtype"] != b["dtype"]:
        return False
    if (a["variances"] is None) != (b["variances"] is None):
        return False
    if a["variances"] is not None and not bits_equal(a["variances"], b["variances"]):
        return False
    return bits_equal(a["values"], b["values"])


def snap_buffer(buf):
    """Snapshot of an event buffer (Variable or DataArray)."""
    import scipp as sc

    if isinstance(buf, sc.Variable):
        return {"data": snap_var(buf), "coords": {}, "masks": {}}
    return {"data": snap_var(buf.data),
            "coords": {k: snap_var(buf.coords[k]) for k in buf.coords},
            "masks": {k: snap_var(buf.masks[k]) for k in buf.masks}}


def snap_binned(var):
    """begin/end (grid-shaped arrays), dims, and buffer snapshot of a binned variable."""
    c = var.bins.constituents
    shape = tuple(var.shape)
    return {"dims": tuple(var.dims), "shape": shape,
            "begin": np.array(c["begin"].values, copy=True).reshape(shape),
            "end": np.array(c["end"].values, copy=True).reshape(shape),
            "dim": c["dim"], "buffer": snap_buffer(c["data"])}


def buffers_equal(a, b) -> str | None:
    """None when two buffer snapshots are bitwise equal, else the name of the differing part."""
    if not snap_equal(a["data"], b["data"]):
        return "weights"
    for kind in ("coords", "masks"):
        if sorted(a[kind]) != sorted(b[kind]):
            return f"{kind} names"
        for k in a[kind]:
            if not snap_equal(a[kind][k], b[kind][k]):
                return f"{kind}[{k}]"
    return None


def at(var, idx: dict):
    """Slice a variable at the named positions it depends on."""
    for d, i in idx.items():
        if d in var.dims:
            var = var[d, i]
    return var


# ------------------------------------------------------------------ dense reference chains

ELASTIC_TARGETS = {
    "tof": ["wavelength", "energy", "dspacing", "Q", "Qx", "Qy", "Qz", "Q_vec"],
    "wavelength": ["energy", "dspacing", "Q", "Qx", "Qy", "Qz", "Q_vec"],
    "energy": ["wavelength", "dspacing"],
    "Q": ["wavelength"],
}
QVEC = ("Qx", "Qy", "Qz", "Q_vec")
NOSCATTER_TARGETS = ["wavelength", "energy"]


def geometry_of(coords: dict, scatter: bool):
    """Dense beamline chain on 0-d coordinates of one pixel; only what is derivable is returned."""
    from scippneutron.conversion import beamline as B

    g = dict(coords)
    if not scatter:
        if "Ltotal" not in g and "source_position" in g and "position" in g:
            g["Ltotal"] = B.total_straight_beam_length_no_scatter(
                source_position=g["source_position"], position=g["position"])
        return g
    if "incident_beam" not in g and "source_position" in g and "sample_position" in g:
        g["incident_beam"] = B.straight_incident_beam(
            source_position=g["source_position"], sample_position=g["sample_position"])
    if "scattered_beam" not in g and "position" in g and "sample_position" in g:
        g["scattered_beam"] = B.straight_scattered_beam(
            position=g["position"], sample_position=g["sample_position"])
    if "L1" not in g and "incident_beam" in g:
        g["L1"] = B.L1(incident_beam=g["incident_beam"])
    if "L2" not in g and "scattered_beam" in g:
        g["L2"] = B.L2(scattered_beam=g["scattered_beam"])
    if "Ltotal" not in g and "L1" in g and "L2" in g:
        g["Ltotal"] = B.total_beam_length(L1=g["L1"], L2=g["L2"])
    if "two_theta" not in g and "incident_beam" in g and "scattered_beam" in g:
        g["two_theta"] = B.two_theta(incident_beam=g["incident_beam"], scattered_beam=g["scattered_beam"])
    return g


def dense_chain(origin: str, target: str, x, g: dict):
    """The documented dense kernel chain origin -> target for the dense variable x."""
    from scippneutron.conversion import tof as K

    def wavelength():
        if origin == "tof":
            return K.wavelength_from_tof(tof=x, Ltotal=g["Ltotal"])
        if origin == "wavelength":
            return x
        if origin == "energy":
            return K.wavelength_from_energy(energy=x)
        return K.wavelength_from_Q(Q=x, two_theta=g["two_theta"])

    if target == "wavelength":
        return wavelength()
    if target == "energy":
        if origin == "tof":
            return K.energy_from_tof(tof=x, Ltotal=g["Ltotal"])
        return K.energy_from_wavelength(wavelength=x)
    if target == "dspacing":
        if origin == "tof":
            return K.dspacing_from_tof(tof=x, Ltotal=g["Ltotal"], two_theta=g["two_theta"])
        if origin == "wavelength":
            return K.dspacing_from_wavelength(wavelength=x, two_theta=g["two_theta"])
        return K.dspacing_from_energy(energy=x, two_theta=g["two_theta"])
    if target == "Q":
        return K.Q_from_wavelength(wavelength=wavelength(), two_theta=g["two_theta"])
    if target in QVEC:
        q = K.Q_elements_from_wavelength(
            wavelength=wavelength(), incident_beam=g["incident_beam"], scattered_beam=g["scattered_beam"])
        if target == "Q_vec":
            return K.Q_vec_from_Q_elements(Qx=q["Qx"], Qy=q["Qy"], Qz=q["Qz"])
        return q[target]
    if target == "energy_transfer":
        if "incident_energy" in g:
            return K.energy_transfer_direct_from_tof(
                tof=x, L1=g["L1"], L2=g["L2"], incident_energy=g["incident_energy"])
        return K.energy_transfer_indirect_from_tof(
            tof=x, L1=g["L1"], L2=g["L2"], final_energy=g["final_energy"])
    raise HarnessError(f"no reference chain {origin}->{target}")


# ------------------------------------------------------------------ layouts


def layout_indices(sizes, gaps, order):
    """begin/end per bin (row-major bin index) and buffer length.

    Bins are laid out in the buffer in the sequence ``order``; ``gaps[k]`` unused events precede
    the k-th bin laid out, ``gaps[-1]`` follow the last one.
    """
    nb = len(sizes)
    begin, end = [0] * nb, [0] * nb
    pos = 0
    for k, b in enumerate(order):
        pos += gaps[k]
        begin[b] = pos
        pos += sizes[b]
        end[b] = pos
    pos += gaps[nb]
    return begin, end, pos


GRIDS = ["pix", "pix_x", "x_pix", "pix2d", "x", "single"]
GRID_2D = ("pix_x", "x_pix", "pix2d")


def grid_dims(grid, origin, pix_shape, nx):
    """(dims, shape, pixel dims) of the bin grid."""
    if grid == "pix":
        return ["spectrum"], [pix_shape[0]], ["spectrum"]
    if grid == "pix_x":
        return ["spectrum", origin], [pix_shape[0], nx], ["spectrum"]
    if grid == "x_pix":
        return [origin, "spectrum"], [nx, pix_shape[0]], ["spectrum"]
    if grid == "pix2d":
        return ["y", "x"], list(pix_shape), ["y", "x"]
    if grid == "x":
        return [origin], [nx], []
    return [], [], []


@st.composite
def layouts(draw, nbins):
    kind = draw(st.sampled_from(
        ["random", "random", "random", "random", "random", "random", "all_in_one", "ends_empty", "all_empty",
         "zero_events", "full"]))
    small = st.sampled_from([0, 0, 1, 1, 2, 3, 5])
    if kind == "random":
        sizes = draw(st.lists(small, min_size=nbins, max_size=nbins))
    elif kind == "all_in_one":
        sizes = [0] * nbins
        sizes[draw(st.integers(0, nbins - 1))] = draw(st.integers(1, 8))
    elif kind == "ends_empty":
        sizes = draw(st.lists(st.integers(1, 4), min_size=nbins, max_size=nbins))
        sizes[0] = 0
        sizes[-1] = 0
    elif kind == "full":
        sizes = draw(st.lists(st.integers(1, 4), min_size=nbins, max_size=nbins))
    else:
        sizes = [0] * nbins
    if kind == "zero_events":
        gaps = [0] * (nbins + 1)
    elif kind == "all_empty":
        gaps = draw(st.lists(st.integers(0, 2), min_size=nbins + 1, max_size=nbins + 1))
        gaps[-1] = max(gaps[-1], 1)
    else:
        gaps = draw(st.one_of(
            st.just([0] * (nbins + 1)),
            st.lists(st.sampled_from([0, 0, 1, 2, 4]), min_size=nbins + 1, max_size=nbins + 1)))
    order = draw(st.one_of(
        st.just(list(range(nbins))), st.just(list(range(nbins))),
        st.just(list(range(nbins))[::-1]), st.permutations(list(range(nbins)))))
    return {"sizes": sizes, "gaps": gaps, "order": list(order)}


# ------------------------------------------------------------------ value strategies

ORIGIN_UNITS = {
    # unit -> factor: stored = value_in_reference_unit * factor
    "tof": {"us": 1.0, "ns": 1e3, "ms": 1e-3, "s": 1e-6},              # reference: us
    "wavelength": {"angstrom": 1.0, "nm": 0.1, "m": 1e-10, "mm": 1e-7},  # reference: angstrom
    "energy": {"meV": 1.0, "eV": 1e-3, "ueV": 1e3},                    # reference: meV
    "Q": {"1/angstrom": 1.0, "1/nm": 10.0},                            # reference: 1/angstrom
}
ORIGIN_INT_UNITS = {"tof": ["us", "ns"], "wavelength": ["angstrom"], "energy": ["meV", "ueV"],
                    "Q": ["1/angstrom", "1/nm"]}
EVENT_DTYPES = ["float64", "float64", "float32", "int64", "int32"]
INT_DTYPES = ("int64", "int32")
ORIGIN_LOG_RANGE = {"tof": (1.0, 5.0), "wavelength": (-1.3, 1.7), "energy": (-2.0, 4.0), "Q": (-2.0, 1.7)}


def origin_values(origin, unit, dtype, n):
    lo, hi = ORIGIN_LOG_RANGE[origin]
    f = ORIGIN_UNITS[origin][unit]
    generic = st.floats(lo, hi, allow_nan=False).map(lambda e: 10.0**e * f)
    round_ = st.integers(math.ceil(lo), math.floor(hi)).map(lambda e: 10.0**e * f)
    elem = st.one_of(generic, generic, generic, generic, round_, st.just(0.0))
    if dtype == "int64":
        elem = elem.map(lambda v: int(min(round(v), 2**40)))
    elif dtype == "int32":
        elem = elem.map(lambda v: int(min(round(v), 2**31 - 1)))
    elif dtype == "float32":
        elem = elem.map(lambda v: float(np.float32(v)))
    return st.lists(elem, min_size=n, max_size=n)


def weights_values(n, dtype):
    elem = st.one_of(st.integers(-3, 50).map(float), st.floats(-1e3, 1e3, allow_nan=False),
                     st.floats(0, 2, allow_nan=False))
    if dtype == "float32":
        elem = elem.map(lambda v: float(np.float32(v)))
    return st.lists(elem, min_size=n, max_size=n)


LEN_UNITS = {"m": 1.0, "mm": 1e3, "cm": 1e2}


def _vec(direction, length, offset, f):
    return [float((direction[i] * length + offset[i]) * f) for i in range(3)]


@st.composite
def geometry(draw, npix, mode, need_energy):
    """Per-pixel geometry descriptor. ``mode``: positions | derived | noscatter."""
    g = {"mode": mode}
    if mode in ("positions", "noscatter"):
        unit = draw(st.sampled_from(["m", "m", "mm", "cm"]))
        f = LEN_UNITS[unit]
        sample = draw(st.one_of(st.just([0.0, 0.0, 0.0]),
                                st.lists(st.floats(-2, 2, allow_nan=False), min_size=3, max_size=3)))
        l1 = draw(st.floats(1.0, 100.0, allow_nan=False))
        tilt = draw(st.one_of(st.just([0.0, 0.0]),
                              st.lists(st.floats(-0.3, 0.3, allow_nan=False), min_size=2, max_size=2)))
        src_dir = [tilt[0], tilt[1], -1.0]
        g["unit"] = unit
        g["sample_position"] = [float(s * f) for s in sample]
        g["source_position"] = _vec(src_dir, l1, sample, f)
        pos = []
        for _ in range(npix):
            d = draw(unit_vector())
            length = draw(st.floats(0.2, 20.0, allow_nan=False))
            pos.append(_vec(d, length, sample, f))
        g["position"] = pos
    else:
        lu = draw(st.sampled_from(["m", "m", "mm"]))
        f = LEN_UNITS[lu]
        au = draw(st.sampled_from(["rad", "rad", "deg"]))
        af = 1.0 if au == "rad" else 180.0 / math.pi
        g["length_unit"] = lu
        g["angle_unit"] = au
        g["geo_dtype"] = draw(st.sampled_from(["float64", "float64", "float64", "float32"]))
        l1 = draw(st.floats(1.0, 100.0, allow_nan=False))
        l2 = draw(st.lists(st.floats(0.2, 20.0, allow_nan=False), min_size=npix, max_size=npix))
        g["L1"] = float(l1 * f)
        g["L2"] = [float(v * f) for v in l2]
        g["Ltotal"] = [float((l1 + v) * f) for v in l2]
        g["two_theta"] = [float(v * af) for v in draw(
            st.lists(st.floats(0.01, 3.13, allow_nan=False), min_size=npix, max_size=npix))]
        g["per_pixel"] = draw(st.sampled_from([True, True, True, False])) or npix == 1
    if need_energy:
        which = draw(st.sampled_from(["incident_energy", "final_energy"]))
        eu = draw(st.sampled_from(["meV", "meV", "eV", "ueV"]))
        ef = {"meV": 1.0, "eV": 1e-3, "ueV": 1e3}[eu]
        edt = draw(st.sampled_from(["float64", "float64", "float32", "int64"]))
        per_pixel = which == "final_energy" and draw(st.booleans())
        n = npix if per_pixel else 1
        vals = draw(st.lists(st.floats(0.0, 3.0, allow_nan=False).map(lambda e: 10.0**e),
                             min_size=n, max_size=n))
        if edt == "int64":
            vals = [int(max(1, round(v * ef))) for v in vals]
        elif edt == "float32":
            vals = [float(np.float32(v * ef)) for v in vals]
        else:
            vals = [float(v * ef) for v in vals]
        g["energy"] = {"name": which, "unit": eu, "dtype": edt, "values": vals, "per_pixel": per_pixel}
    return g


@st.composite
def convert_cases(draw, inelastic=False, transposed=False):
    if transposed:
        origin, scatter = "tof", True
        mode = draw(st.sampled_from(["positions", "derived"]))
        target = draw(st.sampled_from([t for t in ELASTIC_TARGETS["tof"] if mode == "positions" or t not in QVEC]
                                      + ["energy_transfer"]))
        inelastic = target == "energy_transfer"
    elif inelastic:
        origin, target, scatter = "tof", "energy_transfer", True
        mode = draw(st.sampled_from(["positions", "derived"]))
    else:
        origin = draw(st.sampled_from(["tof", "tof", "tof", "wavelength", "energy", "Q"]))
        mode = draw(st.sampled_from(["positions", "positions", "derived", "noscatter"]))
        if mode == "noscatter" and origin != "tof":
            mode = "positions"
        if mode == "noscatter":
            target, scatter = draw(st.sampled_from(NOSCATTER_TARGETS)), False
        else:
            scatter = True
            targets = ELASTIC_TARGETS[origin]
            if mode == "derived":
                targets = [t for t in targets if t not in QVEC]
            target = draw(st.sampled_from(targets))
    grid = "pix2d" if transposed else draw(
        st.sampled_from(["pix", "pix", "pix_x", "pix_x", "x_pix", "pix2d", "x", "single"]))
    if grid == "pix2d":
        pix_shape = [draw(st.integers(1, 3)), draw(st.integers(1, 3))]
    elif grid in ("x", "single"):
        pix_shape = []
    else:
        pix_shape = [draw(st.integers(1, 4))]
    nx = draw(st.integers(1, 4)) if grid in ("pix_x", "x_pix", "x") else 0
    dims, shape, _ = grid_dims(grid, origin, pix_shape, nx)
    nbins = int(np.prod(shape)) if shape else 1
    npix = int(np.prod(pix_shape)) if pix_shape else 1
    lay = draw(layouts(nbins))
    _, _, n = layout_indices(lay["sizes"], lay["gaps"], lay["order"])
    evdtype = draw(st.sampled_from(EVENT_DTYPES))
    if evdtype == "int32" and target == "energy" and draw(st.sampled_from([True, True, False])):
        # int32 -> energy is refused by scipp's pow (dense and event mode alike); keep a few of those
        evdtype = "int64"
    unit = draw(st.sampled_from(
        ORIGIN_INT_UNITS[origin] if evdtype in INT_DTYPES else sorted(ORIGIN_UNITS[origin])))
    wdtype = draw(st.sampled_from(["float64", "float64", "float32"]))
    case = {
        "origin": origin, "target": target, "scatter": scatter,
        # the flag as a numpy bool (what `np.any(...)` or a comparison hands over), seeded/C06-s6
        "scatter_form": draw(st.sampled_from(["bool", "bool", "np.bool_"])),
        "grid": grid, "pix_shape": pix_shape, "nx": nx,
        "layout": lay,
        "evdtype": evdtype, "unit": unit,
        "events": draw(origin_values(origin, unit, evdtype, n)),
        "wdtype": wdtype,
        "weights": draw(weights_values(n, wdtype)),
        "variances": draw(st.one_of(st.none(), st.lists(
            st.floats(0, 100, allow_nan=False).map(lambda v: float(np.float32(v))), min_size=n, max_size=n))),
        "evmask": draw(st.one_of(st.none(), st.none(), st.lists(st.booleans(), min_size=n, max_size=n))),
        "geometry": draw(geometry(npix, mode, inelastic)),
        "pixmask": draw(st.one_of(st.none(), st.lists(st.booleans(), min_size=npix, max_size=npix)))
        if pix_shape else None,
        "xmask": draw(st.one_of(st.none(), st.lists(st.booleans(), min_size=nx, max_size=nx))) if nx else None,
        "dataset": draw(st.sampled_from([False, False, False, True])),
        "geo_transposed": transposed,
    }
    if transposed and mode == "derived":
        case["geometry"]["per_pixel"] = True
    if nx:
        ekind = draw(st.sampled_from(["edges", "edges", "points", None]))
        if ekind is not None:
            m = nx + 1 if ekind == "edges" else nx
            edt = draw(st.sampled_from(["float64", evdtype]))
            xunits = ORIGIN_INT_UNITS[origin] if edt in INT_DTYPES else sorted(ORIGIN_UNITS[origin])
            xunit = draw(st.sampled_from([unit, unit, unit] + xunits)) if unit in xunits else draw(
                st.sampled_from(xunits))
            vals = sorted(draw(origin_values(origin, xunit, edt, m)))
            case["xcoord"] = {"kind": ekind, "dtype": edt, "unit": xunit, "values": vals}
        else:
            case["xcoord"] = None
    else:
        case["xcoord"] = None
    # optional slicing: build one more position along the first grid dim and slice it away
    case["slice"] = None
    if dims and draw(st.sampled_from([False, False, False, True])):
        k = draw(st.integers(0, len(dims) - 1))
        size = shape[k]
        lo = draw(st.integers(0, size - 1))
        hi = draw(st.integers(lo + 1, size))
        if (lo, hi) != (0, size):
            case["slice"] = {"dim": k, "lo": lo, "hi": hi}
    return case


# ------------------------------------------------------------------ building the input object


def _pixvar(values, dims, shape, unit, dtype):
    import scipp as sc

    return sc.array(dims=dims, values=np.asarray(values, dtype=dtype).reshape(shape), unit=unit, dtype=dtype)


def build_geometry_coords(g, pix_dims, pix_shape):
    import scipp as sc

    coords = {}
    if g["mode"] in ("positions", "noscatter"):
        u = g["unit"]
        coords["source_position"] = sc.vector(value=g["source_position"], unit=u)
        if g["mode"] == "positions":
            coords["sample_position"] = sc.vector(value=g["sample_position"], unit=u)
        pos = np.asarray(g["position"], dtype=np.float64)
        if pix_dims:
            coords["position"] = sc.vectors(dims=pix_dims, values=pos.reshape([*pix_shape, 3]), unit=u)
        else:
            coords["position"] = sc.vector(value=pos[0], unit=u)
    else:
        lu, au, dt = g["length_unit"], g["angle_unit"], g["geo_dtype"]
        coords["L1"] = sc.scalar(np.dtype(dt).type(g["L1"]), unit=lu, dtype=dt)
        if pix_dims and g["per_pixel"]:
            coords["L2"] = _pixvar(g["L2"], pix_dims, pix_shape, lu, dt)
            coords["Ltotal"] = _pixvar(g["Ltotal"], pix_dims, pix_shape, lu, dt)
            coords["two_theta"] = _pixvar(g["two_theta"], pix_dims, pix_shape, au, dt)
        else:
            coords["L2"] = sc.scalar(np.dtype(dt).type(g["L2"][0]), unit=lu, dtype=dt)
            coords["Ltotal"] = sc.scalar(np.dtype(dt).type(g["Ltotal"][0]), unit=lu, dtype=dt)
            coords["two_theta"] = sc.scalar(np.dtype(dt).type(g["two_theta"][0]), unit=au, dtype=dt)
    e = g.get("energy")
    if e is not None:
        if e["per_pixel"] and pix_dims:
            coords[e["name"]] = _pixvar(e["values"], pix_dims, pix_shape, e["unit"], e["dtype"])
        else:
            coords[e["name"]] = sc.scalar(np.dtype(e["dtype"]).type(e["values"][0]), unit=e["unit"],
                                          dtype=e["dtype"])
    return coords


def build_buffer(case):
    import scipp as sc

    n = len(case["events"])
    w = np.asarray(case["weights"], dtype=case["wdtype"])
    kw = {}
    if case["variances"] is not None:
        kw["variances"] = np.asarray(case["variances"], dtype=case["wdtype"])
    data = sc.array(dims=[EVDIM], values=w, unit="counts", dtype=case["wdtype"], **kw)
    coords = {
        case["origin"]: sc.array(dims=[EVDIM], values=np.asarray(case["events"], dtype=case["evdtype"]),
                                 unit=case["unit"], dtype=case["evdtype"]),
        "event_id": sc.array(dims=[EVDIM], values=np.arange(n, dtype=np.int64) * 7 + 3, unit=None),
    }
    masks = {}
    if case["evmask"] is not None:
        masks["evmask"] = sc.array(dims=[EVDIM], values=np.asarray(case["evmask"], dtype=bool))
    return sc.DataArray(data, coords=coords, masks=masks)


def build_input(case):
    """Returns (object handed to convert as DataArray, parent DataArray, dims of the grid)."""
    import scipp as sc

    origin = case["origin"]
    dims, shape, pix_dims = grid_dims(case["grid"], origin, case["pix_shape"], case["nx"])
    lay = case["layout"]
    begin, end, n = layout_indices(lay["sizes"], lay["gaps"], lay["order"])
    if n != len(case["events"]):
        raise HarnessError("descriptor inconsistent: buffer length")
    buf = build_buffer(case)
    if dims:
        b = sc.array(dims=dims, values=np.asarray(begin, dtype=np.int64).reshape(shape), unit=None)
        e = sc.array(dims=dims, values=np.asarray(end, dtype=np.int64).reshape(shape), unit=None)
    else:
        b, e = sc.index(begin[0]), sc.index(end[0])
    binned = sc.bins(begin=b, end=e, dim=EVDIM, data=buf)
    coords = build_geometry_coords(case["geometry"], pix_dims, case["pix_shape"])
    if case.get("geo_transposed"):
        # same values per pixel, stored with the pixel dims in the opposite order
        coords = {k: (v.transpose(list(v.dims)[::-1]).copy() if v.ndim == 2 else v) for k, v in coords.items()}
    npix = int(np.prod(case["pix_shape"])) if case["pix_shape"] else 1
    if pix_dims:
        coords["detector_number"] = sc.array(
            dims=pix_dims, values=(np.arange(npix, dtype=np.int64) * 3 + 100).reshape(case["pix_shape"]), unit=None)
    coords["temperature"] = sc.scalar(4.25, unit="K")
    xc = case["xcoord"]
    if xc is not None:
        coords[origin] = sc.array(dims=[origin], values=np.asarray(xc["values"], dtype=xc["dtype"]),
                                  unit=xc.get("unit", case["unit"]), dtype=xc["dtype"])
    masks = {}
    if case["pixmask"] is not None and pix_dims:
        masks["pixmask"] = sc.array(dims=pix_dims, values=np.asarray(case["pixmask"], dtype=bool).reshape(
            case["pix_shape"]))
    if case["xmask"] is not None and case["nx"]:
        masks["xmask"] = sc.array(dims=[origin], values=np.asarray(case["xmask"], dtype=bool))
    parent = sc.DataArray(binned, coords=coords, masks=masks)
    da = parent
    sl = case["slice"]
    if sl is not None:
        da = parent[dims[sl["dim"]], sl["lo"]:sl["hi"]]
    return da, parent, pix_dims


def snap_dataarray(da):
    return {
        "dims": tuple(da.dims), "shape": tuple(da.shape),
        "binned": snap_binned(da.data),
        "coords": {k: snap_var(da.coords[k]) for k in da.coords},
        "aligned": {k: bool(da.coords[k].aligned) for k in da.coords},
        "masks": {k: snap_var(da.masks[k]) for k in da.masks},
    }


def input_unchanged(before, da, what):
    after = snap_dataarray(da)
    if before["dims"] != after["dims"] or before["shape"] != after["shape"]:
        raise Violation("input-modified", f"{what}: dims/shape changed to {after['dims']} {after['shape']}")
    bb, ab = before["binned"], after["binned"]
    if not (np.array_equal(bb["begin"], ab["begin"]) and np.array_equal(bb["end"], ab["end"])):
        raise Violation("input-modified", f"{what}: begin/end of the input changed")
    diff = buffers_equal(bb["buffer"], ab["buffer"])
    if diff is not None:
        raise Violation("input-modified", f"{what}: event buffer of the input changed ({diff})")
    for kind in ("coords", "masks"):
        if list(before[kind]) != list(after[kind]):
            raise Violation("input-modified", f"{what}: {kind} of the input changed from "
                                              f"{list(before[kind])} to {list(after[kind])}")
        for k in before[kind]:
            if not snap_equal(before[kind][k], after[kind][k]):
                raise Violation("input-modified", f"{what}: {kind}[{k}] of the input changed")
    if before["aligned"] != after["aligned"]:
        raise Violation("input-modified", f"{what}: alignment flags of the input coords changed")


# ------------------------------------------------------------------ the check


def layout_labels(sizes_grid):
    s = np.asarray(sizes_grid).reshape(-1)
    labs = []
    if s.size and (s == 0).any() and (s > 0).any():
        labs.append("layout:empty+nonempty")
    if s.sum() == 0:
        labs.append("layout:no-events-in-bins")
    if s.size > 1 and (s > 0).sum() == 1:
        labs.append("layout:all-in-one-bin")
    if s.size > 1 and s[0] == 0:
        labs.append("layout:first-empty")
    if s.size > 1 and s[-1] == 0:
        labs.append("layout:last-empty")
    if s.size > 1 and len(set(s.tolist())) > 1:
        labs.append("layout:uneven")
    return labs


def bin_indices(dims, shape):
    if not dims:
        return [{}]
    return [dict(zip(dims, idx, strict=True)) for idx in np.ndindex(*shape)]


def compare_events(case_name, origin, target, scatter, snap, out_binned, rename, in_coords, pix_dims):
    """Per bin: converted event values vs dense chain; preserved event data. Returns #events compared."""
    import scipp as sc

    inb = snap["binned"]
    ob = snap_binned(out_binned)
    exp_dims = tuple(rename.get(d, d) for d in inb["dims"])
    if ob["dims"] != exp_dims or ob["shape"] != inb["shape"]:
        raise Violation("bin-grid", f"{case_name}: binned result has dims {ob['dims']} {ob['shape']}, "
                                    f"input {inb['dims']} {inb['shape']}")
    size_in = inb["end"] - inb["begin"]
    size_out = ob["end"] - ob["begin"]
    if not np.array_equal(size_in, size_out):
        raise Violation("bin-membership", f"{case_name}: bin sizes changed from {size_in.tolist()} to "
                                          f"{size_out.tolist()}")
    ibuf, obuf = inb["buffer"], ob["buffer"]
    if target not in obuf["coords"]:
        raise Violation("event-coord-missing", f"{case_name}: no event coordinate {target!r}; have "
                                               f"{sorted(obuf['coords'])}")
    for k in ("unit", "dtype"):
        if ibuf["data"][k] != obuf["data"][k]:
            raise Violation("weights", f"{case_name}: weights {k} changed from {ibuf['data'][k]} to "
                                       f"{obuf['data'][k]}")
    if (ibuf["data"]["variances"] is None) != (obuf["data"]["variances"] is None):
        raise Violation("weights", f"{case_name}: variances of the weights appeared/disappeared")
    keep_coords = [k for k in ibuf["coords"] if k != origin]
    for k in keep_coords:
        if k not in obuf["coords"]:
            raise Violation("event-coord-lost", f"{case_name}: event coordinate {k!r} lost")
    if sorted(ibuf["masks"]) != sorted(obuf["masks"]):
        raise Violation("event-mask", f"{case_name}: event masks changed from {sorted(ibuf['masks'])} to "
                                      f"{sorted(obuf['masks'])}")
    x_in = ibuf["coords"][origin]
    got = obuf["coords"][target]
    ncompared = 0
    ref_meta = None
    raw_same = np.array_equal(inb["begin"], ob["begin"]) and np.array_equal(inb["end"], ob["end"])
    for idx in bin_indices(list(inb["dims"]), inb["shape"]):
        key = tuple(idx[d] for d in inb["dims"])
        bi, ei = int(inb["begin"][key]), int(inb["end"][key])
        bo, eo = int(ob["begin"][key]), int(ob["end"][key])
        # preserved event data, in order
        for part, label in (("data", "weights"),):
            if not bits_equal(ibuf[part]["values"][bi:ei], obuf[part]["values"][bo:eo]):
                raise Violation("weights", f"{case_name}: bin {key}: weights differ: "
                                + first_diff(ibuf[part]["values"][bi:ei], obuf[part]["values"][bo:eo]))
            if ibuf[part]["variances"] is not None and not bits_equal(
                    ibuf[part]["variances"][bi:ei], obuf[part]["variances"][bo:eo]):
                raise Violation("weights", f"{case_name}: bin {key}: variances of the weights differ")
        for k in keep_coords:
            a, b = ibuf["coords"][k], obuf["coords"][k]
            if a["unit"] != b["unit"] or a["dtype"] != b["dtype"] or not bits_equal(
                    a["values"][bi:ei], b["values"][bo:eo]):
                raise Violation("event-order", f"{case_name}: bin {key}: event coordinate {k!r} is "
                                               f"{b['values'][bo:eo].tolist()}, input {a['values'][bi:ei].tolist()}")
        if origin in obuf["coords"] and origin != target:
            a, b = x_in, obuf["coords"][origin]
            if a["unit"] != b["unit"] or a["dtype"] != b["dtype"] or not bits_equal(
                    a["values"][bi:ei], b["values"][bo:eo]):
                raise Violation("event-order", f"{case_name}: bin {key}: retained event coordinate "
                                               f"{origin!r} changed")
        for k in ibuf["masks"]:
            if not bits_equal(ibuf["masks"][k]["values"][bi:ei], obuf["masks"][k]["values"][bo:eo]):
                raise Violation("event-mask", f"{case_name}: bin {key}: event mask {k!r} changed")
        # converted values
        pix = {d: idx[d] for d in pix_dims if d in idx}
        g = geometry_of({k: at(v, pix).copy() for k, v in in_coords.items()}, scatter)
        x = sc.array(dims=[EVDIM], values=x_in["values"][bi:ei].copy(), unit=x_in["unit"], dtype=x_in["dtype"])
        try:
            ref = dense_chain(origin, target, x, g)
        except sc.DTypeError:
            if x_in["dtype"] != "int32":
                raise
            raise _DenseRefused from None
        if tuple(ref.dims) != (EVDIM,):
            raise HarnessError(f"reference for bin {key} has dims {ref.dims}")
        ref_meta = (ref.unit, str(ref.dtype))
        if (got["unit"], got["dtype"]) != ref_meta:
            raise Violation("event-unit-dtype", f"{case_name}: event coordinate {target!r} is "
                                                f"{got['dtype']} [{got['unit']}], dense kernels give "
                                                f"{ref_meta[1]} [{ref_meta[0]}]")
        rv = np.asarray(ref.values)
        gv = got["values"][bo:eo]
        if not bits_equal(rv, gv):
            raise Violation("event-value", f"{case_name}: bin {key}: {target} of the events differs from the "
                                           f"dense kernels: " + first_diff(gv, rv),
                            {"got": np.asarray(gv).tolist(), "dense": rv.tolist()})
        ncompared += ei - bi
    return ncompared, raw_same, size_in


class _DenseRefused(Exception):
    """The dense kernels refuse the dtype (int32 in scipp's pow): nothing to compare with."""


def dense_refuses_int32(origin, target, scatter, unit, in_coords, pix_dims, sizes):
    """True when the dense kernel chain raises scipp's DTypeError for an int32 coordinate (pixel 0)."""
    import scipp as sc

    pix = {d: 0 for d in pix_dims}
    if any(sizes[d] == 0 for d in pix_dims):
        return target == "energy"
    g = geometry_of({k: at(v, pix).copy() for k, v in in_coords.items()}, scatter)
    x = sc.array(dims=[EVDIM], values=np.asarray([1], dtype=np.int32), unit=unit, dtype="int32")
    try:
        dense_chain(origin, target, x, g)
    except sc.DTypeError:
        return True
    return False


def check_convert(case):
    da, parent, pix_dims = build_input(case)
    return verify_convert(case, da, parent, pix_dims)


def verify_convert(case, da, parent, pix_dims, tag=""):
    """One conversion of ``da`` as it is now, compared with the dense kernels for its current coordinates."""
    return start_convert(case, da, parent, pix_dims, tag)()


def start_convert(case, da, parent, pix_dims, tag="", detach=False):
    """Snapshot ``da``, convert it, check that the input is untouched; returns a function that does all
    comparisons with the dense kernels. Between the two, no conversion kernel is called by the harness, so
    that a sequence of conversions of one object is not interleaved with reference calls. With ``detach``
    the dense coordinates of the result are copied (the caller is going to change the input in place)."""
    import scipp as sc
    import scippneutron as scn

    origin, target, scatter = case["origin"], case["target"], case["scatter"]
    name = f"{tag}{origin}->{target}"
    snap = snap_dataarray(da)
    parent_snap = snap_dataarray(parent) if parent is not da else None
    in_coords = {k: da.coords[k].copy() for k in da.coords if k != origin}
    x_dense_in = da.coords[origin].copy() if origin in da.coords else None

    with_dense_item = case["dataset"] and x_dense_in is not None
    if with_dense_item:
        # a dense item next to the binned one (needs the dense origin coordinate to be convertible)
        dense_item = sc.array(dims=list(da.dims), values=np.arange(float(np.prod(da.shape, dtype=int))).reshape(
            da.shape) * 0.5 + 1.0, unit="counts") if da.ndim else sc.scalar(1.5, unit="counts")
        dense_snap = snap_var(dense_item)
        arg = sc.Dataset({"events": da, "monitor": sc.DataArray(dense_item)})
    elif case["dataset"]:
        arg = sc.Dataset({"events": da})
    else:
        arg = da
    try:
        flag = np.bool_(scatter) if case.get("scatter_form") == "np.bool_" else scatter
        out = scn.convert(arg, origin=origin, target=target, scatter=flag)
    except sc.DTypeError as exc:
        if case["evdtype"] != "int32":
            raise
        input_unchanged(snap, da, name)
        refusal, sizes_now = exc, dict(da.sizes)

        def refused():
            # allowed only where the dense kernels refuse the same dtype: int32 operands of scipp's pow
            if not dense_refuses_int32(origin, target, scatter, case["unit"], in_coords, pix_dims, sizes_now):
                raise refusal
            return [f"target:{origin}->{target}", "ev:int32", "int32:refused-like-dense(DTypeError)"], False

        return refused
    if case["dataset"]:
        if sorted(out.keys()) != (["events", "monitor"] if with_dense_item else ["events"]):
            raise Violation("dataset", f"{name}: items of the dataset are {list(out.keys())}")
        if with_dense_item:
            if not snap_equal(dense_snap, snap_var(dense_item)):
                raise Violation("input-modified", f"{name}: dense item of the input dataset changed")
            out_dense = out["monitor"].data
        out = out["events"]

    input_unchanged(snap, da, name)
    if parent_snap is not None:
        input_unchanged(parent_snap, parent, name + " (parent of the slice)")

    if detach and out.bins is not None:
        out = out.copy(deep=False)
        for k in list(out.coords):
            aligned = bool(out.coords[k].aligned)
            out.coords[k] = out.coords[k].copy()
            out.coords.set_aligned(k, aligned)
    in_dims, in_shape, in_sizes = tuple(da.dims), tuple(da.shape), dict(da.sizes)

    def finish():
        return _finish_convert(case, name, out, snap, in_coords, x_dense_in, pix_dims, in_dims, in_shape, in_sizes,
                               with_dense_item, dense_snap if with_dense_item else None,
                               out_dense if with_dense_item else None)

    return finish


def _finish_convert(case, name, out, snap, in_coords, x_dense_in, pix_dims, in_dims, in_shape, in_sizes,
                    with_dense_item, dense_snap, out_dense):
    origin, target, scatter = case["origin"], case["target"], case["scatter"]
    if out.bins is None:
        raise Violation("bin-grid", f"{name}: result is not binned")
    # one consistent rename of the origin dim
    rename = {}
    if origin in in_dims:
        k = list(in_dims).index(origin)
        if len(out.dims) != len(in_dims):
            raise Violation("bin-grid", f"{name}: result dims {out.dims}, input {in_dims}")
        rename = {origin: out.dims[k]}
    if tuple(rename.get(d, d) for d in in_dims) != tuple(out.dims) or tuple(out.shape) != in_shape:
        raise Violation("bin-grid", f"{name}: result dims {out.dims} {out.shape}, input {in_dims} {in_shape}")

    if with_dense_item and not snap_equal(dense_snap, snap_var(out_dense), rename):
        raise Violation("dataset", f"{name}: dense item of the dataset changed: {out_dense.dims} "
                                   f"{np.asarray(out_dense.values).tolist()}")

    try:
        n, raw_same, sizes = compare_events(name, origin, target, scatter, snap, out.data, rename, in_coords,
                                            pix_dims)
    except _DenseRefused:
        return [f"target:{origin}->{target}", "ev:int32", "int32:only-dense-refuses"], False

    # masks and unrelated coordinates
    if list(out.masks) != list(snap["masks"]):
        raise Violation("mask", f"{name}: masks {list(out.masks)}, input {list(snap['masks'])}")
    for k, m in snap["masks"].items():
        if not snap_equal(m, snap_var(out.masks[k]), rename):
            raise Violation("mask", f"{name}: mask {k!r} changed: {out.masks[k].dims} "
                                    f"{np.asarray(out.masks[k].values).tolist()}")
    for k in ("detector_number", "temperature"):
        if k not in snap["coords"]:
            continue
        if k not in out.coords:
            raise Violation("coord", f"{name}: unrelated coordinate {k!r} lost")
        if not snap_equal(snap["coords"][k], snap_var(out.coords[k]), rename):
            raise Violation("coord", f"{name}: unrelated coordinate {k!r} changed")
        if bool(out.coords[k].aligned) != snap["aligned"][k]:
            raise Violation("coord", f"{name}: alignment of unrelated coordinate {k!r} changed")
    for k, c in snap["coords"].items():
        # inputs of the conversion that are kept must keep their values
        if k in out.coords and k != target and not snap_equal(c, snap_var(out.coords[k]), rename,
                                                              any_dim_order=True):
            raise Violation("coord", f"{name}: input coordinate {k!r} changed in the result")

    # dense coordinate on the origin dim goes through the same function
    labs = []
    if x_dense_in is not None:
        if target not in out.coords:
            raise Violation("edge-coord", f"{name}: dense coordinate {origin!r} was not converted to {target!r}")
        got = out.coords[target]
        newdim = rename[origin]
        for pix in bin_indices(pix_dims, [in_sizes[d] for d in pix_dims]):
            g = geometry_of({k: at(v, pix).copy() for k, v in in_coords.items()}, scatter)
            ref = dense_chain(origin, target, x_dense_in.copy(), g)
            gp = at(got, pix)
            if tuple(gp.dims) != (newdim,) or tuple(ref.dims) != (origin,):
                raise Violation("edge-coord", f"{name}: dense coordinate {target!r} has dims {got.dims}")
            if gp.unit != ref.unit or gp.dtype != ref.dtype:
                raise Violation("edge-coord", f"{name}: dense coordinate {target!r} is {gp.dtype} [{gp.unit}], "
                                              f"dense kernels give {ref.dtype} [{ref.unit}]")
            if not bits_equal(np.asarray(gp.values), np.asarray(ref.values)):
                raise Violation("edge-coord", f"{name}: dense coordinate {target!r} at pixel {pix} differs "
                                              f"from the dense kernels: "
                                + first_diff(np.asarray(gp.values), np.asarray(ref.values)))
        labs.append("xcoord:" + case["xcoord"]["kind"] + ":" + case["xcoord"]["dtype"])
        if case["xcoord"].get("unit", case["unit"]) != case["unit"]:
            labs.append("xcoord:unit-differs-from-events")
    else:
        labs.append("xcoord:none")

    g = case["geometry"]
    labs += [
        f"target:{origin}->{target}", "grid:" + case["grid"], "ev:" + case["evdtype"], "geom:" + g["mode"],
        "unit:" + case["unit"], "w:" + case["wdtype"],
        "variances" if case["variances"] is not None else "no-variances",
        "raw-begin-end-preserved" if raw_same else "raw-begin-end-differ",
        *layout_labels(sizes),
    ]
    lay = case["layout"]
    if any(lay["gaps"]):
        labs.append("layout:gapped")
    if lay["order"] != sorted(lay["order"]):
        labs.append("layout:permuted")
    if len(case["events"]) == 0:
        labs.append("layout:zero-events")
    if case["evmask"] is not None:
        labs.append("evmask")
    if case["slice"] is not None:
        labs.append("sliced")
    if case["dataset"]:
        labs.append("dataset+dense-item" if with_dense_item else "dataset")
    if case.get("geo_transposed"):
        labs.append("geo-transposed")
    if "energy" in g:
        labs.append("E:" + g["energy"]["name"] + ":" + g["energy"]["dtype"]
                    + (":per-pixel" if g["energy"]["per_pixel"] else ""))
    if n:
        labs.append("events-compared")
    if n and target in out.bins.coords:
        vals = np.asarray(out.bins.constituents["data"].coords[target].values)
        if vals.dtype.kind == "f" and np.isnan(vals).any():
            labs.append("nan-events")
    s = np.asarray(sizes).reshape(-1)
    mixed = bool((s == 0).any() and (s > 0).any())
    nontrivial = n > 0 and (mixed or case["evdtype"] != "float64" or len(in_dims) == 2)
    return labs, nontrivial


# ------------------------------------------------------------------ histories: convert, change in place, convert again


def history_candidates(case):
    """Geometry coordinates of the object that may be changed in place between conversions, with dtypes."""
    g = case["geometry"]
    e = g.get("energy")
    if g["mode"] == "derived":
        names = ["L1", "L2"] if e is not None else ["Ltotal", "two_theta"]
        dtypes = {k: g["geo_dtype"] for k in names}
    elif g["mode"] == "positions":
        names = ["position", "source_position", "sample_position"]
        dtypes = {k: "vector3" for k in names}
    else:
        names = ["position", "source_position"]
        dtypes = {k: "vector3" for k in names}
    if e is not None:
        names = [*names, e["name"], e["name"]]
        dtypes[e["name"]] = e["dtype"]
    return names, dtypes


@st.composite
def history_cases(draw):
    case = draw(convert_cases(draw(st.sampled_from([True, True, False]))))
    names, dtypes = history_candidates(case)
    case["history"] = draw(st.lists(mutation_step(names, dtypes), min_size=1, max_size=2))
    return case


def warm_up_convert(case):
    """One conversion of a fixed unrelated two-event object with the origin/target of the case, so that every
    case starts from the same call history whatever case ran before it in this process."""
    import scippneutron as scn

    origin = case["origin"]
    geo = {"mode": "positions" if case["scatter"] else "noscatter", "unit": "m",
           "sample_position": [0.01, 0.02, 0.03], "source_position": [0.0, 0.0, -7.654321],
           "position": [[1.234567, 0.0, 0.5], [0.3, 1.7, 0.2]]}
    e = case["geometry"].get("energy")
    if e is not None:
        geo["energy"] = {"name": e["name"], "unit": "meV", "dtype": "float64", "values": [7.123456],
                         "per_pixel": False}
    fixed = {"origin": origin, "target": case["target"], "scatter": case["scatter"], "grid": "pix",
             "pix_shape": [2], "nx": 0, "layout": {"sizes": [1, 1], "gaps": [0, 0, 0], "order": [0, 1]},
             "evdtype": "float64", "unit": FIXED_UNIT[origin], "events": FIXED_EVENTS[origin][:2],
             "wdtype": "float64", "weights": [1.0, 1.0], "variances": None, "evmask": None, "geometry": geo,
             "pixmask": None, "xmask": None, "dataset": False, "xcoord": None, "slice": None}
    da, _, _ = build_input(fixed)
    scn.convert(da, origin=origin, target=case["target"], scatter=case["scatter"])


def check_history(case):
    warm_up_convert(case)
    da, parent, pix_dims = build_input(case)
    # all conversions first, back to back as a user would run them; the comparisons with the dense kernels
    # (which call the kernels themselves) come afterwards, each against the snapshot taken before its conversion
    pending = [start_convert(case, da, parent, pix_dims, tag="conversion 1: ", detach=True)]
    for k, step in enumerate(case["history"]):
        # the coordinate of the very object that was converted before is changed in its own buffer
        # (a slice sees the change through its parent)
        mutate_in_place(parent.coords[step["name"]], step)
        pending.append(start_convert(case, da, parent, pix_dims, detach=True,
                                     tag=f"conversion {k + 2} after in-place change of {step['name']}: "))
    compared = False
    for finish in pending:
        labs, _ = finish()
        compared = "events-compared" in labs
    labs += ["history:in-place:" + step["name"] for step in case["history"]]
    labs.append(f"history:{len(case['history']) + 1}-conversions")
    return labs, compared


# ------------------------------------------------------------------ very large event lists

LARGE_PATTERN = [0, 2, 1, 1, 1, 1, 1]   # bin-size multipliers cycled over the pixels: empty, double, single
LARGE_NPIX = [1001, 1003, 997, 701, 1501, 2003, 1000, 1024]
LARGE_TARGETS = ["wavelength", "wavelength", "dspacing", "Q", "energy", "energy_transfer"]
LARGE_MIN_EVENTS = 2**21
_M64 = 2**64


def uniform01(n, seed, stream):
    """n reproducible numbers in [0, 1): splitmix64 of (counter, seed, stream) in wrapping uint64 arithmetic;
    no generator state, no numpy.random."""
    start = (seed * 0x9E3779B97F4A7C15 + (stream + 1) * 0xD1B54A32D192ED03) % _M64
    z = np.arange(n, dtype=np.uint64) * np.uint64(0x9E3779B97F4A7C15) + np.uint64(start)
    z ^= z >> np.uint64(30)
    z *= np.uint64(0xBF58476D1CE4E5B9)
    z ^= z >> np.uint64(27)
    z *= np.uint64(0x94D049BB133111EB)
    z ^= z >> np.uint64(31)
    return (z >> np.uint64(11)).astype(np.float64) * 2.0**-53


def large_sizes(npix, shift, per):
    return per * np.asarray(LARGE_PATTERN, dtype=np.int64)[(np.arange(npix) + shift) % len(LARGE_PATTERN)]


@st.composite
def large_cases(draw):
    npix = draw(st.sampled_from(LARGE_NPIX))
    shift = draw(st.integers(0, len(LARGE_PATTERN) - 1))
    total = draw(st.integers(LARGE_MIN_EVENTS + 1, 3_400_000))
    summult = sum(LARGE_PATTERN[(i + shift) % len(LARGE_PATTERN)] for i in range(npix))
    evdtype = draw(st.sampled_from(["float64", "float64", "float32", "int64", "int32"]))
    target = draw(st.sampled_from([t for t in LARGE_TARGETS if not (evdtype == "int32" and t == "energy")]))
    return {"npix": npix, "shift": shift, "per": -(-total // summult), "seed": draw(st.integers(0, 2**32 - 1)),
            "order": draw(st.sampled_from(["identity", "identity", "reversed"])),
            "target": target, "evdtype": evdtype,
            "variances": draw(st.booleans()), "evmask": draw(st.booleans()),
            "energy": draw(st.sampled_from(["incident_energy", "final_energy"]))
            if target == "energy_transfer" else None}


def build_large(case):
    """Vectorised construction of a 1-d pixel grid with millions of events from the seed in the case."""
    import scipp as sc

    npix, seed = case["npix"], case["seed"]
    sizes = large_sizes(npix, case["shift"], case["per"])
    if case["order"] == "identity":
        end = np.cumsum(sizes)
        begin = end - sizes
    else:   # the bins sit in the buffer in reversed order
        e = np.cumsum(sizes[::-1])
        begin, end = (e - sizes[::-1])[::-1].copy(), e[::-1].copy()
    n = int(sizes.sum())
    tof = 2000.0 + 13000.0 * uniform01(n, seed, 0)                       # us, both sides of t0
    tof = np.floor(tof).astype(case["evdtype"]) if case["evdtype"] in INT_DTYPES else tof.astype(case["evdtype"])
    kw = {"variances": 0.1 + 0.1 * uniform01(n, seed, 2)} if case["variances"] else {}
    buf = sc.DataArray(
        sc.array(dims=[EVDIM], values=0.5 + uniform01(n, seed, 1), unit="counts", **kw),
        coords={"tof": sc.array(dims=[EVDIM], values=tof, unit="us", dtype=case["evdtype"]),
                "event_id": sc.array(dims=[EVDIM], values=np.arange(n, dtype=np.int64) * 7 + 3, unit=None)})
    if case["evmask"]:
        buf.masks["evmask"] = sc.array(dims=[EVDIM], values=uniform01(n, seed, 3) < 0.05)
    ltotal = 20.0 + 5.0 * uniform01(npix, seed, 4)
    coords = {
        "L1": sc.scalar(18.0, unit="m"),
        "L2": sc.array(dims=["spectrum"], values=ltotal - 18.0, unit="m"),
        "Ltotal": sc.array(dims=["spectrum"], values=ltotal, unit="m"),
        "two_theta": sc.array(dims=["spectrum"], values=0.2 + 2.3 * uniform01(npix, seed, 5), unit="rad"),
        "detector_number": sc.array(dims=["spectrum"], values=np.arange(npix, dtype=np.int64) * 3 + 100, unit=None),
        "temperature": sc.scalar(4.25, unit="K"),
    }
    if case["energy"] == "incident_energy":
        coords["incident_energy"] = sc.scalar(25.0, unit="meV")
    elif case["energy"] == "final_energy":
        coords["final_energy"] = sc.array(dims=["spectrum"], values=3.0 + uniform01(npix, seed, 6), unit="meV")
    binned = sc.bins(begin=sc.array(dims=["spectrum"], values=begin, unit=None),
                     end=sc.array(dims=["spectrum"], values=end, unit=None), dim=EVDIM, data=buf)
    masks = {"pixmask": sc.array(dims=["spectrum"], values=uniform01(npix, seed, 7) > 0.9)}
    return sc.DataArray(binned, coords=coords, masks=masks)


def event_index(begin, sizes):
    """Buffer index of every event, bin after bin (row-major bins), vectorised."""
    begin, sizes = np.asarray(begin).reshape(-1), np.asarray(sizes).reshape(-1)
    start = np.cumsum(sizes) - sizes
    return np.repeat(begin - start, sizes) + np.arange(int(sizes.sum()), dtype=np.int64)


def check_large(case):
    import scipp as sc
    import scippneutron as scn

    target = case["target"]
    da = build_large(case)
    name = f"tof->{target} ({case['npix']} pixels)"
    snap = snap_dataarray(da)
    in_coords = {k: da.coords[k].copy() for k in da.coords}

    out = scn.convert(da, origin="tof", target=target, scatter=True)

    input_unchanged(snap, da, name)
    if out.bins is None:
        raise Violation("bin-grid", f"{name}: result is not binned")
    if tuple(out.dims) != snap["dims"] or tuple(out.shape) != snap["shape"]:
        raise Violation("bin-grid", f"{name}: result dims {out.dims} {out.shape}, input {snap['dims']} "
                                    f"{snap['shape']}")
    inb, ob = snap["binned"], snap_binned(out.data)
    size_in, size_out = inb["end"] - inb["begin"], ob["end"] - ob["begin"]
    n = int(size_in.sum())
    if int(size_out.sum()) != n:
        raise Violation("bin-membership", f"{name}: {n} events in the bins of the input, {int(size_out.sum())} "
                                          f"in the result")
    if not np.array_equal(size_in, size_out):
        k = int(np.flatnonzero(size_in != size_out)[0])
        raise Violation("bin-membership", f"{name}: bin sizes changed, first at bin {k}: {int(size_in[k])} -> "
                                          f"{int(size_out[k])}")
    ii, io = event_index(inb["begin"], size_in), event_index(ob["begin"], size_out)
    ibuf, obuf = inb["buffer"], ob["buffer"]
    for k in ("unit", "dtype"):
        if ibuf["data"][k] != obuf["data"][k]:
            raise Violation("weights", f"{name}: weights {k} changed from {ibuf['data'][k]} to {obuf['data'][k]}")
    if not bits_equal(ibuf["data"]["values"][ii], obuf["data"]["values"][io]):
        raise Violation("weights", f"{name}: weights differ")
    if (ibuf["data"]["variances"] is None) != (obuf["data"]["variances"] is None) or (
            ibuf["data"]["variances"] is not None
            and not bits_equal(ibuf["data"]["variances"][ii], obuf["data"]["variances"][io])):
        raise Violation("weights", f"{name}: variances of the weights differ")
    for k in ("event_id", "tof"):
        if k == target:
            continue
        if k not in obuf["coords"]:
            if k == "tof":
                continue
            raise Violation("event-coord-lost", f"{name}: event coordinate {k!r} lost")
        a, b = ibuf["coords"][k], obuf["coords"][k]
        if a["unit"] != b["unit"] or a["dtype"] != b["dtype"] or not bits_equal(a["values"][ii], b["values"][io]):
            raise Violation("event-order", f"{name}: event coordinate {k!r} differs from the input (order or "
                                           f"membership of the events changed)")
    if sorted(ibuf["masks"]) != sorted(obuf["masks"]):
        raise Violation("event-mask", f"{name}: event masks changed from {sorted(ibuf['masks'])} to "
                                      f"{sorted(obuf['masks'])}")
    for k in ibuf["masks"]:
        if not bits_equal(ibuf["masks"][k]["values"][ii], obuf["masks"][k]["values"][io]):
            raise Violation("event-mask", f"{name}: event mask {k!r} changed")
    if target not in obuf["coords"]:
        raise Violation("event-coord-missing", f"{name}: no event coordinate {target!r}; have "
                                               f"{sorted(obuf['coords'])}")
    # the dense kernels on the flat event table: every event next to the geometry of its pixel
    flat = size_in.reshape(-1)
    g = {}
    for k, v in in_coords.items():
        if k in ("detector_number", "temperature"):
            continue
        g[k] = sc.array(dims=[EVDIM], values=np.repeat(np.asarray(v.values), flat), unit=v.unit,
                        dtype=v.dtype) if v.ndim else v.copy()
    x_in = ibuf["coords"]["tof"]
    x = sc.array(dims=[EVDIM], values=x_in["values"][ii], unit=x_in["unit"], dtype=x_in["dtype"])
    ref = dense_chain("tof", target, x, geometry_of(g, True))
    got = obuf["coords"][target]
    if (got["unit"], got["dtype"]) != (ref.unit, str(ref.dtype)):
        raise Violation("event-unit-dtype", f"{name}: event coordinate {target!r} is {got['dtype']} "
                                            f"[{got['unit']}], dense kernels give {ref.dtype} [{ref.unit}]")
    rv, gv = np.asarray(ref.values), got["values"][io]
    if not bits_equal(rv, gv):
        ui = {4: np.uint32, 8: np.uint64}[rv.dtype.itemsize]
        bad = np.flatnonzero((rv.view(ui) != np.ascontiguousarray(gv).view(ui)) & ~(np.isnan(rv) & np.isnan(gv)))
        k = int(bad[0])
        raise Violation("event-value", f"{name}: {bad.size} of {n} events differ from the dense kernels, first "
                                       f"event {k} (bin order): {gv[k]!r} vs {rv[k]!r}")
    # masks and coordinates of the grid
    if list(out.masks) != list(snap["masks"]):
        raise Violation("mask", f"{name}: masks {list(out.masks)}, input {list(snap['masks'])}")
    for k, m in snap["masks"].items():
        if not snap_equal(m, snap_var(out.masks[k])):
            raise Violation("mask", f"{name}: mask {k!r} changed")
    for k, c in snap["coords"].items():
        if k in ("detector_number", "temperature") and k not in out.coords:
            raise Violation("coord", f"{name}: unrelated coordinate {k!r} lost")
        if k in out.coords and k != target and not snap_equal(c, snap_var(out.coords[k])):
            raise Violation("coord", f"{name}: coordinate {k!r} changed in the result")
    labs = [f"target:tof->{target}", "ev:" + case["evdtype"], "order:" + case["order"],
            f"npix:{case['npix']}", f"events:{n // 2**20}x2^20+",
            "variances" if case["variances"] else "no-variances"]
    if case["evmask"]:
        labs.append("evmask")
    if case["energy"]:
        labs.append("E:" + case["energy"])
    if rv.dtype.kind == "f" and np.isnan(rv).any():
        labs.append("nan-events")
    return labs, n >= LARGE_MIN_EVENTS and bool((flat == 0).any() and (flat > 0).any())


# ------------------------------------------------------------------ enumerated layouts x grids x dtypes x targets

FIXED_LAYOUTS = {
    # name -> function(nbins) -> (sizes, gaps, order)
    "all_empty": lambda nb: ([0] * nb, [1] + [0] * nb, list(range(nb))),
    "zero_events": lambda nb: ([0] * nb, [0] * (nb + 1), list(range(nb))),
    "first_last_empty": lambda nb: ([0] + [2] * max(nb - 2, 0) + [0] * (nb > 1), [0] * (nb + 1), list(range(nb))),
    "all_in_one": lambda nb: ([0] * (nb - 1) + [5], [0] * (nb + 1), list(range(nb))),
    "gapped_reversed": lambda nb: ([(3 * k + 1) % 4 for k in range(nb)], [(k + 1) % 3 for k in range(nb + 1)],
                                   list(range(nb))[::-1]),
    "uneven": lambda nb: ([(2 * k) % 5 for k in range(nb)], [0] * (nb + 1), list(range(nb))),
}
FIXED_EVENTS = {
    "tof": [5300.0, 100.0, 47000.0, 1200.0, 9000.0, 250.0, 31000.0, 700.0, 15000.0, 2000.0],   # us
    "wavelength": [1.5, 0.25, 12.0, 3.0, 0.75, 6.0, 2.0, 20.0, 0.5, 4.0],                       # angstrom
    "energy": [25.0, 0.5, 300.0, 5.0, 81.0, 1.0, 1000.0, 12.0, 40.0, 2.0],                      # meV
    "Q": [1.5, 0.0625, 12.0, 3.0, 0.75, 6.0, 2.0, 20.0, 0.5, 4.0],                              # 1/angstrom
}
FIXED_UNIT = {"tof": "us", "wavelength": "angstrom", "energy": "meV", "Q": "1/angstrom"}
FIXED_POS = [[1.0, 0.0, 0.0], [0.1, 0.0, 1.0], [0.0, 2.0, -1.5], [-0.7, 0.3, 0.2], [3.0, 3.0, 3.0], [0.0, -0.5, 4.0]]


def enumerate_grid(tier, seed):
    cases = []
    pairs = [(o, t, True, None) for o, ts in ELASTIC_TARGETS.items() for t in ts]
    pairs += [("tof", t, False, None) for t in NOSCATTER_TARGETS]
    pairs += [("tof", "energy_transfer", True, "incident_energy"), ("tof", "energy_transfer", True, "final_energy")]
    for (origin, target, scatter, energy), grid, evdtype, lname in itertools.product(
            pairs, ["pix", "pix_x", "x_pix", "pix2d"], ["float64", "float32", "int64", "int32"], sorted(FIXED_LAYOUTS)):
        pix_shape = [2, 3] if grid == "pix2d" else [3]
        nx = 2 if grid in ("pix_x", "x_pix") else 0
        dims, shape, _ = grid_dims(grid, origin, pix_shape, nx)
        nb = int(np.prod(shape))
        npix = int(np.prod(pix_shape))
        sizes, gaps, order = FIXED_LAYOUTS[lname](nb)
        _, _, n = layout_indices(sizes, gaps, order)
        ev = [FIXED_EVENTS[origin][i % 10] * (1 + i // 10) for i in range(n)]
        if evdtype in INT_DTYPES:
            ev = [int(math.ceil(v)) for v in ev]
        geo = {"mode": "positions" if scatter else "noscatter", "unit": "m",
               "sample_position": [0.0, 0.0, 0.0], "source_position": [0.0, 0.0, -10.0],
               "position": FIXED_POS[:npix]}
        if energy is not None:
            geo["energy"] = {"name": energy, "unit": "meV", "dtype": "float32" if evdtype == "float32" else "float64",
                             "values": [35.0], "per_pixel": False}
        edges = sorted(FIXED_EVENTS[origin])[: nx + 1] if nx else None
        cases.append({
            "origin": origin, "target": target, "scatter": scatter, "grid": grid, "pix_shape": pix_shape, "nx": nx,
            "layout": {"sizes": sizes, "gaps": gaps, "order": order},
            "evdtype": evdtype, "unit": FIXED_UNIT[origin], "events": ev,
            "wdtype": "float64", "weights": [float(i % 7) + 0.5 for i in range(n)],
            "variances": [float(i % 5) for i in range(n)] if lname != "uneven" else None,
            "evmask": None, "geometry": geo,
            "pixmask": [i % 2 == 0 for i in range(npix)], "xmask": [i % 2 == 1 for i in range(nx)] if nx else None,
            "dataset": False,
            "xcoord": {"kind": "edges", "dtype": "float64", "values": edges} if nx else None,
            "slice": None,
        })
    return cases


# ------------------------------------------------------------------ kernels called directly on binned variables

KERNEL_SPECS = {
    # kernel -> (binned operand names, dense per-pixel operand names)
    "wavelength_from_tof": (["tof"], ["Ltotal"]),
    "dspacing_from_tof": (["tof"], ["Ltotal", "two_theta"]),
    "energy_from_tof": (["tof"], ["Ltotal"]),
    "energy_transfer_direct_from_tof": (["tof"], ["L1", "L2", "incident_energy"]),
    "energy_transfer_indirect_from_tof": (["tof"], ["L1", "L2", "final_energy"]),
    "energy_from_wavelength": (["wavelength"], []),
    "wavelength_from_energy": (["energy"], []),
    "Q_from_wavelength": (["wavelength"], ["two_theta"]),
    "wavelength_from_Q": (["Q"], ["two_theta"]),
    "Q_elements_from_wavelength": (["wavelength"], ["incident_beam", "scattered_beam"]),
    "dspacing_from_wavelength": (["wavelength"], ["two_theta"]),
    "dspacing_from_energy": (["energy"], ["two_theta"]),
    "time_at_sample_from_tof": (["pulse_time", "tof", "wavelength"], ["L2"]),
}
DENSE_UNITS = {
    "Ltotal": ["m", "mm", "cm"], "L1": ["m", "mm"], "L2": ["m", "mm", "cm"], "two_theta": ["rad", "deg"],
    "incident_energy": ["meV", "eV"], "final_energy": ["meV", "eV"],
    "incident_beam": ["m", "mm"], "scattered_beam": ["m", "mm"],
}


@st.composite
def kernel_cases(draw):
    kname = draw(st.sampled_from(sorted(KERNEL_SPECS)))
    binned_names, dense_names = KERNEL_SPECS[kname]
    grid = draw(st.sampled_from(["pix", "pix", "pix2d", "single"]))
    pix_shape = {"pix": [draw(st.integers(1, 4))], "pix2d": [draw(st.integers(1, 3)), draw(st.integers(1, 3))],
                 "single": []}[grid]
    npix = int(np.prod(pix_shape)) if pix_shape else 1
    lay = draw(layouts(npix))
    _, _, n = layout_indices(lay["sizes"], lay["gaps"], lay["order"])
    dtype = draw(st.sampled_from(EVENT_DTYPES))
    ops = {}
    for name in binned_names:
        if name == "pulse_time":
            # tested usage: a float offset in the unit of tof
            continue
        unit = draw(st.sampled_from(ORIGIN_INT_UNITS[name] if dtype in INT_DTYPES else sorted(ORIGIN_UNITS[name])))
        ops[name] = {"unit": unit, "dtype": dtype, "values": draw(origin_values(name, unit, dtype, n))}
    if "pulse_time" in binned_names:
        ops["pulse_time"] = {"unit": ops["tof"]["unit"], "dtype": ops["tof"]["dtype"],
                             "values": draw(origin_values("tof", ops["tof"]["unit"], ops["tof"]["dtype"], n))}
    dense = {}
    for name in dense_names:
        unit = draw(st.sampled_from(DENSE_UNITS[name]))
        per_pixel = name != "L1" and name != "incident_beam" and (npix > 1) and draw(
            st.sampled_from([True, True, False]))
        m = npix if per_pixel else 1
        if name in ("incident_beam", "scattered_beam"):
            f = LEN_UNITS[unit]
            vals = []
            for _ in range(m):
                d = draw(unit_vector()) if name == "scattered_beam" else [0.0, 0.0, 1.0]
                length = draw(st.floats(0.2, 50.0, allow_nan=False))
                vals.append([float(c * length * f) for c in d])
            dense[name] = {"unit": unit, "dtype": "vector3", "values": vals, "per_pixel": per_pixel}
            continue
        ddt = draw(st.sampled_from(["float64", "float64", "float32"] +
                                   (["int64"] if name.endswith("energy") else [])))
        if name == "two_theta":
            f = 1.0 if unit == "rad" else 180.0 / math.pi
            vals = [v * f for v in draw(st.lists(st.floats(0.01, 3.13, allow_nan=False), min_size=m, max_size=m))]
        elif name.endswith("energy"):
            f = {"meV": 1.0, "eV": 1e-3}[unit]
            vals = [10.0**e * f for e in draw(st.lists(st.floats(0.0, 3.0, allow_nan=False), min_size=m,
                                                         max_size=m))]
            if ddt == "int64":
                vals = [max(1, round(v)) for v in vals]
        else:
            f = LEN_UNITS[unit]
            vals = [v * f for v in draw(st.lists(st.floats(0.2, 100.0, allow_nan=False), min_size=m, max_size=m))]
        if ddt == "float32":
            vals = [float(np.float32(v)) for v in vals]
        elif ddt == "float64":
            vals = [float(v) for v in vals]
        dense[name] = {"unit": unit, "dtype": ddt, "values": vals, "per_pixel": per_pixel}
    mutate = None
    if dense and draw(st.sampled_from([True, False, False])):
        mutate = draw(mutation_step(sorted(dense), {k: v["dtype"] for k, v in dense.items()}))
    return {"kernel": kname, "grid": grid, "pix_shape": pix_shape, "layout": lay, "binned": ops, "dense": dense,
            "mutate": mutate}


@st.composite
def mutation_step(draw, names, dtypes):
    """An in-place change of one coordinate/operand: scale floats and vectors, shift integers."""
    name = draw(st.sampled_from(names))
    if dtypes[name] in INT_DTYPES:
        return {"name": name, "add": draw(st.integers(1, 7))}
    if name == "two_theta":
        return {"name": name, "factor": draw(st.floats(0.5, 0.98, allow_nan=False))}
    return {"name": name, "factor": draw(st.one_of(st.floats(0.8, 0.99, allow_nan=False),
                                                   st.floats(1.01, 1.25, allow_nan=False)))}


def mutate_in_place(var, step):
    """Modify the values of ``var`` in its own buffer (same object, same unit and dtype)."""
    import scipp as sc

    if "add" in step:
        var += sc.scalar(step["add"], unit=var.unit, dtype=var.dtype)
    elif var.dtype == sc.DType.float32:
        var *= sc.scalar(np.float32(step["factor"]), dtype="float32")
    else:
        var *= sc.scalar(float(step["factor"]))


def _build_dense_operand(op, pix_dims, pix_shape):
    import scipp as sc

    if op["dtype"] == "vector3":
        v = np.asarray(op["values"], dtype=np.float64)
        if op["per_pixel"]:
            return sc.vectors(dims=pix_dims, values=v.reshape([*pix_shape, 3]), unit=op["unit"])
        return sc.vector(value=v[0], unit=op["unit"])
    if op["per_pixel"]:
        return _pixvar(op["values"], pix_dims, pix_shape, op["unit"], op["dtype"])
    return sc.scalar(np.dtype(op["dtype"]).type(op["values"][0]), unit=op["unit"], dtype=op["dtype"])


WARM_UP_OPERANDS = {
    "tof": (1234.5, "us"), "pulse_time": (11.0, "us"), "wavelength": (1.2345, "angstrom"),
    "energy": (7.123456, "meV"), "Q": (1.2345, "1/angstrom"), "Ltotal": (23.456, "m"), "L1": (17.654, "m"),
    "L2": (3.4567, "m"), "two_theta": (0.7654, "rad"), "incident_energy": (7.123456, "meV"),
    "final_energy": (6.54321, "meV"), "incident_beam": ([0.0, 0.0, 17.654], "m"),
    "scattered_beam": ([1.2, 0.3, 3.1], "m"),
}


def _warm_up_operand(name):
    import scipp as sc

    value, unit = WARM_UP_OPERANDS[name]
    if isinstance(value, list):
        return sc.vector(value=value, unit=unit)
    if name in KERNEL_SPECS["time_at_sample_from_tof"][0] or name in ORIGIN_UNITS:
        return sc.array(dims=[EVDIM], values=[value], unit=unit)
    return sc.scalar(value, unit=unit)


def check_kernel(case):
    import scipp as sc
    from scippneutron.conversion import tof as K

    kname = case["kernel"]
    fn = getattr(K, kname)
    pix_shape = case["pix_shape"]
    pix_dims = {0: [], 1: ["spectrum"], 2: ["y", "x"]}[len(pix_shape)]
    lay = case["layout"]
    begin, end, n = layout_indices(lay["sizes"], lay["gaps"], lay["order"])
    if pix_dims:
        b = sc.array(dims=pix_dims, values=np.asarray(begin, dtype=np.int64).reshape(pix_shape), unit=None)
        e = sc.array(dims=pix_dims, values=np.asarray(end, dtype=np.int64).reshape(pix_shape), unit=None)
    else:
        b, e = sc.index(begin[0]), sc.index(end[0])
    args, buffers = {}, {}
    for name, op in case["binned"].items():
        if len(op["values"]) != n:
            raise HarnessError("descriptor inconsistent: buffer length")
        buffers[name] = sc.array(dims=[EVDIM], values=np.asarray(op["values"], dtype=op["dtype"]),
                                 unit=op["unit"], dtype=op["dtype"])
        args[name] = sc.bins(begin=b.copy(), end=e.copy(), dim=EVDIM, data=buffers[name])
    for name, op in case["dense"].items():
        args[name] = _build_dense_operand(op, pix_dims, pix_shape)
    # same call history for every case: one dense call with fixed unrelated operands
    fn(**{name: _warm_up_operand(name) for name in [*case["binned"], *case["dense"]]})
    pending = [_start_kernel(case, fn, args, buffers, pix_dims, pix_shape)]
    step = case.get("mutate")
    if step is not None:
        # same argument objects, one of them changed in place, called again; the dense reference calls for
        # both come afterwards so that the two calls under test follow each other directly
        mutate_in_place(args[step["name"]], step)
        pending.append(_start_kernel(case, fn, args, buffers, pix_dims, pix_shape,
                                     tag=f"second call after in-place change of {step['name']}: "))
    for finish in pending:
        labs, nontrivial = finish()
    if step is not None:
        labs.append("history:in-place:" + step["name"])
    return labs, nontrivial


def _start_kernel(case, fn, args, buffers, pix_dims, pix_shape, tag=""):
    """Call the kernel with the binned arguments and check that they are untouched; returns the function
    that compares the result with the dense calls (made with copies of the dense arguments as they are now)."""
    import scipp as sc

    dtype = next(iter(case["binned"].values()))["dtype"]
    before_b = {name: snap_binned(args[name]) for name in case["binned"]}
    before_d = {name: snap_var(args[name]) for name in case["dense"]}
    dense_now = {name: args[name].copy() for name in case["dense"]}

    def dense_call(idx, bi, ei):
        dargs = {}
        for name, op in case["binned"].items():
            dargs[name] = sc.array(dims=[EVDIM], values=np.asarray(op["values"][bi:ei], dtype=op["dtype"]),
                                   unit=op["unit"], dtype=op["dtype"])
        for name in case["dense"]:
            dargs[name] = at(dense_now[name], idx).copy()
        return fn(**dargs)

    try:
        out = fn(**args)
    except sc.DTypeError as exc:
        if dtype != "int32":
            raise
        refusal = exc

        def refused():
            # allowed only where the dense call refuses the same dtype: int32 operands of scipp's pow
            try:
                dense_call({d: 0 for d in pix_dims}, 0, 0)
            except sc.DTypeError:
                return ["kernel:" + case["kernel"], "ev:int32", "int32:refused-like-dense(DTypeError)"], False
            raise refusal

        return refused
    _kernel_inputs_unchanged(tag + case["kernel"], case, args, buffers, before_b, before_d)
    outs = {k: v.copy() for k, v in (out if isinstance(out, dict) else {"result": out}).items()}
    return lambda: _finish_kernel(case, tag + case["kernel"], outs, before_b, dense_call, pix_dims, pix_shape)


def _kernel_inputs_unchanged(kname, case, args, buffers, before_b, before_d):
    for name in case["binned"]:
        after = snap_binned(args[name])
        bb = before_b[name]
        if not (np.array_equal(bb["begin"], after["begin"]) and np.array_equal(bb["end"], after["end"])
                and buffers_equal(bb["buffer"], after["buffer"]) is None):
            raise Violation("input-modified", f"{kname}: binned argument {name!r} was modified")
        if not snap_equal(bb["buffer"]["data"], snap_var(buffers[name])):
            raise Violation("input-modified", f"{kname}: event buffer of {name!r} was modified")
    for name in case["dense"]:
        if not snap_equal(before_d[name], snap_var(args[name])):
            raise Violation("input-modified", f"{kname}: argument {name!r} was modified")


def _finish_kernel(case, kname, outs, before_b, dense_call, pix_dims, pix_shape):
    import scipp as sc

    lay = case["layout"]
    dtype = next(iter(case["binned"].values()))["dtype"]
    ncompared = 0
    first = before_b[next(iter(case["binned"]))]
    sizes = first["end"] - first["begin"]
    for oname, ov in outs.items():
        what = f"{kname}[{oname}]"
        if ov.bins is None:
            raise Violation("bin-grid", f"{what}: result is not binned")
        ob = snap_binned(ov)
        if ob["dims"] != first["dims"] or ob["shape"] != first["shape"]:
            raise Violation("bin-grid", f"{what}: result dims {ob['dims']} {ob['shape']}, input {first['dims']} "
                                        f"{first['shape']}")
        if not np.array_equal(ob["end"] - ob["begin"], sizes):
            raise Violation("bin-membership", f"{what}: bin sizes {(ob['end'] - ob['begin']).tolist()}, input "
                                              f"{sizes.tolist()}")
        got = ob["buffer"]["data"]
        for idx in bin_indices(pix_dims, pix_shape):
            key = tuple(idx[d] for d in pix_dims)
            bi, ei = int(first["begin"][key]), int(first["end"][key])
            bo, eo = int(ob["begin"][key]), int(ob["end"][key])
            try:
                ref = dense_call(idx, bi, ei)
            except sc.DTypeError:
                if dtype != "int32":
                    raise
                return ["kernel:" + case["kernel"], "ev:int32", "int32:only-dense-refuses"], False
            ref = ref[oname] if isinstance(ref, dict) else ref
            if (got["unit"], got["dtype"]) != (ref.unit, str(ref.dtype)):
                raise Violation("event-unit-dtype", f"{what}: events are {got['dtype']} [{got['unit']}], the dense "
                                                    f"call gives {ref.dtype} [{ref.unit!r}]")
            rv, gv = np.asarray(ref.values), got["values"][bo:eo]
            if not bits_equal(rv, gv):
                raise Violation("event-value", f"{what}: bin {key}: differs from the dense call: "
                                + first_diff(gv, rv), {"got": np.asarray(gv).tolist(), "dense": rv.tolist()})
            ncompared += ei - bi
    labs = ["kernel:" + case["kernel"], "grid:" + case["grid"], "ev:" + dtype, *layout_labels(sizes)]
    labs += [f"{k}:{v['unit']}:{v['dtype']}" + (":per-pixel" if v["per_pixel"] else "") for k, v in
             case["dense"].items()]
    if any(lay["gaps"]):
        labs.append("layout:gapped")
    if lay["order"] != sorted(lay["order"]):
        labs.append("layout:permuted")
    s = np.asarray(sizes).reshape(-1)
    mixed = bool((s == 0).any() and (s > 0).any())
    return labs, ncompared > 0 and (mixed or dtype != "float64" or len(pix_shape) == 2)


# ------------------------------------------------------------------ gravity-corrected angles on binned wavelength


@st.composite
def gravity_cases(draw):
    fn = draw(st.sampled_from(["scattering_angles_with_gravity", "scattering_angles_with_gravity",
                               "scattering_angle_in_yz_plane"]))
    grid = draw(st.sampled_from(["pix", "pix", "pix2d", "single"]))
    pix_shape = {"pix": [draw(st.integers(1, 4))], "pix2d": [draw(st.integers(1, 3)), draw(st.integers(1, 3))],
                 "single": []}[grid]
    npix = int(np.prod(pix_shape)) if pix_shape else 1
    lay = draw(layouts(npix))
    _, _, n = layout_indices(lay["sizes"], lay["gaps"], lay["order"])
    dtype = draw(st.sampled_from(EVENT_DTYPES))
    unit = draw(st.sampled_from(ORIGIN_INT_UNITS["wavelength"] if dtype in INT_DTYPES else ["angstrom", "nm", "m", "mm"]))
    tilted = fn == "scattering_angles_with_gravity" and draw(st.booleans())
    lu = draw(st.sampled_from(["m", "m", "mm"]))
    f = LEN_UNITS[lu]
    l1 = draw(st.floats(1.0, 100.0, allow_nan=False))
    tilt = draw(st.floats(-0.3, 0.3, allow_nan=False).filter(lambda t: abs(t) > 1e-3)) if tilted else 0.0
    beams = []
    for _ in range(npix):
        d = draw(unit_vector())
        length = draw(st.floats(0.2, 20.0, allow_nan=False))
        beams.append([float(c * length * f) for c in d])
    return {"fn": fn, "grid": grid, "pix_shape": pix_shape, "layout": lay,
            "wavelength": {"unit": unit, "dtype": dtype,
                           "values": draw(origin_values("wavelength", unit, dtype, n))},
            "length_unit": lu, "incident_beam": [0.0, float(tilt * l1 * f), float(l1 * f)],
            "scattered_beam": beams, "gravity": [0.0, -9.80665, 0.0], "tilted": tilted}


def check_gravity(case):
    import scipp as sc
    from scippneutron.conversion import beamline as B

    fn = getattr(B, case["fn"])
    pix_shape = case["pix_shape"]
    pix_dims = {0: [], 1: ["spectrum"], 2: ["y", "x"]}[len(pix_shape)]
    lay = case["layout"]
    begin, end, n = layout_indices(lay["sizes"], lay["gaps"], lay["order"])
    w = case["wavelength"]
    if len(w["values"]) != n:
        raise HarnessError("descriptor inconsistent: buffer length")
    if pix_dims:
        b = sc.array(dims=pix_dims, values=np.asarray(begin, dtype=np.int64).reshape(pix_shape), unit=None)
        e = sc.array(dims=pix_dims, values=np.asarray(end, dtype=np.int64).reshape(pix_shape), unit=None)
        sb = sc.vectors(dims=pix_dims, values=np.asarray(case["scattered_beam"], dtype=np.float64).reshape(
            [*pix_shape, 3]), unit=case["length_unit"])
    else:
        b, e = sc.index(begin[0]), sc.index(end[0])
        sb = sc.vector(value=case["scattered_beam"][0], unit=case["length_unit"])
    buf = sc.array(dims=[EVDIM], values=np.asarray(w["values"], dtype=w["dtype"]), unit=w["unit"], dtype=w["dtype"])
    args = {"incident_beam": sc.vector(value=case["incident_beam"], unit=case["length_unit"]),
            "scattered_beam": sb, "wavelength": sc.bins(begin=b, end=e, dim=EVDIM, data=buf),
            "gravity": sc.vector(value=case["gravity"], unit="m/s^2")}
    before_w = snap_binned(args["wavelength"])
    before = {k: snap_var(args[k]) for k in ("incident_beam", "scattered_beam", "gravity")}

    out = fn(**args)

    after_w = snap_binned(args["wavelength"])
    if not (np.array_equal(before_w["begin"], after_w["begin"]) and np.array_equal(before_w["end"], after_w["end"])
            and buffers_equal(before_w["buffer"], after_w["buffer"]) is None
            and snap_equal(before_w["buffer"]["data"], snap_var(buf))):
        raise Violation("input-modified", f"{case['fn']}: binned wavelength was modified")
    for k, s in before.items():
        if not snap_equal(s, snap_var(args[k])):
            raise Violation("input-modified", f"{case['fn']}: argument {k!r} was modified")

    outs = out if isinstance(out, dict) else {"result": out}
    sizes = before_w["end"] - before_w["begin"]
    ncompared = 0
    for oname, ov in outs.items():
        what = f"{case['fn']}[{oname}]"
        if ov.bins is None:
            raise Violation("bin-grid", f"{what}: result is not binned")
        ob = snap_binned(ov)
        if set(ob["dims"]) != set(before_w["dims"]):
            raise Violation("bin-grid", f"{what}: result dims {ob['dims']}, input {before_w['dims']}")
        perm = [ob["dims"].index(d) for d in before_w["dims"]]
        ob_begin = np.transpose(ob["begin"], perm) if perm else ob["begin"]
        ob_end = np.transpose(ob["end"], perm) if perm else ob["end"]
        if not np.array_equal(ob_end - ob_begin, sizes):
            raise Violation("bin-membership", f"{what}: bin sizes {(ob_end - ob_begin).tolist()}, input "
                                              f"{sizes.tolist()}")
        got = ob["buffer"]["data"]
        for idx in bin_indices(pix_dims, pix_shape):
            key = tuple(idx[d] for d in pix_dims)
            bi, ei = int(before_w["begin"][key]), int(before_w["end"][key])
            bo, eo = int(ob_begin[key]), int(ob_end[key])
            dargs = {"incident_beam": args["incident_beam"].copy(), "gravity": args["gravity"].copy(),
                     "scattered_beam": at(args["scattered_beam"], idx).copy(),
                     "wavelength": sc.array(dims=[EVDIM], values=np.asarray(w["values"][bi:ei], dtype=w["dtype"]),
                                            unit=w["unit"], dtype=w["dtype"])}
            ref = fn(**dargs)
            ref = ref[oname] if isinstance(ref, dict) else ref
            if (got["unit"], got["dtype"]) != (ref.unit, str(ref.dtype)):
                raise Violation("event-unit-dtype", f"{what}: events are {got['dtype']} [{got['unit']}], the dense "
                                                    f"call gives {ref.dtype} [{ref.unit!r}]")
            rv, gv = np.asarray(ref.values), got["values"][bo:eo]
            if not bits_equal(rv, gv):
                raise Violation("event-value", f"{what}: bin {key}: differs from the dense call: "
                                + first_diff(gv, rv), {"got": np.asarray(gv).tolist(), "dense": rv.tolist()})
            ncompared += ei - bi
    labs = ["fn:" + case["fn"], "grid:" + case["grid"], "ev:" + w["dtype"], "unit:" + w["unit"],
            "tilted" if case["tilted"] else "orthogonal", *layout_labels(sizes)]
    s = np.asarray(sizes).reshape(-1)
    mixed = bool((s == 0).any() and (s > 0).any())
    return labs, ncompared > 0 and (mixed or w["dtype"] != "float64" or len(pix_shape) == 2)


# ------------------------------------------------------------------ facets

FACETS = [
    Facet("convert_large", check_large, strategy=lambda tier: large_cases(),
          quick=(2, 3), thorough=(16, 6), shrink=False, min_nontrivial=0.5,
          doc="scn.convert on 700..2000 pixels holding more than 2^21 events in total (empty, single and double "
              "bins): all events against the dense kernels on the flat event table, bin sizes, event count, "
              "weights, order, masks, coordinates, input untouched"),
    Facet("convert_elastic", check_convert, strategy=lambda tier: convert_cases(False),
          quick=(4, 400), thorough=(16, 1200), min_nontrivial=0.3,
          doc="scn.convert on binned data, elastic targets and no-scatter: events vs dense chain per bin, dense "
              "origin coordinate, preserved weights/order/membership/masks/coords, input untouched"),
    Facet("convert_inelastic", check_convert, strategy=lambda tier: convert_cases(True),
          quick=(2, 400), thorough=(16, 600), min_nontrivial=0.3,
          doc="scn.convert to energy_transfer (direct and indirect) on binned data"),
    # A facet "transposed_geometry" (2-d pixel grid whose geometry coordinates are stored with the pixel
    # dims in the opposite order of the data) was written and withdrawn: for binned data scipp's
    # transform_coords refuses to store the transposed event coordinate (VariableError "Expected (x,y)
    # index_pair, got (y,x)"). That is a loud refusal of a layout, raised inside scipp, not a wrong event
    # value; C06 speaks about the values of conversions that are carried out. The generator therefore
    # keeps geometry coordinates in the dim order of the data. See DESIGN.md "False alarms corrected".
    Facet("convert_history", check_history, strategy=lambda tier: history_cases(),
          quick=(2, 250), thorough=(16, 500), min_nontrivial=0.3,
          doc="scn.convert, then L1/L2/Ltotal/two_theta/positions/incident_energy/final_energy of the same object "
              "changed in place, then scn.convert again (up to 3 conversions): every conversion must agree with "
              "the dense kernels for the coordinates the object has at that moment"),
    Facet("layout_grid", check_convert, enumerate=enumerate_grid, exhaustive_in=("quick", "thorough"),
          quick=(4, 0), thorough=(16, 0), min_nontrivial=0.3,
          doc="6 fixed layouts x 4 grids x 3 event dtypes x every origin/target pair"),
    Facet("kernel_events", check_kernel, strategy=lambda tier: kernel_cases(),
          quick=(3, 500), thorough=(16, 1200), min_nontrivial=0.3,
          doc="conversion kernels called directly with binned variables: per-bin equality with the dense call, "
              "arguments untouched"),
    Facet("gravity_events", check_gravity, strategy=lambda tier: gravity_cases(),
          quick=(2, 300), thorough=(16, 500), min_nontrivial=0.3,
          doc="gravity-corrected angles for binned wavelengths vs the dense call per pixel"),
]


MATCHERS = {
    # scn.convert on binned data raises VariableError in scipp's transform_coords when a 2-d geometry
    # coordinate has the pixel dims in the opposite order of the data (the kernels put the dense factor
    # first, so the binned result comes out transposed and cannot be stored as an event coordinate)
    "C06.transposed_geometry_event_coord": lambda case, v: bool(case.get("geo_transposed"))
    and v.kind == "unexpected-exception:VariableError",
}


def selftest():
    # layout arithmetic, by hand: bins laid out in order [1, 0]; gaps 1, 0, 2
    b, e, n = layout_indices([2, 3], [1, 0, 2], [1, 0])
    assert (b, e, n) == ([4, 1], [6, 4], 8), (b, e, n)
    b, e, n = layout_indices([0, 0, 0], [0, 0, 0, 0], [0, 1, 2])
    assert (b, e, n) == ([0, 0, 0], [0, 0, 0], 0)
    # bit comparison
    nan2 = np.array([np.nan], dtype=np.float64)
    nan2.view(np.uint64)[0] |= 1
    assert bits_equal(np.array([np.nan]), nan2)
    assert not bits_equal(np.array([0.0]), np.array([-0.0]))
    assert not bits_equal(np.array([1.0], dtype=np.float32), np.array([1.0]))
    assert not bits_equal(np.array([1.0, 2.0]), np.array([2.0, 1.0]))
    # wiring of the reference chains against textbook numbers (h/m_n = 3956.034 m angstrom/s;
    # E[meV] = 81.8042 / lambda[angstrom]^2), 1e-5 is enough to catch swapped operands
    import scipp as sc

    x = sc.array(dims=[EVDIM], values=[1000.0], unit="us")
    g = geometry_of({"source_position": sc.vector([0.0, 0.0, -9.0], unit="m"),
                     "sample_position": sc.vector([0.0, 0.0, 0.0], unit="m"),
                     "position": sc.vector([1.0, 0.0, 0.0], unit="m"),
                     "incident_energy": sc.scalar(20.0, unit="meV")}, True)
    lam = 3956.034 / (10.0 / 1e-3)
    expect = {"wavelength": lam, "energy": 81.8042 / lam**2, "dspacing": lam / (2 * math.sin(math.pi / 4)),
              "Q": 4 * math.pi * math.sin(math.pi / 4) / lam, "Qx": -2 * math.pi / lam, "Qy": 0.0,
              "Qz": 2 * math.pi / lam}
    for t, v in expect.items():
        r = float(dense_chain("tof", t, x.copy(), g).values[0])
        assert abs(r - v) <= 1e-5 * max(abs(v), 1e-300) + (1e-12 if v == 0 else 0), (t, r, v)
    # direct: t0 = 9 m / v(20 meV), v = sqrt(E/5.227037e-6) m/s
    v_i = math.sqrt(20.0 / 5.227037e-6)
    t0 = 9.0 / v_i
    e_f = 5.227037e-6 * (1.0 / (1e-3 - t0)) ** 2
    r = float(dense_chain("tof", "energy_transfer", x.copy(), g).values[0])
    assert t0 < 1e-3 or math.isnan(r)
    if t0 < 1e-3:
        assert abs(r - (20.0 - e_f)) <= 1e-4 * max(20.0, e_f), (r, 20.0 - e_f)
    # snapshots: dim order may be ignored on request, values may not
    a = sc.array(dims=["y", "x"], values=np.arange(6.0).reshape(2, 3), unit="m")
    b = a.transpose(["x", "y"]).copy()
    assert snap_equal(snap_var(a), snap_var(b), any_dim_order=True)
    assert not snap_equal(snap_var(a), snap_var(b))
    b.values[0, 0] = 7.0
    assert not snap_equal(snap_var(a), snap_var(b), any_dim_order=True)
    # flat event index, by hand: bins [4,6) and [1,4) -> events 4,5,1,2,3
    assert event_index([4, 1], [2, 3]).tolist() == [4, 5, 1, 2, 3]
    assert event_index([0, 0, 3], [0, 3, 0]).tolist() == [0, 1, 2]
    u = uniform01(1000, 5, 2)
    assert u.min() >= 0.0 and u.max() < 1.0 and 0.4 < u.mean() < 0.6 and len(set(u.tolist())) == 1000
    assert np.array_equal(u, uniform01(1000, 5, 2)) and not np.array_equal(u, uniform01(1000, 5, 3))
    assert large_sizes(8, 6, 10).tolist() == [10, 0, 20, 10, 10, 10, 10, 10]
    # in-place change keeps the buffer: a second handle on the same variable sees it
    v = sc.array(dims=["p"], values=[1.0, 2.0], unit="m")
    w = v["p", 0:2]
    mutate_in_place(v, {"name": "L2", "factor": 1.5})
    assert w.values.tolist() == [1.5, 3.0]
    k = sc.scalar(3, unit="meV", dtype="int64")
    mutate_in_place(k, {"name": "incident_energy", "add": 2})
    assert k.value == 5 and k.dtype == sc.DType.int64
    # the comparison machinery notices a swapped pair of events
    assert first_diff(np.array([1.0, 2.0]), np.array([2.0, 1.0])).startswith("element 0")
