"""C03 — straight-beamline geometry equals its Euclidean definition; 2theta is stable."""

import functools
import math

import mpmath as mp
import numpy as np
from hypothesis import strategies as st

from ..core import Facet, HarnessError, Violation, attributed
from ..gen import logfloat as _logfloat
from ..ref import kin

PROPERTY = "C03"
RULE = (
    "Hypothesis draws a length unit (m/mm/cm/km/angstrom), a layout (all scalar; per-pixel "
    "detector; everything per pixel; per-pixel sample; 2-d detector bank) and, per pixel, two beams "
    "built by construction as n1*d and n2*(cos(t)*d + sin(t)*p) from an orthonormal pair (d, p), norms "
    "log-uniform over 1e-6..1e6 (boundary-biased), with the angle t drawn from five classes: generic, "
    "within 1e-16..1e-1 of 0, of pi/2, of pi, and exactly 0 / pi / pi/2 (same vector, +-2^k multiples, "
    "signed axis vectors, plus inexact general multiples). Beams are handed over directly (optionally "
    "in two different units) or via source = sample - b1, position = sample + b2 with the sample at "
    "the origin or anywhere up to 5e5 away. Every oracle works on the *stored* float64 inputs in "
    "50-digit arithmetic: exact differences, exact norms, Kahan's angle (cross-checked against "
    "atan2(|a x b|, a.b)). Labels are taken from the realised reference angle. A case is non-trivial "
    "when some pixel's realised angle is not generic (closer than 0.1 rad to 0, pi/2 or pi), or some "
    "norm ratio is >= 1e3, or a unit differs from m (for the scalar Ltotal facet: float32, or a ratio "
    ">= 1e3, or unit != m); distinct = distinct descriptor hash. Layouts in which the incident beam "
    "carries a dimension the scattered beam lacks are not generated (two_theta refuses them with a "
    "DimensionError; no caller produces them)."
)
ULP = 2.0**-52
TOLERANCES = {
    "two_theta_abs_rad": 4e-15,
    "two_theta_abs_rad_measured_worst": "4.7e-16 over 48 000 cases incl. all degenerate classes (margin 8.6x)",
    "length_rel": 4 * ULP,
    "length_rel_note": "4 ulp = 8u; a-priori bound for sqrt(sum of squares) of a rounded difference is "
                       "3.5u (L1, L2, no-scatter Ltotal) and 4.5u (L1 + L2); measured worst 3.1e-16 = 2.8u",
    "beam_component_rel": 4 * ULP,
    "beam_component_rel_measured_worst": "1.11e-16 (= u: the subtraction is correctly rounded)",
    "ltotal_float32_rel": 4 * 2.0**-23,
    "ltotal_float32_rel_measured_worst": "5.96e-8 (= half a float32 ulp)",
    "swap_and_pow2_scaling": "bit-identical (measured: 0 differences)",
    "general_scaling_abs_rad": "4e-15 (measured worst 4.4e-16)",
    "permutation_abs_rad_and_rel": "4e-15 rad / 4 ulp (measured worst 4.4e-16 rad, 3.1e-16)",
    "dyadic_translation_beams": "bit-identical",
}
ASSUMPTIONS = [
    "mpmath at 50 digits is exact enough to serve as ground truth for 4e-15 rad / 4 ulp",
    "the sample at the origin (norm 0) is part of the domain although the quantifier says norms "
    "1e-6..1e6: it is the canonical instrument layout and the code is translation invariant",
    "positions are constructed as sample -/+ beam in float64, so realised beam norms may leave "
    "[1e-6, 1e6] by a relative 1e-4 when the sample is 1e12 times further out than the beam is long",
    "cases in which a beam is the zero vector, or a difference vector is non-zero but shorter than "
    "1e-30 (squares underflow; norms 1e-6..1e6 cannot cancel below ~1e-22), are outside the quantifier "
    "and skipped; they are only reachable through Hypothesis' tiny floats or shrinking",
    "mixed length units are only exercised where scipp accepts them (two_theta, L1, L2 of directly "
    "given beams); Ltotal of mixed units raises UnitError and is outside the property",
    "scipp has no float32 vector type: the float32 clause is checked on total_beam_length(L1, L2) only",
]

TOL_ANGLE = mp.mpf("4e-15")
TOL_LEN = mp.mpf(4) * mp.mpf(2) ** -52
TOL_LEN32 = mp.mpf(4) * mp.mpf(2) ** -23

LEN_UNITS = ["m", "mm", "cm", "km", "angstrom"]
DIM_ORDER = ("tube", "spectrum")  # canonical order used by the oracle

# worst errors seen in this process (diagnostics only; never influences a verdict)
STATS = {}


@functools.lru_cache(maxsize=None)
def logfloat(lo, hi):
    """Cached strategy object (strategies are immutable; avoids re-validation per draw)."""
    return _logfloat(lo, hi)


def _stat(name, x):
    x = float(x)
    if x > STATS.get(name, 0.0):
        STATS[name] = x


# ------------------------------------------------------------------ construction of beams


def _cross(a, b):
    return [a[1] * b[2] - a[2] * b[1], a[2] * b[0] - a[0] * b[2], a[0] * b[1] - a[1] * b[0]]


def _unit(v):
    n = math.sqrt(sum(x * x for x in v))
    return [x / n for x in v]


def _direction(z, phi):
    r = math.sqrt(max(0.0, 1 - z * z))
    return [r * math.cos(phi), r * math.sin(phi), z]


def _partner(d, psi):
    """Unit vector orthogonal to the unit vector d (no rejection: always defined).

    ``psi`` is an angle in the plane orthogonal to d, or an int 0..3 for the four exact quadrant
    directions (so that axis-aligned d gets an axis-aligned, exactly orthogonal partner).
    """
    i = min(range(3), key=lambda k: abs(d[k]))
    e = [0.0, 0.0, 0.0]
    e[i] = 1.0
    e1 = _unit(_cross(d, e))
    e2 = _cross(d, e1)
    if isinstance(psi, int):
        c, s = [(1.0, 0.0), (0.0, 1.0), (-1.0, 0.0), (0.0, -1.0)][psi % 4]
    else:
        c, s = math.cos(psi), math.sin(psi)
    return [(c * e1[k] + s * e2[k]) + 0.0 for k in range(3)]


AXES = [[1.0, 0.0, 0.0], [0.0, 1.0, 0.0], [0.0, 0.0, 1.0],
        [-1.0, 0.0, 0.0], [0.0, -1.0, 0.0], [0.0, 0.0, -1.0]]


@functools.lru_cache(maxsize=None)
def directions():
    generic = st.tuples(st.floats(-1, 1, allow_nan=False),
                        st.floats(0, 2 * math.pi, allow_nan=False)).map(lambda t: _direction(*t))
    return st.one_of(generic, generic, generic, generic, st.sampled_from(AXES))


@functools.lru_cache(maxsize=None)
def _delta():
    return st.floats(-16, -1, allow_nan=False).map(lambda e: 10.0**e)


def _pow2_in_range(n, k, lo, hi):
    """2^+-k such that n * 2^+-k stays inside [10^lo, 10^hi] (|k| <= 19: one of the two always does)."""
    s = 2.0**k
    return s if 10.0**lo <= n * s <= 10.0**hi else 2.0**-k


_CLS = st.sampled_from(["generic", "generic", "near0", "nearpi", "nearhalf", "exact"])
_EXACT_KIND = st.sampled_from(["same", "par2k", "anti", "anti2k", "pargen", "antigen", "orthoaxis"])
_K19 = st.integers(-19, 19)
_QUAD = st.integers(0, 3)
_PSI = st.one_of(st.floats(0, 2 * math.pi, allow_nan=False), _QUAD)
_THETA = st.floats(0.0, math.pi, allow_nan=False)
_SIGN = st.sampled_from([1.0, -1.0])
_N_SPEC = st.integers(1, 4)
_N_TUBE = st.integers(1, 3)
_UNIT = st.sampled_from(LEN_UNITS)
_CONTAINER = st.sampled_from(["dataarray", "dataarray", "dataset"])
_SAMPLE_KIND = st.sampled_from(["origin", "origin", "far", "far", "far"])


def scattered_for(draw, b1, d, n1, lo=-6, hi=6):
    """A second beam at a class-controlled angle to the beam b1 = n1 * d."""
    cls = draw(_CLS)
    n2 = draw(logfloat(lo, hi))
    if cls == "exact":
        kind = draw(_EXACT_KIND)
        if kind == "same":
            return list(b1)
        if kind == "anti":
            return [-x + 0.0 for x in b1]
        if kind in ("par2k", "anti2k"):
            s = _pow2_in_range(n1, draw(_K19), lo, hi)
            s = s if kind == "par2k" else -s
            return [s * x + 0.0 for x in b1]
        if kind in ("pargen", "antigen"):
            s = n2 / n1 if kind == "pargen" else -n2 / n1
            return [s * x + 0.0 for x in b1]
        # exactly orthogonal when d is a coordinate axis, otherwise orthogonal up to rounding
        p = _partner(d, draw(_QUAD))
        return [n2 * x + 0.0 for x in p]
    psi = draw(_PSI)
    p = _partner(d, psi)
    if cls == "generic":
        t = draw(_THETA)
        c, s = math.cos(t), math.sin(t)
    elif cls == "near0":
        dl = draw(_delta())
        c, s = math.cos(dl), math.sin(dl)
    elif cls == "nearpi":
        dl = draw(_delta())
        c, s = -math.cos(dl), math.sin(dl)
    else:  # nearhalf
        dl = draw(_delta())
        sg = draw(_SIGN)
        c, s = sg * math.sin(dl), math.cos(dl)
    return [n2 * (c * d[k] + s * p[k]) + 0.0 for k in range(3)]


def incident(draw, lo=-6, hi=6):
    d = draw(directions())
    n1 = draw(logfloat(lo, hi))
    return {"b": [n1 * x + 0.0 for x in d], "d": d, "n": n1}


def _op(dims, shape, values):
    return {"dims": list(dims), "shape": list(shape), "values": [list(map(float, v)) for v in values]}


# ------------------------------------------------------------------ layouts

# beams handed over directly: dims of (incident_beam, scattered_beam)
BEAM_LAYOUTS = {
    "scalar": ([], []),
    "pixel": ([], ["spectrum"]),
    "both": (["spectrum"], ["spectrum"]),
    "2d": (["spectrum"], ["tube", "spectrum"]),
    "2d_transposed": (["spectrum", "tube"], ["tube", "spectrum"]),
}
# incident beam has a dimension the scattered beam lacks
BEAM_LAYOUTS_WIDER = {
    "inc_pixel": (["spectrum"], []),
    "cross": (["spectrum"], ["tube"]),
    "inc_2d": (["tube", "spectrum"], ["spectrum"]),
}
# positions: dims of (source_position, sample_position, position)
POS_LAYOUTS = {
    "scalar": ([], [], []),
    "pixel": ([], [], ["spectrum"]),
    "allpix": (["spectrum"], ["spectrum"], ["spectrum"]),
    "smp_pix": ([], ["spectrum"], []),
    "src_smp_pix": (["spectrum"], ["spectrum"], []),
    "2d": ([], [], ["tube", "spectrum"]),
}
POS_LAYOUTS_WIDER = {
    "src_pix": (["spectrum"], [], []),
    "src_pix_pos_tube": (["spectrum"], [], ["tube"]),
}


def _shape(dims, sizes):
    return [sizes[d] for d in dims]


def _count(dims, sizes):
    n = 1
    for d in dims:
        n *= sizes[d]
    return n


def _unflatten(j, dims, sizes):
    pos = {}
    for d in reversed(dims):
        pos[d] = j % sizes[d]
        j //= sizes[d]
    return pos


def _flat(pos, dims, sizes):
    """Row-major flat index; a dimension missing from ``pos`` counts as index 0."""
    i = 0
    for d in dims:
        i = i * sizes[d] + pos.get(d, 0)
    return i


@st.composite
def beam_case(draw, layouts):
    """Beams given directly; every scattered pixel is built relative to the incident beam it meets."""
    name = draw(st.sampled_from(sorted(layouts)))
    d1, d2 = layouts[name]
    sizes = {"spectrum": draw(_N_SPEC), "tube": draw(_N_TUBE)}
    unit1 = draw(_UNIT)
    unit2 = draw(st.sampled_from([unit1, unit1, unit1, *LEN_UNITS]))
    inc = [incident(draw) for _ in range(_count(d1, sizes))]
    b2 = []
    for j in range(_count(d2, sizes)):
        i = inc[_flat(_unflatten(j, d2, sizes), d1, sizes)]
        b2.append(scattered_for(draw, i["b"], i["d"], i["n"]))
    return {
        "layout": name, "unit1": unit1, "unit2": unit2,
        "incident_beam": _op(d1, _shape(d1, sizes), [i["b"] for i in inc]),
        "scattered_beam": _op(d2, _shape(d2, sizes), b2),
        "container": draw(_CONTAINER),
    }


@st.composite
def position_case(draw, layouts):
    """source = sample - b1, position = sample + b2 (an operand lacking a dim uses index 0 there)."""
    name = draw(st.sampled_from(sorted(layouts)))
    dsrc, dsmp, dpos = layouts[name]
    sizes = {"spectrum": draw(_N_SPEC), "tube": draw(_N_TUBE)}
    unit = draw(_UNIT)
    skind = draw(_SAMPLE_KIND)
    hi = 6 if skind == "origin" else math.log10(5e5)
    smp = []
    for _ in range(_count(dsmp, sizes)):
        if skind == "origin":
            smp.append([0.0, 0.0, 0.0])
        else:
            d = draw(directions())
            r = draw(logfloat(-6, hi))
            smp.append([r * x + 0.0 for x in d])
    inc, src = [], []
    for j in range(_count(dsrc, sizes)):
        s = smp[_flat(_unflatten(j, dsrc, sizes), dsmp, sizes)]
        i = incident(draw, -6, hi)
        inc.append(i)
        src.append([s[k] - i["b"][k] for k in range(3)])
    pos = []
    for j in range(_count(dpos, sizes)):
        p = _unflatten(j, dpos, sizes)
        s = smp[_flat(p, dsmp, sizes)]
        i = inc[_flat(p, dsrc, sizes)]
        b2 = scattered_for(draw, i["b"], i["d"], i["n"], -6, hi)
        pos.append([s[k] + b2[k] for k in range(3)])
    return {
        "layout": name, "unit": unit, "sample_kind": skind,
        "source_position": _op(dsrc, _shape(dsrc, sizes), src),
        "sample_position": _op(dsmp, _shape(dsmp, sizes), smp),
        "position": _op(dpos, _shape(dpos, sizes), pos),
        "container": draw(_CONTAINER),
    }


# ------------------------------------------------------------------ scipp builders


def vec_var(op, unit):
    import scipp as sc

    if not op["dims"]:
        return sc.vector(value=np.asarray(op["values"][0], dtype=np.float64), unit=unit)
    vals = np.asarray(op["values"], dtype=np.float64).reshape([*op["shape"], 3])
    return sc.vectors(dims=op["dims"], values=vals, unit=unit)


def _sizes(*ops):
    sizes = {}
    for op in ops:
        for d, s in zip(op["dims"], op["shape"], strict=True):
            sizes[d] = s
    return {d: sizes[d] for d in DIM_ORDER if d in sizes}


def make_container(coords, ops, kind):
    import scipp as sc

    sizes = _sizes(*ops)
    data = sc.ones(dims=list(sizes), shape=list(sizes.values())) if sizes else sc.scalar(1.0)
    da = sc.DataArray(data, coords=coords)
    if kind == "dataset":
        return sc.Dataset({"a": da, "b": da.copy()})
    return da


# ------------------------------------------------------------------ oracle (50 digits, stored inputs)


def _mp_elems(op):
    return [kin.vec(v) for v in op["values"]]


def ref_over(ops, fn):
    """Evaluate fn(mp vectors...) over the broadcast of ``ops``; returns (dims, object array)."""
    sizes = _sizes(*ops)
    dims = list(sizes)
    shape = [sizes[d] for d in dims]
    elems = [_mp_elems(op) for op in ops]
    flat = []
    for idx in np.ndindex(*shape) if shape else [()]:
        pos = dict(zip(dims, idx, strict=True))
        args = [el[_flat(pos, op["dims"], sizes)] for op, el in zip(ops, elems, strict=True)]
        flat.append(fn(*args))
    out = np.empty(len(flat), dtype=object)
    for i, v in enumerate(flat):
        out[i] = v
    return dims, out.reshape(shape)


def mp_sub(a, b):
    return [p - q for p, q in zip(a, b, strict=True)]


def mp_angle_cross(a, b):
    """Independent second formula for the angle: atan2(|a x b|, a . b)."""
    return mp.atan2(kin.norm(kin.cross(a, b)), kin.dot(a, b))


def angle_class(r):
    """Label of a reference angle (mpf)."""
    half = mp.pi / 2
    if r == 0:
        return "angle:exact0"
    if r == mp.pi:
        return "angle:exact_pi"
    if r == half:
        return "angle:exact_pi/2"
    for name, dist in (("0", r), ("pi", mp.pi - r), ("pi/2", abs(r - half))):
        if dist < mp.mpf("1e-12"):
            return f"angle:within1e-12_of_{name}"
        if dist < mp.mpf("1e-6"):
            return f"angle:within1e-6_of_{name}"
        if dist < mp.mpf("0.1"):
            return f"angle:within0.1_of_{name}"
    return "angle:generic"


# ------------------------------------------------------------------ comparisons


def _values(var, dims, what):
    """numpy values of a scipp variable in the oracle's dim order."""
    if set(var.dims) != set(dims):
        raise Violation("dims", f"{what}: result dims {var.dims}, expected {tuple(dims)}")
    v = var.transpose(dims) if dims else var
    return np.asarray(v.values, dtype=np.float64)


def _check_meta(var, unit, dtype, what):
    import scipp as sc

    if var.unit != sc.Unit(unit):
        raise Violation("unit", f"{what}: result unit {var.unit}, expected {unit}")
    if str(var.dtype) != dtype:
        raise Violation("dtype", f"{what}: result dtype {var.dtype}, expected {dtype}")
    if var.variances is not None:
        raise Violation("variances", f"{what}: result unexpectedly has variances")


def cmp_vectors(got, dims, ref, unit, what):
    _check_meta(got, unit, "vector3", what)
    g = _values(got, dims, what).reshape([*ref.shape, 3])
    for idx in np.ndindex(*ref.shape) if ref.shape else [()]:
        for k in range(3):
            gv, r = float(g[idx][k]), ref[idx][k]
            err = abs(mp.mpf(gv) - r)
            if not (math.isfinite(gv) and err <= TOL_LEN * abs(r)):
                raise Violation(
                    "beam", f"{what}[{list(idx)}][{k}]: got {gv!r}, exact difference {mp.nstr(r, 20)}",
                    {"index": list(idx), "component": k})
            if r != 0:
                _stat("beam_component_rel", err / abs(r))


def cmp_lengths(got, dims, ref, unit, what, tol=TOL_LEN, dtype="float64", stat="length_rel"):
    _check_meta(got, unit, dtype, what)
    g = _values(got, dims, what).reshape(ref.shape)
    for idx in np.ndindex(*ref.shape) if ref.shape else [()]:
        gv, r = float(g[idx]), ref[idx]
        # a length of exactly zero (detector at the source position) must come out as exactly zero
        err = abs(mp.mpf(gv) - r) / r if r != 0 else (mp.mpf(0) if gv == 0.0 else mp.inf)
        if not (math.isfinite(gv) and err <= tol):
            raise Violation(
                "length", f"{what}{list(idx)}: got {gv!r}, Euclidean value {mp.nstr(r, 20)}, "
                f"rel.err {mp.nstr(err, 3)} > {mp.nstr(tol, 3)}", {"index": list(idx), "rel_err": float(err)})
        _stat(stat, err)


def cmp_angles(got, dims, ref, what):
    _check_meta(got, "rad", "float64", what)
    g = _values(got, dims, what).reshape(ref.shape)
    for idx in np.ndindex(*ref.shape) if ref.shape else [()]:
        gv, r = float(g[idx]), ref[idx]
        if not (0.0 <= gv <= math.pi):
            raise Violation("range", f"{what}{list(idx)}: {gv!r} outside [0, pi]; reference {mp.nstr(r, 20)}",
                            {"index": list(idx)})
        err = abs(mp.mpf(gv) - r)
        if not err <= TOL_ANGLE:
            raise Violation(
                "angle", f"{what}{list(idx)}: got {gv!r}, reference {mp.nstr(r, 20)}, "
                f"abs.err {mp.nstr(err, 3)} rad > {mp.nstr(TOL_ANGLE, 3)}",
                {"index": list(idx), "abs_err": float(err), "class": angle_class(r)})
        _stat("two_theta_abs", err)


NORM_LO, NORM_HI = mp.mpf("1e-30"), mp.mpf("1e30")


def _beams_out_of_domain(ops):
    """Directly given beams: zero vector, or a norm absurdly far outside 1e-6..1e6 (shrinking only)."""
    for op in ops:
        for v in op["values"]:
            n = kin.norm(kin.vec(v))
            if not (NORM_LO <= n <= NORM_HI):
                return True
    return False


def _positions_out_of_domain(ref):
    """Position cases: a beam of zero length, or a difference vector (either beam, or
    position - source) that is not exactly zero but shorter than 1e-30: its squared components
    underflow, and the quantifier (norms 1e-6..1e6, i.e. >= 1e-22 after cancellation) excludes it."""
    for q in ("L1", "L2"):
        if any(not (NORM_LO <= n <= NORM_HI) for n in ref[q][1].reshape(-1)):
            return True
    return any(n != 0 and not (NORM_LO <= n <= NORM_HI) for n in ref["Ltotal_noscatter"][1].reshape(-1))


def _labels_angles(ref_tt, labs):
    nontrivial = False
    for r in ref_tt.reshape(-1):
        c = angle_class(r)
        labs.append(c)
        if c != "angle:generic":
            nontrivial = True
    return nontrivial


def _ratio_ge(norms, factor=1e3):
    norms = [float(x) for x in norms if x != 0]
    return bool(norms) and max(norms) / min(norms) >= factor


# ------------------------------------------------------------------ facet 2: two_theta accuracy, beams given directly


def _ref_beams_direct(case):
    b1, b2 = case["incident_beam"], case["scattered_beam"]
    tt = ref_over([b1, b2], kin.kahan_angle)
    l1 = ref_over([b1], kin.norm)
    l2 = ref_over([b2], kin.norm)
    return tt, l1, l2


def check_two_theta(case):
    import scippneutron as scn
    from scippneutron.conversion import beamline as B

    b1op, b2op = case["incident_beam"], case["scattered_beam"]
    u1, u2 = case["unit1"], case["unit2"]
    labs = ["layout:" + case["layout"], "unit:" + u1 + ("" if u1 == u2 else "+" + u2),
            "container:" + case["container"]]
    if _beams_out_of_domain((b1op, b2op)):
        return [*labs, "out-of-domain-skip"], False
    (dims, tt), (d1, l1), (d2, l2) = _ref_beams_direct(case)
    # the two closed forms for the angle must agree, otherwise the oracle is broken
    _, tt2 = ref_over([b1op, b2op], mp_angle_cross)
    for a, b in zip(tt.reshape(-1), tt2.reshape(-1), strict=True):
        if abs(a - b) > mp.mpf("1e-30"):
            raise HarnessError(f"reference angles disagree: {a} vs {b}")
    b1, b2 = vec_var(b1op, u1), vec_var(b2op, u2)
    cmp_angles(B.two_theta(incident_beam=b1, scattered_beam=b2), dims, tt, "two_theta kernel")
    cmp_lengths(B.L1(incident_beam=b1), d1, l1, u1, "L1 kernel")
    cmp_lengths(B.L2(scattered_beam=b2), d2, l2, u2, "L2 kernel")
    cont = make_container({"incident_beam": b1, "scattered_beam": b2}, [b1op, b2op], case["container"])
    cmp_angles(scn.two_theta(cont), dims, tt, "scippneutron.two_theta(beams)")
    cmp_lengths(scn.L1(cont), d1, l1, u1, "scippneutron.L1(beams)")
    cmp_lengths(scn.L2(cont), d2, l2, u2, "scippneutron.L2(beams)")
    nt = _labels_angles(tt, labs)
    norms = [*l1.reshape(-1), *l2.reshape(-1)]
    if _ratio_ge(norms):
        labs.append("norm-ratio>=1e3")
        nt = True
    if u1 != "m" or u2 != "m":
        nt = True
    return labs, nt


# ------------------------------------------------------------------ facet 1: geometry from positions

QUANTITIES = ["incident_beam", "scattered_beam", "L1", "L2", "Ltotal", "Ltotal_noscatter", "two_theta"]


def _ref_positions(case):
    src, smp, pos = case["source_position"], case["sample_position"], case["position"]
    ib = ref_over([src, smp], lambda s, m: mp_sub(m, s))
    sb = ref_over([pos, smp], lambda p, m: mp_sub(p, m))
    return {
        "incident_beam": ib,
        "scattered_beam": sb,
        "L1": ref_over([src, smp], lambda s, m: kin.norm(mp_sub(m, s))),
        "L2": ref_over([pos, smp], lambda p, m: kin.norm(mp_sub(p, m))),
        "Ltotal": ref_over([src, smp, pos],
                           lambda s, m, p: kin.norm(mp_sub(m, s)) + kin.norm(mp_sub(p, m))),
        "Ltotal_noscatter": ref_over([src, pos], lambda s, p: kin.norm(mp_sub(p, s))),
        "two_theta": ref_over([src, smp, pos], lambda s, m, p: kin.kahan_angle(mp_sub(m, s), mp_sub(p, m))),
    }


def _compare_all(got, ref, unit, path):
    for q in QUANTITIES:
        if q not in got:
            continue
        dims, r = ref[q]
        what = f"{q} [{path}]"
        if q in ("incident_beam", "scattered_beam"):
            cmp_vectors(got[q], dims, r, unit, what)
        elif q == "two_theta":
            cmp_angles(got[q], dims, r, what)
        else:
            cmp_lengths(got[q], dims, r, unit, what)


def run_kernels(src, smp, pos):
    from scippneutron.conversion import beamline as B

    ib = B.straight_incident_beam(source_position=src, sample_position=smp)
    sb = B.straight_scattered_beam(position=pos, sample_position=smp)
    l1 = B.L1(incident_beam=ib)
    l2 = B.L2(scattered_beam=sb)
    return {
        "incident_beam": ib, "scattered_beam": sb, "L1": l1, "L2": l2,
        "Ltotal": B.total_beam_length(L1=l1, L2=l2),
        "Ltotal_noscatter": B.total_straight_beam_length_no_scatter(source_position=src, position=pos),
        "two_theta": B.two_theta(incident_beam=ib, scattered_beam=sb),
    }


def run_components(cont):
    import scippneutron as scn

    return {
        "incident_beam": scn.incident_beam(cont), "scattered_beam": scn.scattered_beam(cont),
        "L1": scn.L1(cont), "L2": scn.L2(cont),
        "Ltotal": scn.Ltotal(cont, scatter=True), "Ltotal_noscatter": scn.Ltotal(cont, scatter=False),
        "two_theta": scn.two_theta(cont),
    }


def run_graphs(da):
    from scippneutron.conversion.graph import beamline as G

    def tc(name, graph):
        with attributed(f"transform_coords({name!r}) over graph.beamline.{name.split('_noscatter')[0]}() on data with coords "
                        f"{sorted(da.coords)}"):
            return da.transform_coords(name, graph=graph, rename_dims=False).coords[name]

    return {
        "incident_beam": tc("incident_beam", G.incident_beam()),
        "scattered_beam": tc("scattered_beam", G.scattered_beam()),
        "L1": tc("L1", G.L1()), "L2": tc("L2", G.L2()),
        "Ltotal": tc("Ltotal", G.Ltotal(scatter=True)),
        "Ltotal_noscatter": tc("Ltotal", G.Ltotal(scatter=False)),
        "two_theta": tc("two_theta", G.two_theta()),
    }


def _position_labels(case, ref, labs):
    nt = _labels_angles(ref["two_theta"][1], labs)
    norms = [*ref["L1"][1].reshape(-1), *ref["L2"][1].reshape(-1)]
    if _ratio_ge(norms):
        labs.append("norm-ratio>=1e3")
        nt = True
    if case["unit"] != "m":
        nt = True
    return nt


def check_geometry(case):
    ops = [case["source_position"], case["sample_position"], case["position"]]
    unit = case["unit"]
    labs = ["layout:" + case["layout"], "unit:" + unit, "sample:" + case["sample_kind"],
            "container:" + case["container"]]
    ref = _ref_positions(case)
    if _positions_out_of_domain(ref):
        return [*labs, "out-of-domain-skip"], False
    src, smp, pos = (vec_var(op, unit) for op in ops)
    _compare_all(run_kernels(src, smp, pos), ref, unit, "kernels")
    coords = {"source_position": src, "sample_position": smp, "position": pos}
    cont = make_container(coords, ops, case["container"])
    _compare_all(run_components(cont), ref, unit, "scippneutron.<name>(" + case["container"] + ")")
    # the same beamline with the pixel dimension *named* 'position' (so that the positions are a
    # dimension-coordinate): the accessors must still label their results with that dimension
    # (transform_coords renames a dimension whose dimension-coordinate is consumed unless told not to)
    if "spectrum" in cont.dims and "position" not in cont.dims:
        renamed = cont.rename_dims({"spectrum": "position"})
        with attributed("scippneutron.<name>() on data whose pixel dimension is called 'position'"):
            got_r = run_components(renamed)
        back = {}
        for q, v in got_r.items():
            if "spectrum" in v.dims or any(d not in ("position", "tube") for d in v.dims):
                raise Violation("dims", f"{q} [scippneutron.<name>() with the pixel dimension called 'position']: "
                                        f"result dims {v.dims}")
            back[q] = v.rename_dims({"position": "spectrum"}) if "position" in v.dims else v
        _compare_all(back, ref, unit, "scippneutron.<name>(" + case["container"] + ", pixel dim named 'position')")
        labs.append("dim-named-position")
    # the three position accessors hand back exactly what was supplied
    import scipp as sc
    import scippneutron as scn

    for name, fn in (("source_position", scn.source_position), ("sample_position", scn.sample_position),
                     ("position", scn.position)):
        with attributed(f"scippneutron.{name}({case['container']})"):
            got = fn(cont)
        if not sc.identical(got, coords[name]):
            raise Violation("accessor", f"scippneutron.{name}({case['container']}) does not return the "
                                        f"{name} coordinate that was supplied: {got.values.tolist()} vs "
                                        f"{coords[name].values.tolist()}")
    # ... and again after the beamline in the *same* object has been moved (cyclic permutation of the
    # components of every position): a result remembered from the first query would now be stale
    # (seeded/C03-s4).
    moved = dict(case)
    for name in ("source_position", "sample_position", "position"):
        moved[name] = dict(case[name], values=[[v[1], v[2], v[0]] for v in case[name]["values"]])
    ref2 = _ref_positions(moved)
    if not _positions_out_of_domain(ref2):
        for name in ("source_position", "sample_position", "position"):
            cont.coords[name] = vec_var(moved[name], unit)
        _compare_all(run_components(cont), ref2, unit,
                     "scippneutron.<name>(" + case["container"] + ") after moving the beamline in the same object")
    _compare_all(run_graphs(make_container(coords, ops, "dataarray")), ref, unit, "graph.beamline.<name>()")
    return labs, _position_labels(case, ref, labs)


# ------------------------------------------------------------------ facet 3: metamorphic, exact transforms

PERMS = []


def _init_perms():
    import itertools

    for perm in itertools.permutations(range(3)):
        for signs in itertools.product([1.0, -1.0], repeat=3):
            # determinant = sign of permutation * product of signs
            inv = sum(1 for i in range(3) for j in range(i + 1, 3) if perm[i] > perm[j])
            if (-1) ** inv * signs[0] * signs[1] * signs[2] == 1:
                PERMS.append((list(perm), list(signs)))


_init_perms()  # the 24 proper rotations that map the coordinate axes onto each other


def apply_perm(v, k):
    perm, signs = PERMS[k]
    return [signs[i] * v[perm[i]] if v[perm[i]] != 0 else 0.0 for i in range(3)]


GRID = 2.0**-30   # dyadic grid for the translation mode
GRID_MAX = 2**50  # |coordinate| <= 2^20: any sum / difference of two stays below 2^53 grid steps


def _to_grid(v):
    return [float(max(-GRID_MAX, min(GRID_MAX, round(x / GRID)))) * GRID for x in v]


@st.composite
def metamorphic_case(draw):
    mode = draw(st.sampled_from(["swap", "scale_pow2", "scale_general", "permute", "translate_dyadic"]))
    if mode in ("swap", "scale_pow2", "scale_general"):
        case = draw(beam_case({k: BEAM_LAYOUTS[k] for k in ("scalar", "both")}
                              if mode == "swap" else
                              {k: BEAM_LAYOUTS[k] for k in ("scalar", "pixel", "both")}))
        del case["container"]
        case["mode"] = mode
        if mode != "swap":
            case["which"] = draw(st.sampled_from(["incident_beam", "scattered_beam"]))
            if mode == "scale_pow2":
                case["k"] = draw(st.integers(1, 19)) * draw(st.sampled_from([1, -1]))
            else:
                case["factor"] = draw(st.one_of(st.floats(0.1, 10.0, allow_nan=False), logfloat(-3, 3)))
        return case
    case = draw(position_case({k: POS_LAYOUTS[k] for k in ("scalar", "pixel", "allpix", "smp_pix")}))
    del case["container"]
    case["mode"] = mode
    if mode == "permute":
        case["perm"] = draw(st.integers(1, 23))
    else:
        for name in ("source_position", "sample_position", "position"):
            case[name]["values"] = [_to_grid(v) for v in case[name]["values"]]
        d = draw(directions())
        r = draw(logfloat(-6, math.log10(5e5)))
        case["shift"] = _to_grid([r * x for x in d])
    return case


def _vals(var):
    return np.asarray(var.values, dtype=np.float64)


def _same_bits(a, b):
    a, b = _vals(a), _vals(b)
    return a.shape == b.shape and bool(np.all(a == b)) and not bool(np.any(np.isnan(a)))


def _scaled_norm_ok(op, s):
    """All scaled norms stay inside the quantifier's 1e-6..1e6 (0.1 % slack for rounding)."""
    for v in op["values"]:
        n = math.sqrt(sum(x * x for x in v)) * abs(s)
        if not (0.999e-6 <= n <= 1.001e6):
            return False
    return True


def check_metamorphic(case):
    from scippneutron.conversion import beamline as B

    mode = case["mode"]
    labs = ["mode:" + mode, "layout:" + case["layout"]]
    if mode in ("swap", "scale_pow2", "scale_general"):
        b1op, b2op = case["incident_beam"], case["scattered_beam"]
        if _beams_out_of_domain((b1op, b2op)):
            return [*labs, "out-of-domain-skip"], False
        u1, u2 = case["unit1"], case["unit2"]
        (dims, tt), (_, l1), (_, l2) = _ref_beams_direct(case)
        base = B.two_theta(incident_beam=vec_var(b1op, u1), scattered_beam=vec_var(b2op, u2))
        if mode == "swap":
            other = B.two_theta(incident_beam=vec_var(b2op, u2), scattered_beam=vec_var(b1op, u1))
            if not _same_bits(base, other):
                raise Violation("swap", f"two_theta(b1, b2) = {_vals(base).tolist()!r} but "
                                f"two_theta(b2, b1) = {_vals(other).tolist()!r}")
        else:
            which = case["which"]
            op = dict(case[which])
            s = 2.0 ** case["k"] if mode == "scale_pow2" else case["factor"]
            if not _scaled_norm_ok(op, s):
                s = 1.0 / s if mode == "scale_general" else 2.0 ** -case["k"]
            if not _scaled_norm_ok(op, s):
                return [*labs, "scale-range-skip"], False
            op["values"] = [[s * x for x in v] for v in op["values"]]
            args = {"incident_beam": vec_var(b1op, u1), "scattered_beam": vec_var(b2op, u2)}
            args[which] = vec_var(op, u1 if which == "incident_beam" else u2)
            other = B.two_theta(**args)
            labs.append("scaled:" + which)
            if mode == "scale_pow2":
                if not _same_bits(base, other):
                    raise Violation("scale", f"two_theta changes when {which} is multiplied by {s!r}: "
                                    f"{_vals(base).tolist()!r} -> {_vals(other).tolist()!r}")
            else:
                diff = float(np.max(np.abs(_vals(base) - _vals(other))))
                _stat("scale_general_abs", diff)
                if not diff <= float(TOL_ANGLE):
                    raise Violation("scale", f"two_theta changes by {diff:.3e} rad when {which} is "
                                    f"multiplied by {s!r}")
        nt = _labels_angles(tt, labs)
        if _ratio_ge([*l1.reshape(-1), *l2.reshape(-1)]):
            labs.append("norm-ratio>=1e3")
            nt = True
        return labs, nt or u1 != "m" or u2 != "m"

    # position based modes
    unit = case["unit"]
    names = ("source_position", "sample_position", "position")
    ref = _ref_positions(case)
    if _positions_out_of_domain(ref):
        return [*labs, "out-of-domain-skip"], False
    base = run_kernels(*(vec_var(case[n], unit) for n in names))
    moved = {}
    for n in names:
        op = dict(case[n])
        if mode == "permute":
            op["values"] = [apply_perm(v, case["perm"]) for v in op["values"]]
        else:
            sh = case["shift"]
            for v in op["values"]:
                for k in range(3):
                    if (v[k] + sh[k]) - sh[k] != v[k] or abs(v[k] + sh[k]) > 2.0**22:
                                    raise HarnessError(f"translation not exact for {v} + {sh}")
            op["values"] = [[v[k] + sh[k] for k in range(3)] for v in op["values"]]
        moved[n] = op
    other = run_kernels(*(vec_var(moved[n], unit) for n in names))
    for q in ("incident_beam", "scattered_beam"):
        a, b = _vals(base[q]).reshape(-1, 3), _vals(other[q]).reshape(-1, 3)
        if mode == "permute":
            a = np.asarray([apply_perm(list(map(float, v)), case["perm"]) for v in a]).reshape(-1, 3)
        if not (a.shape == b.shape and bool(np.all(a == b))):
            raise Violation(mode, f"{q} of the transformed beamline is not the transformed {q}: "
                            f"{b.tolist()!r} vs {a.tolist()!r}")
    for q in ("L1", "L2", "Ltotal", "Ltotal_noscatter"):
        a, b = _vals(base[q]), _vals(other[q])
        with np.errstate(all="ignore"):
            rel = float(np.max(np.where(a == b, 0.0, np.abs(a - b) / np.abs(a))))
        _stat(mode + "_length_rel", rel)
        if not rel <= float(TOL_LEN):
            raise Violation(mode, f"{q} changes by {rel:.3e} (relative) under an exact {mode}")
    diff = float(np.max(np.abs(_vals(base["two_theta"]) - _vals(other["two_theta"]))))
    _stat(mode + "_angle_abs", diff)
    if not diff <= float(TOL_ANGLE):
        raise Violation(mode, f"two_theta changes by {diff:.3e} rad under an exact {mode}: "
                        f"{_vals(base['two_theta']).tolist()!r} -> {_vals(other['two_theta']).tolist()!r}")
    # the transformed beamline must itself satisfy the Euclidean definition
    mcase = dict(case)
    mcase.update(moved)
    _compare_all(other, _ref_positions(mcase), unit, "kernels after " + mode)
    labs.append("sample:" + case["sample_kind"])
    return labs, _position_labels(case, ref, labs)


# ------------------------------------------------------------------ facet 4: scalar Ltotal = L1 + L2, float64 and float32


@st.composite
def ltotal_case(draw):
    dtype = draw(st.sampled_from(["float64", "float32", "float32"]))
    unit = draw(_UNIT)
    layout = draw(st.sampled_from(["scalar", "1d", "L1scalar", "L2scalar", "outer"]))
    n, m = draw(st.integers(1, 4)), draw(st.integers(1, 3))
    d1, d2 = {"scalar": ([], []), "1d": (["spectrum"], ["spectrum"]), "L1scalar": ([], ["spectrum"]),
              "L2scalar": (["spectrum"], []), "outer": (["tube"], ["spectrum"])}[layout]
    sizes = {"spectrum": n, "tube": m}

    def vals(dims):
        k = _count(dims, sizes)
        v = draw(st.lists(logfloat(-6, 6), min_size=k, max_size=k))
        if dtype == "float32":
            v = [float(np.float32(x)) for x in v]
        return {"dims": list(dims), "shape": _shape(dims, sizes), "values": v}

    return {"dtype": dtype, "unit": unit, "layout": layout, "L1": vals(d1), "L2": vals(d2)}


def _scalar_var(op, unit, dtype):
    import scipp as sc

    vals = np.asarray(op["values"], dtype=dtype).reshape(op["shape"])
    if not op["dims"]:
        return sc.scalar(vals.reshape(())[()], unit=unit, dtype=dtype)
    return sc.array(dims=op["dims"], values=vals, unit=unit, dtype=dtype)


def check_ltotal(case):
    from scippneutron.conversion import beamline as B

    dtype, unit = case["dtype"], case["unit"]
    o1, o2 = case["L1"], case["L2"]
    labs = [dtype, "unit:" + unit, "layout:" + case["layout"]]
    sizes = _sizes(o1, o2)
    dims = list(sizes)
    shape = [sizes[d] for d in dims]
    ref = np.empty(shape, dtype=object)
    for idx in np.ndindex(*shape) if shape else [()]:
        pos = dict(zip(dims, idx, strict=True))
        ref[idx] = (mp.mpf(o1["values"][_flat(pos, o1["dims"], sizes)])
                    + mp.mpf(o2["values"][_flat(pos, o2["dims"], sizes)]))
    got = B.total_beam_length(L1=_scalar_var(o1, unit, dtype), L2=_scalar_var(o2, unit, dtype))
    cmp_lengths(got, dims, ref, unit, f"total_beam_length[{dtype}]",
                tol=TOL_LEN if dtype == "float64" else TOL_LEN32, dtype=dtype, stat="ltotal_rel_" + dtype)
    ratio = _ratio_ge([*o1["values"], *o2["values"]])
    if ratio:
        labs.append("norm-ratio>=1e3")
    return labs, dtype == "float32" or ratio or unit != "m"


# ------------------------------------------------------------------ facet 5: incident beam wider than scattered beam


@st.composite
def wider_case(draw):
    if draw(st.booleans()):
        case = draw(beam_case(BEAM_LAYOUTS_WIDER))
        case["given"] = "beams"
    else:
        case = draw(position_case(POS_LAYOUTS_WIDER))
        case["given"] = "positions"
    case["incident_wider"] = True
    return case


def check_wider(case):
    import scippneutron as scn
    from scippneutron.conversion import beamline as B

    labs = ["given:" + case["given"], "layout:" + case["layout"], "container:" + case["container"]]
    if case["given"] == "beams":
        b1op, b2op = case["incident_beam"], case["scattered_beam"]
        if _beams_out_of_domain((b1op, b2op)):
            return [*labs, "out-of-domain-skip"], False
        (dims, tt), _, _ = _ref_beams_direct(case)
        b1, b2 = vec_var(b1op, case["unit1"]), vec_var(b2op, case["unit2"])
        cmp_angles(B.two_theta(incident_beam=b1, scattered_beam=b2), dims, tt, "two_theta kernel")
        cont = make_container({"incident_beam": b1, "scattered_beam": b2}, [b1op, b2op], case["container"])
        cmp_angles(scn.two_theta(cont), dims, tt, "scippneutron.two_theta(beams)")
        _labels_angles(tt, labs)
        return labs, True
    ops = [case["source_position"], case["sample_position"], case["position"]]
    ref = _ref_positions(case)
    if _positions_out_of_domain(ref):
        return [*labs, "out-of-domain-skip"], False
    unit = case["unit"]
    src, smp, pos = (vec_var(op, unit) for op in ops)
    _compare_all(run_kernels(src, smp, pos), ref, unit, "kernels")
    cont = make_container({"source_position": src, "sample_position": smp, "position": pos}, ops,
                          case["container"])
    _compare_all(run_components(cont), ref, unit, "scippneutron.<name>(" + case["container"] + ")")
    _labels_angles(ref["two_theta"][1], labs)
    return labs, True


def _match_incident_wider(case, v):
    return bool(case.get("incident_wider")) and v.kind == "unexpected-exception:DimensionError"


MATCHERS = {"C03.two_theta_incident_wider_than_scattered": _match_incident_wider}


# ------------------------------------------------------------------ registration

FACETS = [
    Facet("geometry", check_geometry, strategy=lambda tier: position_case(POS_LAYOUTS),
          quick=(4, 300), thorough=(16, 3000), min_nontrivial=0.5,
          doc="incident/scattered beam, L1, L2, Ltotal (scatter / no scatter), two_theta from positions "
              "vs exact differences, norms and Kahan angle in mpmath; through the kernels, through "
              "scippneutron.<name>(DataArray|Dataset) and through graph.beamline.<name>()"),
    Facet("two_theta_accuracy", check_two_theta, strategy=lambda tier: beam_case(BEAM_LAYOUTS),
          quick=(4, 600), thorough=(16, 6000), min_nontrivial=0.5,
          doc="two_theta of directly given beams (kernel and data-array accessor) vs Kahan's formula in "
              "mpmath on the stored inputs: absolute error <= 4e-15 rad, value in [0, pi]; L1, L2"),
    Facet("metamorphic", check_metamorphic, strategy=lambda tier: metamorphic_case(),
          quick=(4, 400), thorough=(16, 4000), min_nontrivial=0.5,
          doc="swap of beams and 2^k scaling bit-identical; general scaling, the 24 signed axis "
              "permutations and dyadic translations within 4e-15 rad / 4 ulp, beams transformed exactly"),
    Facet("ltotal_scalar", check_ltotal, strategy=lambda tier: ltotal_case(),
          quick=(2, 400), thorough=(16, 2000), min_nontrivial=0.5,
          doc="total_beam_length(L1, L2) = L1 + L2 in float64 and float32 (result dtype preserved)"),
    # A facet "incident_wider" (incident beam carrying a dimension the scattered beam lacks, e.g. a
    # per-pixel source with one detector) was written and withdrawn: two_theta refuses such layouts
    # with a DimensionError (in-place `b2 += b1`). That is a clean refusal of a layout no caller
    # produces (source and sample are scalar or share the detector dims), not a wrong Euclidean value,
    # so it is outside C03's input domain. See DESIGN.md "False alarms corrected".
]


def selftest():
    kin.selftest()
    # hand-computed values
    a, b = kin.vec([1.0, 0.0, 0.0]), kin.vec([1.0, 1.0, 0.0])
    assert mp.almosteq(kin.kahan_angle(a, b), mp.pi / 4, rel_eps=mp.mpf(10) ** -45)
    assert mp.almosteq(mp_angle_cross(a, b), mp.pi / 4, rel_eps=mp.mpf(10) ** -45)
    assert kin.kahan_angle(a, kin.vec([8.0, 0.0, 0.0])) == 0
    assert kin.kahan_angle(a, kin.vec([-0.5, 0.0, 0.0])) == mp.pi
    assert kin.kahan_angle(a, kin.vec([0.0, 0.0, 3.0])) == mp.pi / 2
    # 1e-9 rad: the small-angle value must survive (acos of the dot product returns 0 here)
    t = kin.kahan_angle(a, kin.vec([1.0, 1e-9, 0.0]))
    assert abs(t - mp.mpf(1e-9)) < mp.mpf("1e-26"), t
    assert kin.norm(mp_sub(kin.vec([3.0, 0.0, 0.0]), kin.vec([0.0, 4.0, 0.0]))) == 5
    assert angle_class(mp.mpf(0)) == "angle:exact0"
    assert angle_class(mp.pi - mp.mpf("1e-13")) == "angle:within1e-12_of_pi"
    assert angle_class(mp.mpf(1)) == "angle:generic"
    assert len(PERMS) == 24 and PERMS[0] == ([0, 1, 2], [1.0, 1.0, 1.0])
    assert apply_perm([1.0, 2.0, 3.0], 0) == [1.0, 2.0, 3.0]
    for k in range(24):  # proper rotations: triple product preserved
        e = [apply_perm(v, k) for v in ([1.0, 0.0, 0.0], [0.0, 1.0, 0.0], [0.0, 0.0, 1.0])]
        assert sum(_cross(e[0], e[1])[i] * e[2][i] for i in range(3)) == 1.0
    p = _partner([0.6, 0.0, 0.8], 1.0)
    assert abs(sum(x * y for x, y in zip(p, [0.6, 0.0, 0.8], strict=True))) < 1e-15
    assert _to_grid([1e-6, -3.25, 2.0**20 + 0.3]) == [1074.0 * GRID, -3.25, 2.0**20]
