"""C18 — cylinder absorption: path lengths, quadrature and transmission are geometric."""

import math

import mpmath as mp
import numpy as np
from hypothesis import strategies as st

from ..core import Facet, Violation, attributed, clear_package_caches
from ..gen import logfloat, quaternion, rotmat_from_quat, unit_vector
from ..ref import geom, units

PROPERTY = "C18"
RULE = (
    "Hypothesis draws a cylinder (axis classes: uniform on the upper / lower hemisphere, +z, -z, "
    "within 1e-13..1e-3 of +/-z, closer to -z than 3e-11, +/-x, +/-y, in the xy-plane, 1e-13..1e-3 "
    "above / below it, Pythagorean few-bit axes of either sign), radius and height log-uniform over "
    "1e-3..1e3 in m/mm/cm, base at the origin or up to 1e3 sizes away. path_length: 1-4 rays built "
    "in the cylinder's own frame (start: centre / on the axis / inside / mantle, cap or rim "
    "-+1e-14..1e-3 / near outside / far outside; direction: generic / aimed at an interior point / "
    "away / bit-identical to +-axis / 1e-14..1e-3 off the axis / perpendicular / exactly "
    "perpendicular / tangent to the mantle +-1e-15..1e-4 / aimed at the rim), passed as scalar, 1-d "
    "or outer-product arrays; the solid is also described from its other end and everything is moved "
    "by a random rotation + translation; oracle: ray/cylinder intersection in a Gram-Schmidt frame, "
    "50-digit mpmath on the stored inputs. quadrature: every deterministic kind; oracle: membership, "
    "positivity, analytic moments of all monomials up to degree 3 in the same frame. "
    "transmission_exact: number densities 0 < n1 < n2 (mu*size 1e-3..3), 1-3 wavelengths in 0.1..20 A, "
    "1-4 detectors 0.1..100 sizes away. transmission / transmission_negz: bundled or synthetic "
    "material with mu*size in 0.01..3, beam and 1-3 detectors in generic / forward / backward / axial / "
    "perpendicular directions 2..100 sizes away, compared with a 32x128x32 product-Gauss reference "
    "and with the same set-up moved rigidly or described from the other end. Known-finding regions "
    "are generated only by their own facets (path_near_parallel: rays a rounding error to 3e-3 rad "
    "off the axis without being bit-identical to it; path_subnormal_direction: n.a subnormal; "
    "*_negz: some described axis has a negative z-component) and are excluded from the other facets "
    "by construction (counted under the label 'excluded:...'). Non-trivial: path facets - some "
    "compared ray has positive exact length (path_near_parallel: such a ray inside the finding "
    "region); quadrature - every case (distinct cylinder x kind); transmission_exact - attenuation "
    "resolved (1 - T > 1e-6); transmission - mu*size >= 0.05; distinct = distinct descriptor hash."
)

TOLERANCES = {
    "assembly: |T / sum_i w_i exp(-mu (L_in + L_out)) / V - 1| with the rule's own points and weights and "
    "independent path lengths (measured worst over 19 200 cases: < 1e-12)": 1e-9,
    "path: |got - exact| / scale, scale = max(r, h, |base|_inf, |start|_inf)": 1e-9,
    "path: same, when |1 - (line-axis distance / r)^2| < 1e-10 (tangent)": 1e-4,
    "path: backward perturbation of start (x scale) and direction accepted": 1e-13,
    "path: worst error measured on well-conditioned rays / scale": 9.3e-15,
    "quadrature: points inside, slack / max(r, h)": 1e-9,
    "quadrature: |sum(w)/V - 1| (measured 8.5e-8: 8-digit tables)": 1e-6,
    "quadrature: degree-1 monomial means (measured 9e-10)": 1e-6,
    "quadrature: degree 2-3, cheap": "1e-9 + 2e-7 rad * aspect / 3 (+ representation noise of far-away points)",
    "quadrature: degree 2-3, medium/expensive (accuracy only; measured max 5.9e-3 at 7 nodes)": 3e-2,
    "transmission: T <= 1 + x and |T(n=0) - 1| <= x": 1e-6,
    "transmission: |T/T_ref - 1| <= c_kind * max(mu*size, 0.1), size = max(2r, h)":
        {"cheap": 0.13, "medium": 0.05, "expensive": 0.03},
    "transmission: measured worst |T/T_ref - 1| / max(mu*size, 0.1)":
        {"cheap": 0.0082, "medium": 0.0054, "expensive": 0.0013},
    "transmission: rigid motion / other end": "2 x accuracy tolerance",
}
ASSUMPTIONS = [
    "directions and axes are unit vectors up to rounding (the API takes a 'direction'; t-intervals "
    "are lengths only then); base, radius, height and start points share one length unit (mixed "
    "units raise UnitError in scipp arithmetic); detectors and wavelengths may use other units",
    "a reported length within 1e-9*scale of the exact length for SOME input within 1e-13*scale of "
    "the stored one is accepted (backward-error view): at jump discontinuities of the length (ray "
    "in a cap plane, parallel ray on the mantle) either side is correct",
    "'sum to its volume', 'T <= 1' and 'T = 1 without attenuation' are enforced to 1e-6 relative: "
    "the tabulated disk rules disk55 / disk256_cheb carry 8 digits (sum(w)/V - 1 = -3.3e-8 / "
    "+8.5e-8, hence T(n=0) = 1.0000000848 for 'expensive')",
    "'integrate low-degree polynomials exactly' is enforced as degree <= 1 for every kind and "
    "degree <= 3 for 'cheap' (DESIGN narrowing: medium/expensive use rescaled Chebyshev nodes); for "
    "'cheap' the rule may be tilted against the solid by up to 2e-7 rad: the implementation skips "
    "the rotation below 1e-10 rad and evaluates asin next to 1 for nearly horizontal axes (measured "
    "tilt up to 1.5e-8 rad for 0 < |a_z| < 1e-7)",
    "the 'mc' kind is random and excluded; materials whose bundled cross-sections carry variances "
    "(Cd, Gd, B, 3He, ...) are not generated: compute_transmission_map raises scipp's "
    "VariancesError for them (broadcast of a value with variances), which C18 does not speak about",
    "accuracy/invariance facets keep detectors >= 2 sizes from the centre and aspect h/r in "
    "0.3..10, the domain on which 'the accuracy of the quadrature' was calibrated; the exact "
    "facets use the full ranges",
    "components of unit vectors below 1e-140 are flushed to zero in every generator except "
    "path_subnormal_direction",
    "the chunked branch of _integrate_transmission_fraction (points x detectors > 2e7) is not "
    "exercised: one case needs > 3e5 detectors and several GB",
]

LEN_UNITS = ["m", "mm", "cm"]
KINDS = ["cheap", "medium", "expensive"]
TWO_PI = 2 * math.pi
EPS = 2.0**-52

# ----------------------------------------------------------------------------- small vector helpers


def _norm(v):
    return math.sqrt(v[0] * v[0] + v[1] * v[1] + v[2] * v[2])


TINY_COMPONENT = 1e-140


def _clean(v):
    """Components below 1e-140 become exact zeros, so that no product of two components of unit
    vectors is subnormal: a subnormal n.a is a finding of its own (facet path_subnormal_direction)
    and is kept out of every other generator."""
    return [0.0 if abs(c) < TINY_COMPONENT else float(c) for c in v]


def _normalised(v):
    n = _norm(v)
    return _clean([v[0] / n, v[1] / n, v[2] / n])


def _unit_vector():
    return unit_vector().map(_clean)


def _lin(*terms):
    """sum of alpha * vector, plain floats."""
    out = [0.0, 0.0, 0.0]
    for alpha, v in terms:
        for i in range(3):
            out[i] += alpha * float(v[i])
    return out


def _from_z_phi(z, phi):
    s = math.sqrt(max(0.0, 1 - z * z))
    return _normalised([s * math.cos(phi), s * math.sin(phi), z])


def in_defect_region(axis) -> bool:
    """Axes for which the known rotation defect of Cylinder.quadrature can show."""
    return axis[2] < 0


def is_sound_axis(axis) -> bool:
    """Non-negative z-component, or -z itself / numerically -z (the rule is symmetric under z -> -z,
    and no rotation is applied there)."""
    return axis[2] >= 0 or math.hypot(axis[0], axis[1]) < 5e-11


# ----------------------------------------------------------------------------- strategies: cylinder

_PHI = st.floats(0, TWO_PI, allow_nan=False)
_TINY = st.floats(-13, -3).map(lambda e: 10.0**e)
_PYTH = [[0.6, 0.0, 0.8], [0.0, 0.6, 0.8], [0.8, 0.6, 0.0], [-0.28, 0.96, 0.0], [0.36, 0.48, 0.8],
         [-0.6, 0.0, 0.8], [0.48, -0.64, 0.6]]


def _cls(name, s):
    return s.map(lambda v: {"v": [float(c) for c in v], "cls": name})


def axis_cases(region):
    """region: 'any' | 'sound' (no axis with negative z-component except -z itself / numerically
    -z) | 'negz' (negative z-component: known rotation defect)."""
    upper = _cls("generic_up", st.tuples(st.floats(1e-3, 1), _PHI).map(lambda t: _from_z_phi(*t)))
    lower = _cls("generic_negz", st.tuples(st.floats(-1, -1e-3), _PHI).map(lambda t: _from_z_phi(*t)))
    plus_z = _cls("+z", st.just([0.0, 0.0, 1.0]))
    minus_z = _cls("-z", st.just([0.0, 0.0, -1.0]))
    near_pz = _cls("near+z", st.tuples(_TINY, _PHI).map(
        lambda t: _normalised([t[0] * math.cos(t[1]), t[0] * math.sin(t[1]), 1.0])))
    near_mz = _cls("near-z", st.tuples(_TINY, _PHI).map(
        lambda t: _normalised([t[0] * math.cos(t[1]), t[0] * math.sin(t[1]), -1.0])))
    # closer to -z than the implementation can resolve: treated like -z (no rotation at all)
    at_mz = _cls("numerically-z", st.tuples(st.floats(-16, -10.5).map(lambda e: 10.0**e), _PHI).map(
        lambda t: _normalised([t[0] * math.cos(t[1]), t[0] * math.sin(t[1]), -1.0])))
    aligned = _cls("aligned_xy", st.sampled_from(
        [[1.0, 0.0, 0.0], [-1.0, 0.0, 0.0], [0.0, 1.0, 0.0], [0.0, -1.0, 0.0]]))
    inplane = _cls("inplane", _PHI.map(lambda p: _from_z_phi(0.0, p)))
    barely_up = _cls("barely_up", st.tuples(st.floats(-13, -3.001).map(lambda e: 10.0**e), _PHI).map(
        lambda t: _from_z_phi(t[0], t[1])))
    barely_dn = _cls("barely_negz", st.tuples(_TINY, _PHI).map(lambda t: _from_z_phi(-t[0], t[1])))
    pyth_up = _cls("pythagorean", st.sampled_from(_PYTH))
    pyth_dn = _cls("pythagorean_negz", st.sampled_from(
        [[0.6, 0.0, -0.8], [0.0, -0.6, -0.8], [0.36, 0.48, -0.8], [0.48, -0.64, -0.6]]))
    sound = [upper, upper, upper, plus_z, minus_z, near_pz, at_mz, aligned, inplane, barely_up, pyth_up]
    negz = [lower, lower, lower, near_mz, barely_dn, pyth_dn]
    if region == "sound":
        return st.one_of(*sound)
    if region == "negz":
        return st.one_of(*negz)
    return st.one_of(*sound, *negz)


@st.composite
def cylinder_cases(draw, region, aspect=None):
    ax = draw(axis_cases(region))
    unit = draw(st.sampled_from(LEN_UNITS))
    r = draw(logfloat(-3, 3))
    if aspect is None:
        h = draw(logfloat(-3, 3))
    else:
        h = min(max(r * 10.0 ** draw(st.floats(*aspect)), 1e-3), 1e3)
    size = max(r, h)
    far = draw(st.sampled_from([0, 0, 1, 1, 2]))
    if far == 0:
        base = [0.0, 0.0, 0.0]
    else:
        mag = size * (draw(logfloat(-3, 3)) if far == 2 else draw(st.floats(0.1, 10)))
        base = [mag * c for c in draw(_unit_vector())]
    return {"unit": unit, "axis": ax["v"], "axis_class": ax["cls"], "base": base, "r": r, "h": h}


@st.composite
def motion_cases(draw, size):
    q = draw(quaternion())
    shift_class = draw(st.sampled_from([0, 1, 1, 2]))
    if shift_class == 0:
        shift = [0.0, 0.0, 0.0]
    else:
        mag = size * (draw(st.floats(0.1, 10)) if shift_class == 1 else draw(logfloat(-3, 3)))
        shift = [mag * c for c in draw(_unit_vector())]
    return {"quat": [float(c) for c in q], "flip": False, "shift": shift}


def motion_matrix(move):
    R = rotmat_from_quat(move["quat"])
    R = np.where(np.abs(R) < TINY_COMPONENT, 0.0, R)
    if move.get("flip"):
        R = np.diag([1.0, -1.0, -1.0]) @ R   # half turn about x: changes the sign of every z-component
    return R


def moved_cylinder(cyl, move):
    R = motion_matrix(move)
    t = np.asarray(move["shift"], dtype=float)
    out = dict(cyl)
    out["axis"] = _normalised([float(c) for c in R @ np.asarray(cyl["axis"], dtype=float)])
    out["base"] = [float(c) for c in R @ np.asarray(cyl["base"], dtype=float) + t]
    return out


def other_end(cyl):
    out = dict(cyl)
    out["axis"] = [-c for c in cyl["axis"]]
    out["base"] = [cyl["base"][i] + cyl["h"] * cyl["axis"][i] for i in range(3)]
    return out


def build_cylinder(cyl):
    import scipp as sc
    from scippneutron.absorption import Cylinder

    u = cyl["unit"]
    if cyl.get("size_unit"):
        # radius and height as whole numbers of a finer unit in integer variables (seeded/C18-s3)
        k = FINER[u][cyl["size_unit"]]
        # (the height must share the unit of the base point: Cylinder.center adds the two)
        radius = sc.scalar(int(round(cyl["r"] * k)), unit=cyl["size_unit"], dtype="int64")
        height = sc.scalar(float(cyl["h"]), unit=u)
    else:
        radius, height = sc.scalar(float(cyl["r"]), unit=u), sc.scalar(float(cyl["h"]), unit=u)
    return Cylinder(sc.vector(cyl["axis"]), sc.vector(cyl["base"], unit=u), radius, height)


FINER = {"m": {"mm": 1000, "cm": 100, "um": 10**6}, "cm": {"mm": 10, "um": 10**4}, "mm": {"um": 1000}}


# ----------------------------------------------------------------------------- facet 1: path lengths

START_CLASSES = ["centre", "on_axis", "inside", "mantle", "cap", "rim", "near_out", "far_out"]
DIR_CLASSES = ["generic", "aim", "away", "axis+", "axis-", "near_axis", "perp", "e_perp", "tangent",
               "aim_rim"]


def _make_ray(cyl, sclass, dclass, u, delta, sgn):
    """Deterministic construction of one ray (lab frame) from uniform numbers u[0..9] in [0,1),
    a small offset ``delta`` (may be 0) and two signs."""
    e1, e2, a = (list(map(float, v)) for v in geom.basis_np(cyl["axis"]))
    a = [float(c) for c in cyl["axis"]]           # the stored axis, so that 'axis+' is bit-identical
    r, h, base = cyl["r"], cyl["h"], cyl["base"]
    size = max(r, h)
    s1, s2 = (1.0 if sgn[0] else -1.0), (1.0 if sgn[1] else -1.0)

    def local(rho, phi, zeta):
        return _lin((1.0, base), (rho * r * math.cos(phi), e1), (rho * r * math.sin(phi), e2), (zeta * h, a))

    phi = TWO_PI * u[0]
    if sclass == "centre":
        rho, zeta = 0.0, 0.5
    elif sclass == "on_axis":
        rho, zeta = 0.0, -1.0 + 3.0 * u[1]
    elif sclass == "inside":
        rho, zeta = math.sqrt(u[1]), u[2]
    elif sclass == "mantle":
        rho, zeta = 1.0 + s1 * delta, u[2]
    elif sclass == "cap":
        rho, zeta = math.sqrt(u[1]), (1.0 + s1 * delta if u[2] < 0.5 else -s1 * delta)
    elif sclass == "rim":
        rho, zeta = 1.0 + s1 * delta, (1.0 + s2 * delta if u[2] < 0.5 else -s2 * delta)
    elif sclass == "near_out":
        if u[1] < 0.5:
            rho, zeta = 1.0 + 2 * u[1] + 1e-3, -0.5 + 2 * u[2]
        else:
            rho, zeta = 1.5 * u[2], (1.0 + u[1] if s1 > 0 else -u[1])
    else:  # far_out
        dist = size * 10.0 ** (0.5 + 2.5 * u[1])
        dirv = _from_z_phi(2 * u[2] - 1, phi)
        start = _lin((1.0, local(0.0, 0.0, 0.5)), (dist, dirv))
        rho = None
    if rho is not None:
        start = local(rho, phi, zeta)
    # the start in the cylinder frame (recomputed from the lab-frame floats)
    p = [start[i] - base[i] for i in range(3)]
    px, py = sum(p[i] * e1[i] for i in range(3)), sum(p[i] * e2[i] for i in range(3))

    psi = TWO_PI * u[3]
    if dclass == "generic":
        d = _from_z_phi(2 * u[4] - 1, psi)
    elif dclass in ("aim", "away"):
        target = local(math.sqrt(u[4]) * 0.98, psi, 0.01 + 0.98 * u[5])
        d = [target[i] - start[i] for i in range(3)]
        if _norm(d) < 1e-6 * size:
            d = list(e1)
        d = _normalised(d)
        if dclass == "away":
            d = [-c for c in d]
    elif dclass == "axis+":
        d = list(a)
    elif dclass == "axis-":
        d = [-c for c in a]
    elif dclass == "near_axis":
        tilt = delta if delta > 0 else 1e-9
        d = _normalised(_lin((s2, a), (tilt * math.cos(psi), e1), (tilt * math.sin(psi), e2)))
    elif dclass == "perp":
        d = _normalised(_lin((math.cos(psi), e1), (math.sin(psi), e2)))
    elif dclass == "e_perp":
        d = [s2 * c for c in (e1 if u[4] < 0.5 else e2)]
    elif dclass == "tangent":
        rho_lab = math.hypot(px, py) / r
        beta = (u[5] - 0.5) * 0.9 * math.pi          # inclination to the plane normal to the axis
        if rho_lab > 1.0:
            # in the plane: unit vector from the start towards the axis, turned by alpha with
            # sin(alpha) = (1 + eps)/rho: the line passes the axis at distance r*(1 + eps)
            eps = s1 * delta * (0.1 if delta > 0 else 0.0)
            sa = min((1.0 + eps) / rho_lab, 1.0)
            alpha = math.asin(sa) * s2
            ux, uy = -px / (rho_lab * r), -py / (rho_lab * r)
            tx = ux * math.cos(alpha) - uy * math.sin(alpha)
            ty = ux * math.sin(alpha) + uy * math.cos(alpha)
        else:
            # start on/inside the mantle radius: perpendicular to the radius
            n = math.hypot(px, py)
            tx, ty = ((-py / n, px / n) if n > 0 else (1.0, 0.0))
            tx, ty = s2 * tx, s2 * ty
        d = _normalised(_lin((math.cos(beta) * tx, e1), (math.cos(beta) * ty, e2), (math.sin(beta), a)))
    else:  # aim_rim
        target = local(1.0, psi, 1.0 if u[4] < 0.5 else 0.0)
        d = [target[i] - start[i] for i in range(3)]
        d = _normalised(d) if _norm(d) > 1e-9 * size else list(e1)
    return {"start": [float(c) for c in start], "dir": _clean(d), "sc": sclass, "dc": dclass}


@st.composite
def ray_cases(draw, cyl):
    sclass = draw(st.sampled_from(START_CLASSES))
    dclass = draw(st.sampled_from(DIR_CLASSES))
    u = draw(st.lists(st.floats(0, 1, exclude_max=True), min_size=6, max_size=6))
    delta = draw(st.one_of(st.just(0.0), st.floats(-14, -3).map(lambda e: 10.0**e)))
    sgn = draw(st.tuples(st.booleans(), st.booleans()))
    return _make_ray(cyl, sclass, dclass, u, delta, sgn)


@st.composite
def path_cases(draw):
    cyl = draw(cylinder_cases("any"))
    layout = draw(st.sampled_from(["1d", "1d", "1d", "scalar", "outer"]))
    n = 1 if layout == "scalar" else draw(st.integers(1, 4))
    rays = [draw(ray_cases(cyl)) for _ in range(n)]
    move = draw(motion_cases(max(cyl["r"], cyl["h"])))
    return {"cyl": cyl, "layout": layout, "rays": rays, "move": move}


def _impl_lengths(cyl, starts, dirs, layout):
    """Call Cylinder.beam_intersection; returns an array [i_start, i_dir] ('outer') or [i] lengths."""
    import scipp as sc

    c = build_cylinder(cyl)
    u = cyl["unit"]
    if layout == "scalar":
        got = c.beam_intersection(sc.vector(starts[0], unit=u), sc.vector(dirs[0]))
        want_dims = ()
    elif layout == "1d":
        got = c.beam_intersection(sc.vectors(dims=["ray"], values=starts, unit=u),
                                  sc.vectors(dims=["ray"], values=dirs))
        want_dims = ("ray",)
    else:
        got = c.beam_intersection(sc.vectors(dims=["ray"], values=starts, unit=u),
                                  sc.vectors(dims=["d"], values=dirs))
        want_dims = ("ray", "d")
    if got.unit != sc.Unit(u):
        raise Violation("path-unit", f"beam_intersection returned unit {got.unit}, expected {u}")
    if set(got.dims) != set(want_dims):
        raise Violation("path-dims", f"beam_intersection returned dims {got.dims}, expected {want_dims}")
    if want_dims:
        got = got.transpose(list(want_dims))
    shape = {"scalar": (1,), "1d": (len(starts),), "outer": (len(starts), len(dirs))}[layout]
    return np.asarray(got.values, dtype=float).reshape(shape)


def _perturbed_range(cyl, start, d, eta_abs):
    """min/max exact length over inputs within eta of the stored ones (start moved along the cylinder
    frame directions, direction tilted): the set a backward-stable evaluation may have answered."""
    e1, e2, a = (list(map(float, v)) for v in geom.basis_np(cyl["axis"]))
    p = [start[i] - cyl["base"][i] for i in range(3)]
    px, py = sum(p[i] * e1[i] for i in range(3)), sum(p[i] * e2[i] for i in range(3))
    n = math.hypot(px, py)
    rad = _lin((px / n, e1), (py / n, e2)) if n > 0 else e1
    tan = _lin((-py / n, e1), (px / n, e2)) if n > 0 else e2
    vals = []
    eta_d = 1e-13
    for v in (rad, tan, a):
        for s in (1.0, -1.0):
            s2 = _lin((1.0, start), (s * eta_abs, v))
            vals.append(geom.ray_length_mp(cyl["base"], cyl["axis"], cyl["r"], cyl["h"], s2, d)["length"])
            d2 = _lin((1.0, d), (s * eta_d, v))
            vals.append(geom.ray_length_mp(cyl["base"], cyl["axis"], cyl["r"], cyl["h"], start, d2)["length"])
            vals.append(geom.ray_length_mp(cyl["base"], cyl["axis"], cyl["r"], cyl["h"], s2, d2)["length"])
    return float(min(vals)), float(max(vals))


# The regions of the findings C18.near_parallel_ray / C18.quadrature_rotation_negz were excluded from
# the main facets while the defects were open (so that the search continued behind them).  Both are
# fixed in /repo (0f05de2, 857587a); the regions are part of the main facets again.
EXCLUDE_FIXED_FINDING_REGIONS = False


def near_parallel_lossy(ref, cyl, start) -> bool:
    """Known-finding region C18.near_parallel_ray.  The implementation takes n x a (n: direction,
    a: axis) and combines it with the full vector b = base - start.  For a ray at angle t to the
    axis the computed n x a carries an absolute error ~eps, (1) which is all of it when
    t*r <~ eps*|b|, and (2) whose component along a multiplies b.a, which shifts the mantle
    crossings by ~eps*|b.a|/t^2.  Region = (1) or (2) exceeding a tenth of the tolerance; rays whose
    stored direction is exactly collinear with the axis take a separate, exact branch."""
    if ref["parallel"]:
        return False
    b = [cyl["base"][i] - start[i] for i in range(3)]
    a = cyl["axis"]
    dist = _norm(b)
    b_ax = abs(b[0] * a[0] + b[1] * a[1] + b[2] * a[2])
    scale = max(cyl["r"], cyl["h"], max(abs(c) for c in cyl["base"]), max(abs(c) for c in start))
    sin = float(ref["sin_axis"])
    return sin * cyl["r"] <= 64 * EPS * dist or sin * sin * 1e-10 * scale <= 16 * EPS * b_ax


def _judge_length(got, cyl, start, d, what, include_lossy):
    """Compare one reported length with the exact one; returns (labels, reference length, err/scale)."""
    ref = geom.ray_length_mp(cyl["base"], cyl["axis"], cyl["r"], cyl["h"], start, d)
    L = float(ref["length"])
    scale = max(cyl["r"], cyl["h"], max(abs(c) for c in cyl["base"]), max(abs(c) for c in start))
    labs = ["hit" if ref["hit"] else "miss", "start_inside" if ref["inside"] else "start_not_inside"]
    if ref["parallel"]:
        labs.append("exactly_parallel")
    if near_parallel_lossy(ref, cyl, start):
        if not include_lossy and EXCLUDE_FIXED_FINDING_REGIONS:
            return ["excluded:near-parallel(known finding region)"], None, 0.0
        labs.append("near-parallel-lossy")
    if not math.isfinite(got) or got < 0:
        raise Violation("path-length", f"{what}: reported length {got!r} is not a finite non-negative number",
                        {"reference": L})
    tol = 1e-9 * scale
    if ref["disc_rel"] is not None and abs(ref["disc_rel"]) < 1e-10:
        tol = 1e-4 * scale
        labs.append("tangent(|disc|<1e-10)")
    err = abs(got - L)
    if err <= tol:
        return labs, L, (err / scale if tol == 1e-9 * scale else 0.0)
    lo, hi = _perturbed_range(cyl, start, d, 1e-13 * scale)
    if lo - tol <= got <= hi + tol:
        labs.append("ill-conditioned(either side accepted)")
        return labs, L, 0.0
    raise Violation(
        "path-length",
        f"{what}: beam_intersection = {got!r}, exact length of the ray inside the solid = {L!r} "
        f"(|diff| = {err:.3e} > {tol:.3e}); axis {cyl['axis']}, base {cyl['base']}, r {cyl['r']}, "
        f"h {cyl['h']}, start {start}, direction {d}",
        {"reference": L, "got": got, "tol": tol, "disc_rel": None if ref["disc_rel"] is None else float(ref["disc_rel"]),
         "rho_rel": float(ref["rho_rel"]), "zeta_rel": float(ref["zeta_rel"]), "sin_axis": float(ref["sin_axis"]),
         "near_parallel_lossy": near_parallel_lossy(ref, cyl, start)},
    )


def _check_variant(cyl, starts, dirs, layout, what, stats, include_lossy):
    got = _impl_lengths(cyl, starts, dirs, layout)
    labels = []
    lengths = []
    if layout == "outer":
        pairs = [(i, j) for i in range(len(starts)) for j in range(len(dirs))]
    else:
        pairs = [(i, i) for i in range(len(starts))]
    for i, j in pairs:
        g = float(got[i, j]) if layout == "outer" else float(got[i])
        labs, L, rel = _judge_length(g, cyl, starts[i], dirs[j], f"{what} ray {i}/{j}", include_lossy)
        labels += labs
        if L is not None:
            lengths.append((g, L, "near-parallel-lossy" in labs))
        stats["worst"] = max(stats.get("worst", 0.0), rel)
    return labels, lengths


def check_path(case, stats=None, include_lossy=False):
    stats = {} if stats is None else stats
    cyl = case["cyl"]
    layout = case["layout"]
    rays = case["rays"]
    starts = [r["start"] for r in rays]
    dirs = [r["dir"] for r in rays]
    labels = ["axis:" + cyl["axis_class"], "layout:" + layout, "unit:" + cyl["unit"]]
    for r in rays:
        labels.append("start:" + r["sc"])
        labels.append("dir:" + r["dc"])
    labs, lengths = _check_variant(cyl, starts, dirs, layout, "as given", stats, include_lossy)
    labels += labs

    # the same solid described from its other end
    oe = other_end(cyl)
    labs, len_oe = _check_variant(oe, starts, dirs, layout, "described from the other end", stats, include_lossy)
    labels += [x for x in labs if x.startswith(("excluded", "ill-cond"))]

    # rigid motion of solid and rays together
    mv = case["move"]
    R = motion_matrix(mv)
    t = np.asarray(mv["shift"], dtype=float)
    mc = moved_cylinder(cyl, mv)
    m_starts = [[float(c) for c in R @ np.asarray(s) + t] for s in starts]
    m_dirs = [_normalised([float(c) for c in R @ np.asarray(d)]) for d in dirs]
    labs, len_mv = _check_variant(mc, m_starts, m_dirs, layout, "after a rigid motion", stats, include_lossy)
    labels += [x for x in labs if x.startswith(("excluded", "ill-cond"))]
    every = lengths + len_oe + len_mv
    if include_lossy:
        # non-trivial for the near-parallel facet: a lossy ray whose exact length is positive
        return labels, any(L > 0 and lossy for _, L, lossy in every)
    return labels, any(L > 0 for _, L, _ in lengths)


def check_path_near_parallel(case):
    return check_path(case, include_lossy=True)


def subnormal_cases(tier, seed):
    """Finite family: axis along a coordinate direction, ray perpendicular to it except for a
    subnormal component along the axis, starting inside the solid."""
    out = []
    for k in range(3):
        for sa in (1.0, -1.0):
            axis = [0.0, 0.0, 0.0]
            axis[k] = sa
            for j in range(3):
                if j == k:
                    continue
                for sd in (1.0, -1.0):
                    for tiny in (5e-324, 2.2250738585e-313, 1e-310, 1e-308):
                        for st_ in (1.0, -1.0):
                            for frac in (0.5, 0.25):
                                d = [0.0, 0.0, 0.0]
                                d[j] = sd
                                d[k] = st_ * tiny
                                base = [0.0, 0.0, 0.0]
                                start = [frac * 2.0 * c for c in axis]      # on the axis, h = 2
                                i = 3 - j - k
                                start[i] = 0.25 if frac == 0.25 else 0.0
                                out.append({
                                    "cyl": {"unit": "mm", "axis": axis, "axis_class": "aligned", "base": base,
                                            "r": 1.0, "h": 2.0},
                                    "layout": "scalar",
                                    "rays": [{"start": start, "dir": d, "sc": "inside", "dc": "subnormal"}],
                                    "move": {"quat": [1.0, 0.0, 0.0, 0.0], "flip": False, "shift": [0.0, 0.0, 0.0]},
                                })
    return out


@st.composite
def near_parallel_cases(draw):
    """Rays within 1e-17..3e-3 of the axis direction (and +-axis itself, which stops being
    bit-identical after the rigid motion), starting anywhere."""
    cyl = draw(cylinder_cases("any"))
    n = draw(st.integers(1, 3))
    rays = []
    for _ in range(n):
        sclass = draw(st.sampled_from(["centre", "on_axis", "inside", "inside", "near_out", "far_out"]))
        dclass = draw(st.sampled_from(["near_axis", "near_axis", "axis+", "axis-"]))
        u = draw(st.lists(st.floats(0, 1, exclude_max=True), min_size=6, max_size=6))
        delta = draw(st.floats(-17, -2.5).map(lambda e: 10.0**e))
        sgn = draw(st.tuples(st.booleans(), st.booleans()))
        rays.append(_make_ray(cyl, sclass, dclass, u, delta, sgn))
    move = draw(motion_cases(max(cyl["r"], cyl["h"])))
    return {"cyl": cyl, "layout": "1d", "rays": rays, "move": move}


# ----------------------------------------------------------------------------- facet 2: quadrature

TILT = 2e-7    # rad; placement accuracy granted to the rule (worst observed 1.5e-8, see ASSUMPTIONS)
MONOMIALS = [(i, j, k) for i in range(4) for j in range(4) for k in range(4) if 1 <= i + j + k <= 3]


@st.composite
def quadrature_cases(draw, region, kinds=KINDS):
    cyl = draw(cylinder_cases(region))
    if cyl["unit"] in FINER and draw(st.sampled_from([False, False, True])):
        fu = draw(st.sampled_from(sorted(FINER[cyl["unit"]])))
        k = FINER[cyl["unit"]][fu]
        r_i = max(1, round(cyl["r"] * k))
        if r_i < 2**31:
            cyl = dict(cyl, r=r_i / k, size_unit=fu)
    return {"cyl": cyl, "kind": draw(st.sampled_from(kinds))}


def check_quadrature(case, stats=None):
    import scipp as sc

    stats = {} if stats is None else stats
    cyl, kind = case["cyl"], case["kind"]
    r, h, u = cyl["r"], cyl["h"], cyl["unit"]
    labels = ["axis:" + cyl["axis_class"], "kind:" + kind, "unit:" + u,
              "aspect:1e%+d" % round(math.log10(h / r)), "sizes:" + ("int64 " + cyl["size_unit"] if cyl.get("size_unit") else "float")]
    c = build_cylinder(cyl)
    points, weights = c.quadrature(kind)
    if points.unit != sc.Unit(u):
        raise Violation("quad-unit", f"points in {points.unit}, expected {u}")
    if cyl.get("size_unit"):
        weights = weights.to(unit=sc.Unit(u) ** 3)      # a volume in mixed units (um^2 mm) is still a volume
    if weights.unit != sc.Unit(u) ** 3:
        raise Violation("quad-unit", f"weights in {weights.unit}, expected {u}^3")
    if points.dims != weights.dims or len(points.dims) != 1:
        raise Violation("quad-dims", f"points {points.dims} / weights {weights.dims}")
    p = np.asarray(points.values, dtype=float)
    w = np.asarray(weights.values, dtype=float)
    if p.shape != (len(w), 3) or len(w) == 0:
        raise Violation("quad-dims", f"points shape {p.shape}, weights shape {w.shape}")
    if not (np.all(np.isfinite(p)) and np.all(np.isfinite(w))):
        raise Violation("points-outside", "non-finite quadrature points or weights",
                        {"n_nonfinite_points": int(np.sum(~np.isfinite(p)))})
    V = float(geom.cylinder_volume(r, h))
    vol = c.volume
    if cyl.get("size_unit"):
        vol = vol.to(unit=sc.Unit(u) ** 3, dtype="float64")
    if vol.unit != sc.Unit(u) ** 3 or abs(vol.value / V - 1) > 1e-13:
        raise Violation("volume", f"volume {vol.value} {vol.unit}, expected {V} {u}^3")
    # membership, in the Gram-Schmidt frame
    x, y, z = geom.local_coordinates(p, cyl["base"], cyl["axis"], r, h)
    size = max(r, h)
    noise = 64 * EPS * max(size, max(abs(b) for b in cyl["base"]))      # representation of the points
    slack = 1e-9 * size + noise
    rad_excess = float(np.max(np.hypot(x, y) * r - r))
    ax_excess = float(np.max(np.abs(z) * (h / 2) - h / 2))
    stats["excess"] = max(rad_excess, ax_excess) / size
    if rad_excess > slack or ax_excess > slack:
        inside = (np.hypot(x, y) * r <= r + slack) & (np.abs(z) * (h / 2) <= h / 2 + slack)
        raise Violation(
            "points-outside",
            f"{int(np.sum(~inside))} of {len(w)} quadrature points lie outside the solid "
            f"(radial excess {rad_excess:.3e}, axial excess {ax_excess:.3e} {u}; slack {slack:.1e}) "
            f"for axis {cyl['axis']}, kind {kind}",
            {"fraction_inside": float(np.mean(inside))},
        )
    if not np.all(w > 0):
        raise Violation("weights", f"{int(np.sum(w <= 0))} weights are not positive (min {w.min()!r})")
    esum = abs(float(np.sum(w)) / V - 1)
    stats["sum"] = esum
    if esum > 1e-6:
        raise Violation("weights-sum", f"sum of weights / volume - 1 = {esum:.3e} (> 1e-6), kind {kind}")
    # monomials up to degree 3 in normalised cylinder coordinates
    rel_noise = noise / min(r, h / 2)
    aspect = max(h / (2 * r), 2 * r / h)      # a tilt t of the rule against the solid shows as ~ t * aspect / 3
    worst = {1: 0.0, 2: 0.0, 3: 0.0}
    for (i, j, k) in MONOMIALS:
        deg = i + j + k
        got = float(np.sum(w * x**i * y**j * z**k)) / V
        want = float(geom.unit_moment(i, j, k))
        err = abs(got - want)
        worst[deg] = max(worst[deg], err)
        if deg == 1:
            tol = 1e-6 + rel_noise
        elif kind == "cheap":
            tol = 1e-9 + 8 * rel_noise + TILT * aspect / 3
        else:
            tol = 3e-2
        if err > tol:
            raise Violation(
                "moment",
                f"mean of x^{i} y^{j} z^{k} over the rule = {got!r}, over the solid = {want!r} "
                f"(diff {err:.3e} > {tol:.1e}); kind {kind}, axis {cyl['axis']}",
                {"degree": deg},
            )
    stats["moments"] = worst
    return labels, True


# ----------------------------------------------------------------------------- transmission helpers

ISOTOPES = ["V", "H", "Al", "Ni", "Ti", "Fe", "Cu", "Pb", "C", "Si"]   # no variances in the table
AREA = {"barn": mp.mpf(10) ** -28, "mm**2": mp.mpf(10) ** -6, "cm**2": mp.mpf(10) ** -4,
        "angstrom**2": mp.mpf(10) ** -20}
DENSITY_LEN = {"1/angstrom**3": "angstrom", "1/nm**3": "nm", "1/mm**3": "mm", "1/cm**3": "cm", "1/m**3": "m"}
REF_WAVELENGTH_M = mp.mpf("1.7982e-10")    # documented reference wavelength for absorption, 1.7982 A


@st.composite
def material_cases(draw):
    if draw(st.booleans()):
        return {"kind": "isotope", "name": draw(st.sampled_from(ISOTOPES)),
                "dens_unit": draw(st.sampled_from(sorted(DENSITY_LEN)))}
    which = draw(st.sampled_from(["scatter", "absorb", "both", "both"]))
    ss = 0.0 if which == "absorb" else draw(logfloat(-2, 3))
    sa = 0.0 if which == "scatter" else draw(logfloat(-2, 5))
    return {"kind": "custom", "sigma_s": ss, "sigma_a": sa, "xs_unit": draw(st.sampled_from(sorted(AREA))),
            "dens_unit": draw(st.sampled_from(sorted(DENSITY_LEN)))}


def _cross_sections_si(mat):
    """(sigma_s, sigma_a at the reference wavelength) in m^2 as mpf, and the ScatteringParams."""
    import scipp as sc
    from scippneutron.atoms import ScatteringParams

    if mat["kind"] == "isotope":
        clear_package_caches()
        sp = ScatteringParams.for_isotope(mat["name"])
        for v in (sp.total_scattering_cross_section, sp.absorption_cross_section):
            if v.unit != sc.Unit("barn") or v.variances is not None:
                from ..core import HarnessError
                raise HarnessError(f"bundled cross-section of {mat['name']} is not a plain value in barn")
        return (mp.mpf(sp.total_scattering_cross_section.value) * AREA["barn"],
                mp.mpf(sp.absorption_cross_section.value) * AREA["barn"], sp)
    sp = ScatteringParams(
        "Fake",
        absorption_cross_section=sc.scalar(float(mat["sigma_a"]), unit=mat["xs_unit"]),
        total_scattering_cross_section=sc.scalar(float(mat["sigma_s"]), unit=mat["xs_unit"]),
    )
    return mp.mpf(mat["sigma_s"]) * AREA[mat["xs_unit"]], mp.mpf(mat["sigma_a"]) * AREA[mat["xs_unit"]], sp


def _size(cyl):
    return max(2 * cyl["r"], cyl["h"])


def _density_for(case, mu_size):
    """Number density (value in the case's density unit) giving mu*size = mu_size at the longest
    wavelength; mu = n (sigma_s + sigma_a lambda / 1.7982 A)."""
    cyl = case["cyl"]
    ss, sa, _ = _cross_sections_si(case["material"])
    lam = max(case["wavelengths"]) * units.LENGTH[case["wl_unit"]]
    sigma = ss + sa * lam / REF_WAVELENGTH_M
    size_m = mp.mpf(_size(cyl)) * units.LENGTH[cyl["unit"]]
    n_si = mp.mpf(mu_size) / (size_m * sigma)
    return float(n_si * units.LENGTH[DENSITY_LEN[case["material"]["dens_unit"]]] ** 3)


def _mus(case, density):
    """Attenuation coefficients per wavelength, in 1/(length unit of the cylinder), floats."""
    ss, sa, _ = _cross_sections_si(case["material"])
    n_si = mp.mpf(density) / units.LENGTH[DENSITY_LEN[case["material"]["dens_unit"]]] ** 3
    out = []
    for lam in case["wavelengths"]:
        lam_m = mp.mpf(lam) * units.LENGTH[case["wl_unit"]]
        mu_si = n_si * (ss + sa * lam_m / REF_WAVELENGTH_M)
        out.append(float(mu_si * units.LENGTH[case["cyl"]["unit"]]))
    return out


def _detectors_in(case, cyl_unit):
    """Detector positions (stored in det_unit) expressed in the cylinder's length unit, (D, 3)."""
    f = float(units.LENGTH[case["det_unit"]] / units.LENGTH[cyl_unit])
    return np.asarray(case["detectors"], dtype=float).reshape(-1, 3) * f


def _run_map(case, cyl, beam, detectors, density):
    """compute_transmission_map -> array [wavelength, detector(flattened)]; structural checks."""
    import scipp as sc
    from scippneutron.absorption import Material, compute_transmission_map

    _, _, sp = _cross_sections_si(case["material"])
    material = Material(sp, sc.scalar(float(density), unit=case["material"]["dens_unit"]))
    shape = case.get("det_shape") or [len(detectors)]
    dims = ["y", "x"][-len(shape):]
    det = sc.vectors(dims=dims, values=np.asarray(detectors, dtype=float).reshape([*shape, 3]),
                     unit=case["det_unit"])
    wav = sc.array(dims=["wavelength"], values=[float(v) for v in case["wavelengths"]], unit=case["wl_unit"])
    # every other call passes the arguments by position, in the documented order (seeded C18-s12 swapped
    # two parameters in the signature; keyword callers never notice)
    positional = len(detectors) % 2 == 0
    with attributed("compute_transmission_map(shape, material, beam_direction, wavelength, detector_position, kind)"
                    + (" called with positional arguments" if positional else "")):
        if positional:
            tm = compute_transmission_map(build_cylinder(cyl), material, sc.vector(beam), wav, det, case["kind"])
        else:
            tm = compute_transmission_map(
                build_cylinder(cyl), material, beam_direction=sc.vector(beam), wavelength=wav,
                detector_position=det, quadrature_kind=case["kind"],
            )
    if tm.data.unit != sc.units.one:
        raise Violation("T-unit", f"transmission has unit {tm.data.unit}")
    if set(tm.dims) != {"wavelength", *dims}:
        raise Violation("T-dims", f"transmission has dims {tm.dims}, expected wavelength x {dims}")
    for name, want in (("wavelength", wav), ("detector_position", det)):
        if name not in tm.coords or not sc.identical(tm.coords[name], want):
            raise Violation("T-coords", f"coordinate {name} of the map is not the input")
    T = np.asarray(tm.data.transpose(["wavelength", *dims]).values, dtype=float)
    T = T.reshape(len(case["wavelengths"]), -1)
    if not np.all(np.isfinite(T)):
        raise Violation("T-range", f"non-finite transmission {T.tolist()}")
    if np.any(T <= 0) or np.any(T > 1 + 1e-6):
        raise Violation("T-range", f"transmission outside (0, 1]: min {T.min()!r}, max {T.max()!r}",
                        {"T": T.tolist()})
    return T


@st.composite
def detector_cases(draw, cyl, beam, dmin, nmax=3):
    """Positions in det_unit; direction classes relative to beam and axis."""
    size = _size(cyl)
    centre = [cyl["base"][i] + cyl["axis"][i] * cyl["h"] / 2 for i in range(3)]
    det_unit = draw(st.sampled_from(LEN_UNITS))
    f = float(units.LENGTH[cyl["unit"]] / units.LENGTH[det_unit])
    n = draw(st.integers(1, nmax))
    out, classes = [], []
    for _ in range(n):
        cls = draw(st.sampled_from(["generic", "generic", "forward", "backward", "axial", "perp_beam"]))
        if cls == "generic":
            d = draw(_unit_vector())
        elif cls == "forward":
            d = list(beam)
        elif cls == "backward":
            d = [-c for c in beam]
        elif cls == "axial":
            s = 1.0 if draw(st.booleans()) else -1.0
            d = [s * c for c in cyl["axis"]]
        else:
            e1, e2, _ = geom.basis_np(beam)
            psi = draw(_PHI)
            d = _normalised(_lin((math.cos(psi), e1), (math.sin(psi), e2)))
        dist = size * 10.0 ** draw(st.floats(math.log10(dmin), 2))
        out.append([(centre[i] + dist * d[i]) * f for i in range(3)])
        classes.append(cls)
    return det_unit, out, classes


@st.composite
def beam_cases(draw, cyl):
    cls = draw(st.sampled_from(["generic", "generic", "axial", "perp_axis", "z"]))
    if cls == "generic":
        b = draw(_unit_vector())
    elif cls == "axial":
        s = 1.0 if draw(st.booleans()) else -1.0
        b = [s * c for c in cyl["axis"]]
    elif cls == "perp_axis":
        e1, e2, _ = geom.basis_np(cyl["axis"])
        psi = draw(_PHI)
        b = _normalised(_lin((math.cos(psi), e1), (math.sin(psi), e2)))
    else:
        b = [0.0, 0.0, 1.0]
    return cls, [float(c) for c in b]


def _wavelengths(draw, nmax):
    n = draw(st.integers(1, nmax))
    wl_unit = draw(st.sampled_from(["angstrom", "angstrom", "nm"]))
    vals = sorted({draw(st.floats(math.log10(0.1), math.log10(20)).map(lambda e: 10.0**e)) for _ in range(n)})
    f = 1.0 if wl_unit == "angstrom" else 0.1
    return wl_unit, [min(max(v, 0.1), 20.0) * f for v in vals]


# ----------------------------------------------------------------------------- facet 3a: exact laws


@st.composite
def exact_cases(draw):
    cyl = draw(cylinder_cases("any"))
    bcls, beam = draw(beam_cases(cyl))
    det_unit, dets, dcls = draw(detector_cases(cyl, beam, 0.1, nmax=4))
    wl_unit, wls = _wavelengths(draw, 3)
    det_shape = [len(dets)]
    if len(dets) == 4 and draw(st.booleans()):
        det_shape = [2, 2]
    mu1 = draw(st.one_of(st.floats(1e-3, 2.0), logfloat(-3, 0)))
    return {
        "cyl": cyl, "beam": beam, "beam_class": bcls, "det_unit": det_unit, "detectors": dets,
        "det_class": dcls, "det_shape": det_shape, "wl_unit": wl_unit, "wavelengths": wls,
        "material": draw(material_cases()), "kind": draw(st.sampled_from(KINDS)),
        "mu_size": [mu1, mu1 * draw(st.floats(1.05, 1.5))],
    }


def check_exact(case):
    cyl = case["cyl"]
    labels = ["axis:" + cyl["axis_class"], "kind:" + case["kind"], "material:" + case["material"]["kind"],
              "beam:" + case["beam_class"], "ndet:%d" % len(case["detectors"]),
              "nwav:%d" % len(case["wavelengths"]), "detdims:%d" % len(case["det_shape"])]
    labels += ["det:" + c for c in case["det_class"]]
    dets = case["detectors"]
    # without attenuation
    T0 = _run_map(case, cyl, case["beam"], dets, 0.0)
    e0 = float(np.max(np.abs(T0 - 1)))
    if e0 > 1e-6:
        raise Violation("T-no-attenuation", f"number density 0 gives T = {T0.ravel()[0]!r} (|T-1| = {e0:.3e} > 1e-6)")
    n1 = _density_for(case, case["mu_size"][0])
    n2 = _density_for(case, case["mu_size"][1])
    T1 = _run_map(case, cyl, case["beam"], dets, n1)
    T2 = _run_map(case, cyl, case["beam"], dets, n2)
    visible = T1 < 1 - 1e-6          # attenuation resolved: the decrease must then be strict
    ok = np.all(T1 <= T0 + 1e-12) and np.all(T2 <= T1 + 1e-12)
    ok = ok and np.all(T1[visible] < T0[visible]) and np.all(T2[visible] < T1[visible])
    if not ok:
        raise Violation(
            "T-monotone-density",
            f"transmission does not decrease with number density: n = 0, {n1!r}, {n2!r} give "
            f"{T0.ravel().tolist()}, {T1.ravel().tolist()}, {T2.ravel().tolist()}",
        )
    labels.append("attenuation:" + ("visible" if np.any(visible) else "below 1e-6"))
    # attenuation grows with wavelength iff there is absorption
    ss, sa, _ = _cross_sections_si(case["material"])
    for T in (T1, T2):
        for i in range(len(case["wavelengths"]) - 1):
            lo, hi = T[i], T[i + 1]
            bad = np.any(hi > lo + 1e-12) if sa > 0 else np.any(np.abs(hi - lo) > 1e-12)
            if bad:
                raise Violation(
                    "T-monotone-wavelength",
                    f"wavelengths {case['wavelengths'][i]} < {case['wavelengths'][i + 1]} "
                    f"(absorption {float(sa)!r} m^2): T = {lo.tolist()} then {hi.tolist()}",
                )
    if sa > 0 and len(case["wavelengths"]) > 1:
        labels.append("wavelength-dependent")
    return labels, bool(np.any(visible))


# ----------------------------------------------------------------------------- facet 3b: accuracy, invariance

C_KIND = {"cheap": 0.13, "medium": 0.05, "expensive": 0.03}
REF_NODES = (32, 128, 32)


# ----------------------------------------------------------------------------- facet 3b': assembly
# The map is the weighted sum over the rule's own points; with the package's points and weights (whose
# validity is the quadrature facet's business) and independently computed path lengths the sum is known
# to rounding, so the assembly (directions towards the detectors, both legs, attenuation per
# wavelength, normalisation by the volume) is checked at 1e-9 instead of at the accuracy of the rule.


def check_assembly(case):
    cyl = case["cyl"]
    kind = case["kind"]
    dens = _density_for(case, case["mu_size"])
    mus = _mus(case, dens)
    T = _run_map(case, cyl, case["beam"], case["detectors"], dens)          # [wavelength, detector]
    pts_v, w_v = build_cylinder(cyl).quadrature(kind)
    pts = np.asarray(pts_v.to(unit=cyl["unit"]).values, dtype=float)
    w = np.asarray(w_v.to(unit=cyl["unit"] + "**3", dtype="float64").values, dtype=float)
    vol = math.pi * cyl["r"] ** 2 * cyl["h"]
    beam = np.asarray(case["beam"], dtype=float)
    dets = _detectors_in(case, cyl["unit"])
    l_in = geom.ray_lengths_np(cyl["base"], cyl["axis"], cyl["r"], cyl["h"], pts, -beam)
    worst = 0.0
    for j, det in enumerate(dets):
        l_out = geom.ray_lengths_np(cyl["base"], cyl["axis"], cyl["r"], cyl["h"], pts, det[None, :] - pts)
        for k, mu in enumerate(mus):
            ref = float(np.sum(w * np.exp(-mu * (l_in + l_out)))) / vol
            err = abs(T[k, j] / ref - 1)
            worst = max(worst, err)
            if not err <= 1e-9:
                raise Violation(
                    "map-assembly",
                    f"map[wavelength {k}, detector {j}] = {T[k, j]!r}, but the rule's own points and weights with "
                    f"exact path lengths give {ref!r} (rel. deviation {err:.3e} > 1e-9); kind {kind}, mu*size "
                    f"{mu * _size(cyl):.3g}, axis {cyl['axis']}, beam {case['beam']}")
    labs = ["kind:" + kind, "axis:" + cyl["axis_class"], "beam:" + case["beam_class"], "unit:" + cyl["unit"],
            "det_unit:" + case["det_unit"],
            "err:" + ("<1e-12" if worst < 1e-12 else "<1e-10" if worst < 1e-10 else "<1e-9")]
    return labs, max(m * _size(cyl) for m in mus) >= 0.3


# ----------------------------------------------------------------------------- facet 3c: large maps
# compute_transmission_map switches to a per-detector loop when quadrature points x detectors
# exceeds 2e7 (to bound memory).  Metamorphic oracle: the map of many detectors equals the maps of
# the same detectors evaluated in pieces that each stay below the switch.

CHUNK_SWITCH = 20_000_000


def chunked_cases(tier, seed):
    """Seeded list of cases (a pure function of VERIF_SEED; each case costs ~10 s, so the quick tier
    takes two that must differ, which Hypothesis' all-minimal first example would not give)."""
    import random

    rng = random.Random(seed * 7919 + 18)
    out = []
    for k in range(2 if tier == "quick" else 48):
        acls = ["generic", "generic", "negz", "z", "-z", "x"][rng.randrange(6)]
        if acls in ("generic", "negz"):
            v = _normalised([rng.gauss(0, 1) for _ in range(3)])
            if acls == "negz":
                v[2] = -abs(v[2])
        else:
            v = {"z": [0.0, 0.0, 1.0], "-z": [0.0, 0.0, -1.0], "x": [1.0, 0.0, 0.0]}[acls]
        r = 10.0 ** rng.uniform(-3, 1.4)
        h = min(r * 10.0 ** rng.uniform(0.55, 1.5), 1e3)               # h/r >= 3.5: the longest z rule
        base = [0.0, 0.0, 0.0] if rng.random() < 0.4 else [c * h * rng.uniform(0.1, 10) for c in
                                                         _normalised([rng.gauss(0, 1) for _ in range(3)])]
        cyl = {"unit": rng.choice(LEN_UNITS), "axis": [float(c) for c in v], "axis_class": acls,
               "base": [float(c) for c in base], "r": r, "h": h}
        bcls = rng.choice(["generic", "generic", "axial", "z"])
        beam = (_normalised([rng.gauss(0, 1) for _ in range(3)]) if bcls == "generic"
                else [float(c) for c in v] if bcls == "axial" else [0.0, 0.0, 1.0])
        wl_unit = rng.choice(["angstrom", "nm"])
        wls = sorted({10.0 ** rng.uniform(-1, math.log10(20)) for _ in range(rng.randint(1, 2))})
        wls = [w * (1.0 if wl_unit == "angstrom" else 0.1) for w in wls]
        if rng.random() < 0.5:
            mat = {"kind": "isotope", "name": rng.choice(ISOTOPES), "dens_unit": rng.choice(sorted(DENSITY_LEN))}
        else:
            mat = {"kind": "custom", "sigma_s": 10.0 ** rng.uniform(-2, 3), "sigma_a": 10.0 ** rng.uniform(-2, 5),
                   "xs_unit": rng.choice(sorted(AREA)), "dens_unit": rng.choice(sorted(DENSITY_LEN))}
        out.append({
            "cyl": cyl, "beam": [float(c) for c in beam], "wl_unit": wl_unit, "wavelengths": wls,
            "det_unit": rng.choice(LEN_UNITS), "det_seed": rng.randrange(2**32),
            "extra": rng.choice([1, 1, 2, 7]),
            "layout": ["1d", "2d-rows-below-switch", "2d-rows-above-switch", "1d"][(k + seed) % 4],
            "material": mat, "kind": "expensive", "mu_size": rng.uniform(0.3, 3.0),
        })
    return out


def _hash_unit_vectors(seed, n):
    """n directions on the sphere from a counter hash (splitmix64), no RNG state."""
    i = np.arange(1, 3 * n + 1, dtype=np.uint64) + np.uint64((int(seed) * 0x9E3779B97F4A7C15) % 2**64)
    with np.errstate(over="ignore"):
        z = i * np.uint64(0x9E3779B97F4A7C15)
        z = (z ^ (z >> np.uint64(30))) * np.uint64(0xBF58476D1CE4E5B9)
        z = (z ^ (z >> np.uint64(27))) * np.uint64(0x94D049BB133111EB)
        z = z ^ (z >> np.uint64(31))
    u = (z >> np.uint64(11)).astype(np.float64) / 2.0**53
    u = u.reshape(n, 3)
    cz = 2 * u[:, 0] - 1
    phi = 2 * math.pi * u[:, 1]
    sz = np.sqrt(1 - cz * cz)
    dist = 10.0 ** (0.5 + 1.5 * u[:, 2])                     # 3..100 sizes away
    return np.stack([sz * np.cos(phi), sz * np.sin(phi), cz], axis=1) * dist[:, None]


def check_chunked(case):
    cyl = case["cyl"]
    npts = build_cylinder(cyl).quadrature(case["kind"])[0].sizes["quad"]
    per_row = CHUNK_SWITCH // npts + case["extra"]               # one row alone exceeds the switch
    if case["layout"] == "1d":
        shape = [per_row]
    elif case["layout"] == "2d-rows-below-switch":
        shape = [2, per_row // 2 + 1]                            # split once over y, rows vectorised
    else:
        shape = [2, per_row]                                     # split over y, then again over x
    n = int(np.prod(shape))
    size = _size(cyl)
    centre = np.asarray([cyl["base"][i] + cyl["axis"][i] * cyl["h"] / 2 for i in range(3)])
    f = float(units.LENGTH[cyl["unit"]] / units.LENGTH[case["det_unit"]])
    dets = (centre[None, :] + size * _hash_unit_vectors(case["det_seed"], n)) * f
    dens = _density_for(case, case["mu_size"])
    big = dict(case, det_shape=shape)
    T = _run_map(big, cyl, case["beam"], dets, dens)
    piece = max(CHUNK_SWITCH // npts - 1, 1)
    parts = []
    for a in range(0, n, piece):
        parts.append(_run_map(dict(case, det_shape=None), cyl, case["beam"], dets[a:a + piece], dens))
    ref = np.concatenate(parts, axis=1)
    err = float(np.max(np.abs(T / ref - 1)))
    if not err <= 1e-12:
        k = int(np.argmax(np.max(np.abs(T / ref - 1), axis=0)))
        raise Violation("chunked-map", f"map of {shape} detectors ({npts} quadrature points, above the 2e7 switch) "
                                       f"differs from the same detectors evaluated in pieces of {piece}: rel. "
                                       f"deviation {err:.3e} at detector {k}: {T[:, k].tolist()} vs {ref[:, k].tolist()}")
    return ["layout:" + case["layout"], f"npts:{npts}", f"detectors:{n}", "unit:" + cyl["unit"],
            "err:" + ("0" if err == 0 else "<1e-14" if err < 1e-14 else "<1e-12")], True


def exactly_collinear(u, v) -> bool:
    """Stored vectors exactly collinear (products of doubles are exact in 50-digit arithmetic)."""
    with mp.workdps(50):
        a, b = [mp.mpf(c) for c in u], [mp.mpf(c) for c in v]
        return (a[1] * b[2] - a[2] * b[1] == 0 and a[2] * b[0] - a[0] * b[2] == 0
                and a[0] * b[1] - a[1] * b[0] == 0)


def beam_lossy(beam, axis) -> bool:
    """Known-finding region C18.near_parallel_ray for the incoming beam: within 1e-6 rad of the axis
    direction without being exactly collinear with it (L_in is then reported as 0 for many points)."""
    c = np.cross(np.asarray(beam, dtype=float), np.asarray(axis, dtype=float))
    return float(np.sqrt(c @ c)) < 1e-6 and not exactly_collinear(beam, axis)


@st.composite
def transmission_cases(draw, region, beam_near_axis=False):
    cyl = draw(cylinder_cases(region, aspect=(-0.5, 1.0)))
    bcls, beam = draw(beam_cases(cyl))
    if beam_near_axis:
        sgn = 1.0 if draw(st.booleans()) else -1.0
        if draw(st.booleans()):
            bcls, beam = "axial", [sgn * c for c in cyl["axis"]]      # inexact only after the motion
        else:
            e1, e2, _ = geom.basis_np(cyl["axis"])
            # the failing band is tilt * r <~ eps * |base - point|
            reach = _norm(cyl["base"]) + max(cyl["r"], cyl["h"])
            tilt = EPS * reach / cyl["r"] * 10.0 ** draw(st.floats(-1.0, 0.5))
            psi = draw(_PHI)
            bcls = "near_axis"
            beam = _normalised(_lin((sgn, cyl["axis"]), (tilt * math.cos(psi), e1), (tilt * math.sin(psi), e2)))
    det_unit, dets, dcls = draw(detector_cases(cyl, beam, 2.0, nmax=3))
    wl_unit, wls = _wavelengths(draw, 2)
    move = draw(motion_cases(_size(cyl)))
    if region == "sound":
        # keep every axis that gets described out of the defect region, by construction
        if not is_sound_axis(moved_cylinder(cyl, move)["axis"]):
            move["flip"] = True
        do_other_end = is_sound_axis([-c for c in cyl["axis"]])
    else:
        do_other_end = True
    return {
        "cyl": cyl, "beam": beam, "beam_class": bcls, "det_unit": det_unit, "detectors": dets,
        "det_class": dcls, "wl_unit": wl_unit, "wavelengths": wls,
        "material": draw(material_cases()), "kind": draw(st.sampled_from(KINDS)),
        "mu_size": draw(st.one_of(st.floats(0.3, 3.0), st.floats(0.3, 3.0), logfloat(-2, 0))),
        "move": move, "other_end": do_other_end, "keep_beam_collinear": not beam_near_axis,
    }


def transmission_errors(case):
    """Runs the three descriptions and the reference; returns a dict of relative deviations."""
    cyl = case["cyl"]
    n = _density_for(case, case["mu_size"])
    mus = _mus(case, n)
    dets_u = _detectors_in(case, cyl["unit"])
    ref = geom.transmission_ref(cyl["base"], cyl["axis"], cyl["r"], cyl["h"], case["beam"], dets_u, mus,
                                n=REF_NODES).T            # [wavelength, detector]
    T = _run_map(case, cyl, case["beam"], case["detectors"], n)
    out = {"ref": ref, "T": T, "mu_size": [m * _size(cyl) for m in mus],
           "acc": np.abs(T / ref - 1)}
    mv = case["move"]
    R = motion_matrix(mv)
    f = float(units.LENGTH[cyl["unit"]] / units.LENGTH[case["det_unit"]])
    t_det = np.asarray(mv["shift"], dtype=float) * f
    mc = moved_cylinder(cyl, mv)
    m_beam = _normalised([float(c) for c in R @ np.asarray(case["beam"], dtype=float)])
    if case.get("keep_beam_collinear", True) and exactly_collinear(case["beam"], cyl["axis"]):
        # a beam along the axis stays bit-identical to +-axis in the moved description
        sgn = 1.0 if sum(case["beam"][i] * cyl["axis"][i] for i in range(3)) > 0 else -1.0
        m_beam = [sgn * c for c in mc["axis"]]
    out["moved_beam_lossy"] = beam_lossy(m_beam, mc["axis"])
    m_dets = [[float(c) for c in R @ np.asarray(d, dtype=float) + t_det] for d in case["detectors"]]
    Tm = _run_map(case, mc, m_beam, m_dets, n)
    out["Tm"] = Tm
    out["rigid"] = np.abs(Tm / T - 1)
    out["moved_axis"] = mc["axis"]
    if case["other_end"]:
        To = _run_map(case, other_end(cyl), case["beam"], case["detectors"], n)
        out["To"] = To
        out["other"] = np.abs(To / T - 1)
    return out


def check_transmission(case, include_lossy=False):
    cyl = case["cyl"]
    kind = case["kind"]
    lossy = beam_lossy(case["beam"], cyl["axis"])
    if lossy and not include_lossy and EXCLUDE_FIXED_FINDING_REGIONS:
        return ["excluded:beam-near-parallel(known finding region)"], False
    res = transmission_errors(case)
    lossy = lossy or res["moved_beam_lossy"]
    mu_size = np.asarray(res["mu_size"])[:, None]
    tol = C_KIND[kind] * np.maximum(mu_size, 0.1)
    labels = ["axis:" + cyl["axis_class"], "kind:" + kind, "material:" + case["material"]["kind"],
              "beam:" + case["beam_class"], "mu*size:%s" % ("<0.3" if mu_size.max() < 0.3 else
                                                            "<1" if mu_size.max() < 1 else "1..3"),
              "other_end:%s" % case["other_end"], "moved_axis_negz:%s" % in_defect_region(res["moved_axis"])]
    labels += ["det:" + c for c in case["det_class"]]

    def fail(kind_, what, dev, t):
        idx = np.unravel_index(int(np.argmax(dev / t)), dev.shape)
        raise Violation(
            kind_,
            f"{what}: relative deviation {float(dev[idx]):.3e} > {float(np.broadcast_to(t, dev.shape)[idx]):.3e} "
            f"(kind {kind}, mu*size {float(mu_size[idx[0], 0]):.3g}, axis {cyl['axis']}); "
            f"T = {res['T'].ravel().tolist()}, reference = {res['ref'].ravel().tolist()}",
            {"beam_lossy": bool(lossy),
             **{k: np.asarray(v).tolist() for k, v in res.items() if k in ("T", "Tm", "To", "ref", "mu_size")}},
        )

    if np.any(res["acc"] > tol):
        fail("T-accuracy", "transmission vs fine reference quadrature", res["acc"], tol)
    if np.any(res["rigid"] > 2 * tol):
        fail("T-rigid-motion", "transmission changed under a common rigid motion", res["rigid"], 2 * tol)
    if "other" in res and np.any(res["other"] > 2 * tol):
        fail("T-other-end", "transmission changed when the solid is described from its other end",
             res["other"], 2 * tol)
    if include_lossy:
        labels.append("beam_lossy:%s" % lossy)
        return labels, bool(lossy and mu_size.max() >= 0.05)
    return labels, bool(mu_size.max() >= 0.05)


def check_transmission_beam_near_axis(case):
    return check_transmission(case, include_lossy=True)


# Found by the thorough tier of the 'transmission' facet before beams one rounding error off the
# axis were excluded from it (Hypothesis reused the axis components for a 'generic' beam): the map of
# the rigidly moved set-up differs by 62 %.  Whether a given near-axis beam hits the defect depends
# on rounding, so the facet tries this descriptor first and then searches.
BEAM_NEAR_AXIS_EXAMPLE = {
    "cyl": {"unit": "cm", "axis": [0.9000536898219562, 3.712687592494685e-14, 0.43577902133751456],
            "axis_class": "generic_up", "base": [0.0, 0.0, -0.7416273636147238], "r": 1.0,
            "h": 1.8617467237642886},
    "beam": [0.9000536898219561, 3.712687592494684e-14, 0.4357790213375145], "beam_class": "near_axis",
    "det_unit": "m",
    "detectors": [[0.168703986628832, 1.5454690890183438, -0.33449468965699647],
                  [-0.7405816576463711, -3.054871462297688e-14, -0.36598371648890704],
                  [-1.459385067588809, -6.019908472549894e-14, -0.7140067845136016]],
    "det_class": ["perp_beam", "backward", "backward"], "wl_unit": "angstrom",
    "wavelengths": [0.2029258033029703, 6.248235234198435],
    "material": {"kind": "isotope", "name": "V", "dens_unit": "1/cm**3"}, "kind": "expensive",
    "mu_size": 1.7737482798758823,
    "move": {"quat": [1.052962185924036e-134, -1.192092896e-07, -0.5803983781604577, 0.14604028074881836],
             "flip": True, "shift": [0.0018001073796439122, 7.425375184989369e-17, 0.000871558042675029]},
    "other_end": False, "keep_beam_collinear": False,
}


def beam_near_axis_cases():
    return st.one_of(st.just(BEAM_NEAR_AXIS_EXAMPLE), transmission_cases("sound", beam_near_axis=True),
                     transmission_cases("sound", beam_near_axis=True))


# ----------------------------------------------------------------------------- known findings


def _axes_described(case):
    cyl = case["cyl"]
    axes = [cyl["axis"]]
    if "move" in case:
        axes.append(moved_cylinder(cyl, case["move"])["axis"])
    if case.get("other_end"):
        axes.append([-c for c in cyl["axis"]])
    return axes


def m_rotation_negz(case, v):
    """Cylinder.quadrature rotates by asin|z x a|: wrong whenever the axis has a negative z-component."""
    return any(in_defect_region(a) for a in _axes_described(case)) and v.kind in (
        "points-outside", "moment", "T-accuracy", "T-rigid-motion", "T-other-end")


def m_near_parallel(case, v):
    """beam_intersection returns 0 for rays a rounding error away from the axis direction."""
    d = v.details or {}
    if v.kind in ("T-accuracy", "T-rigid-motion", "T-other-end"):
        return bool(d.get("beam_lossy"))
    return v.kind == "path-length" and bool(d.get("near_parallel_lossy"))


def m_subnormal(case, v):
    """t0 = (b.a)/(n.a) overflows when n.a is subnormal; inf - inf = NaN then empties the interval."""
    comps = [c for r in case.get("rays", []) for c in r["dir"]] + list(case["cyl"]["axis"])
    return v.kind == "path-length" and any(0 < abs(c) < TINY_COMPONENT for c in comps)


MATCHERS = {
    "C18.subnormal_direction_component": m_subnormal,
    "C18.quadrature_rotation_negz": m_rotation_negz,
    "C18.near_parallel_ray": m_near_parallel,
}

FACETS = [
    Facet("path_length", check_path, strategy=lambda tier: path_cases(),
          quick=(4, 300), thorough=(16, 5000), min_nontrivial=0.3,
          doc="beam_intersection vs exact ray/cylinder intersection (Gram-Schmidt frame, mpmath); "
              "also described from the other end and after a rigid motion; scalar/1-d/outer arrays; "
              "rays a rounding error away from the axis direction are excluded (own facet)"),
    Facet("path_near_parallel", check_path_near_parallel, strategy=lambda tier: near_parallel_cases(),
          quick=(1, 300), thorough=(4, 3000), min_nontrivial=0.1,
          doc="same oracle for rays within 1e-17..3e-3 of the axis direction, not bit-identical to it"),
    Facet("path_subnormal_direction", check_path, enumerate=subnormal_cases,
          exhaustive_in=("quick", "thorough"), quick=(1, 0), thorough=(1, 0), min_nontrivial=0.5,
          doc="axis-aligned cylinder, ray perpendicular to the axis up to a subnormal component (384 cases)"),
    Facet("quadrature", check_quadrature, strategy=lambda tier: quadrature_cases("any"),
          quick=(2, 250), thorough=(16, 1500), min_nontrivial=0.5,
          doc="points inside the solid, weights > 0, sum = V, monomials to degree 1 (all kinds) / 3 "
              "(cheap) exact; axes with non-negative z-component, and -z"),
    Facet("quadrature_negz", check_quadrature, strategy=lambda tier: quadrature_cases("negz"),
          quick=(1, 150), thorough=(4, 1000), min_nontrivial=0.5,
          doc="same oracle, axes with negative z-component (isolates the rotation defect)"),
    Facet("transmission_exact", check_exact, strategy=lambda tier: exact_cases(),
          quick=(2, 90), thorough=(16, 400), shrink=False, min_nontrivial=0.5,
          doc="0 < T <= 1, T = 1 at zero density, strictly decreasing in density, monotone in wavelength"),
    Facet("transmission", check_transmission, strategy=lambda tier: transmission_cases("any"),
          quick=(3, 50), thorough=(16, 300), shrink=False, min_nontrivial=0.5,
          doc="agreement with the fine reference rule; invariance under rigid motion / other end; "
              "all axes involved have non-negative z-component (or are -z)"),
    Facet("transmission_beam_near_axis", check_transmission_beam_near_axis,
          strategy=lambda tier: beam_near_axis_cases(),
          quick=(1, 30), thorough=(4, 200), shrink=False, min_nontrivial=0.2,
          doc="same oracle, beam a few rounding errors off the axis (or along it, then rotated) without "
              "staying bit-identical to it (isolates the near-parallel path-length defect in the map)"),
    Facet("transmission_assembly", check_assembly, strategy=lambda tier: transmission_cases("any"),
          quick=(2, 60), thorough=(16, 400), shrink=False, min_nontrivial=0.3,
          doc="map == sum over the rule's own points and weights of exp(-mu (L_in + L_out)) / V with independently "
              "computed path lengths, at 1e-9: isolates the assembly from the accuracy of the rule"),
    Facet("transmission_large_map", check_chunked, enumerate=chunked_cases,
          quick=(2, 0), thorough=(16, 0), shrink=False, min_nontrivial=0.5,
          doc="quadrature points x detectors above the 2e7 switch to the per-detector loop (1-d and 2-d "
              "detector arrays) equals the same detectors evaluated in pieces below the switch"),
    Facet("transmission_negz", check_transmission, strategy=lambda tier: transmission_cases("negz"),
          quick=(1, 30), thorough=(8, 200), shrink=False, min_nontrivial=0.5,
          doc="same oracle where some axis has a negative z-component (isolates the rotation defect)"),
]


def selftest():
    units.selftest()
    geom.selftest()
    # attenuation formula on a hand-computed value: n = 0.07 / A^3 of V (5.1 b + 5.08 b * 2/1.7982)
    case = {"cyl": {"unit": "mm"}, "wl_unit": "angstrom", "wavelengths": [2.0],
            "material": {"kind": "custom", "sigma_s": 5.1, "sigma_a": 5.08, "xs_unit": "barn",
                         "dens_unit": "1/angstrom**3"}}
    mu = _mus(case, 0.07)[0]
    want = 0.07e30 * (5.1 + 5.08 * 2.0 / 1.7982) * 1e-28 * 1e-3      # per mm
    assert abs(mu / want - 1) < 1e-12, (mu, want)
