"""C05 — inelastic energy transfer conserves energy; NaN exactly for unphysical times."""

import math

import mpmath as mp
import numpy as np
from hypothesis import strategies as st

from ..core import Facet, Violation
from ..gen import logfloat
from ..ref import inelastic, kin, units

PROPERTY = "C05"
RULE = (
    "Hypothesis draws the geometry (direct: Ei given / indirect: Ef given), a dtype per operand "
    "(all float64, all float32, or independently mixed), a unit per operand (tof s/ms/us/ns; L1 "
    "and L2 independently m/mm/cm/km/um/nm/angstrom; energy meV/eV/ueV/J), Ei and Ef log-uniform "
    "over 1e-3..1e4 meV and L1, L2 over 0.1..1e3 m (boundary-biased: exact powers of ten, "
    "few-mantissa-bit values), and an operand layout (0-d, tof[tof], L2 and optionally the energy "
    "per spectrum, all operands along one dim, DataArray through convert() with optional bin-edge "
    "tof). Arrival times are t = L1/v(Ei) + L2/v(Ef) evaluated in 50 digits from the *stored* "
    "operands and rounded to the tof unit and dtype, plus unphysical times (fractions of t0, zero, "
    "negative) and arbitrary times t0*10^[-3,3] (exponent 0 = the rounded t0 itself). The boundary "
    "facet sections the representable times between -t0, 0, t0/2, t0(1 -/+ 1e-3), 2 t0, 1000 t0 "
    "128-fold until the largest time with a NaN result is isolated, then evaluates all 129 "
    "representable times around it. Oracle: the definition E = m_n v^2/2 leg by leg in mpmath "
    "(m_n from scipp.constants) on the stored operands. A value case is non-trivial when Ei != Ef "
    "for some compared element whose tolerance is at most 1 % of max(Ei, Ef) (the comparison "
    "really constrains the result; ill-conditioned and elastic elements are compared but not "
    "counted); a never_infinite case when some element was decided (NaN expected and found, or "
    "value compared); every boundary case is non-trivial (the switch was isolated between two "
    "adjacent representable times); distinct = distinct descriptor hash."
)

ULP_TOL = 8
WINDOW = 64
EPS = {"float64": 2.0**-52, "float32": 2.0**-23}
# relative accuracy class of the conversion kernels (the classes C01 states for the elastic kernels)
REL = {"float64": mp.mpf("1e-11"), "float32": mp.mpf("1e-5")}
# allowance on t0 for the unit conversion of m_n/2 done by scipp (a dependency, not the code under
# test): sc.to_unit is off by up to 1.2e-13 relative for some compound units (550 eps for
# meV*(s/cm)^2), i.e. 6.1e-14 on t0 = L*sqrt(c/E).  Only matters in double precision.
DEP_REL = 1e-12
TOLERANCES = {
    "value_abs": "rel * (E_fixed + E_other * (1 + 2 t/(t - t0))), rel = 1e-11 (float64) / 1e-5 (float32) "
                 "by the coarsest operand dtype; t, t0, E_other exact from the stored operands",
    "nan_boundary": "8 ulp of the precision class at t0 + 1e-12 * t0",
    "boundary_window_ulp": WINDOW,
    "measured_on_unchanged_tree": "worst |err|/tol over 66 000 value cases: 0.0061 (float64, i.e. 6.1e-14, "
                                  "dominated by scipp's to_unit of m_n/2) and 0.015 (float32, i.e. 1.5e-7); NaN switch "
                                  "over 29 000 cases: float32 within 1.7 ulp of the exact t0; float64 within 2.3 ulp "
                                  "where sc.to_unit(m_n/2) is accurate to 2 eps, up to 26 ulp (meV, angstrom, ns) and "
                                  "up to 546 ulp = 6.1e-14 relative (meV with s/cm; eV, ueV with s/m, ms/mm, ...) "
                                  "where it is not",
}
ASSUMPTIONS = [
    "mpmath at 50 digits is exact enough to serve as ground truth",
    "precision class of a call = coarsest floating dtype among its operands (DESIGN section 3)",
    "the NaN boundary of a floating-point kernel may sit up to 8 ulp (of the precision class) plus "
    "1e-12 relative (accuracy of scipp's own unit conversion of m_n/2, measured 1.2e-13 worst) from "
    "the exact t0; inside that band only 'not infinite' is demanded",
    "elements whose deduced other-leg energy lies outside 1e-3..1e4 meV (arbitrary times) are "
    "checked for NaN/inf behaviour only, not for their value",
    "dtype and dims of the result are not part of C05 (C07); only the element set is required to "
    "match the broadcast of the operands",
    "single-precision energy operands whose unit constant m_n/2 in unit(E)*(unit(t)/unit(L))^2 is "
    "below the float32 normal range are excluded from the main facets by construction and examined "
    "by the facet f32_small_constant on their own",
]

E_UNITS = ["meV", "eV", "ueV", "J"]
L_UNITS = ["m", "mm", "cm", "km", "um", "nm", "angstrom"]
T_UNITS = ["s", "ms", "us", "ns"]
OPS = ["tof", "L1", "L2", "E"]
E_LO_MEV, E_HI_MEV = mp.mpf("1e-3"), mp.mpf("1e4")
F32_MIN_NORMAL = mp.mpf(2) ** -126
ORDER = ("spectrum", "tof")


# ------------------------------------------------------------------ small helpers


def cls_of(dt: dict) -> str:
    return "float32" if any(v == "float32" for v in dt.values()) else "float64"


def fixed_length_name(mode: str) -> str:
    return "L1" if mode == "direct" else "L2"


def unit_constant(e_unit: str, t_unit: str, l_unit: str):
    """m_n/2 expressed in unit(E) * (unit(t)/unit(L))^2 (the number the kernels need)."""
    f = units.ENERGY[e_unit] * (units.TIME[t_unit] / units.LENGTH[l_unit]) ** 2
    return kin.consts()["m_n"] / 2 / f


# The float32 underflow of the unit constant (finding C05.f32_unit_constant_underflow) was fixed in
# /repo (0b0596f); the region is therefore no longer excluded from the main facets.
EXCLUDE_F32_UNDERFLOW = False


def in_f32_underflow_region(mode, dt, u) -> bool:
    """Energy operand single precision and m_n/2 in its units below the float32 normal range."""
    if dt["E"] != "float32":
        return False
    return unit_constant(u["E"], u["tof"], u[fixed_length_name(mode)]) < F32_MIN_NORMAL


def _stored(si_value, unit: str, dtype: str) -> float:
    v = float(mp.mpf(si_value) / units.ALL[unit])
    if dtype == "float32":
        v = float(np.float32(v))
    return v


def _ulp(x: float, cls: str) -> float:
    x = abs(x)
    return float(np.spacing(np.float32(x))) if cls == "float32" else float(np.spacing(np.float64(x)))


def band_of(t0_u: float, cls: str) -> float:
    """Half-width of the zone around the exact t0 in which the NaN switch may legitimately sit."""
    return ULP_TOL * _ulp(t0_u, cls) + DEP_REL * abs(t0_u)


def build_var(op, dtype):
    import scipp as sc

    if not op["dims"]:
        return sc.scalar(float(op["values"][0]), unit=op["unit"], dtype=dtype)
    return sc.array(dims=op["dims"], values=np.asarray(op["values"], dtype=dtype),
                    unit=op["unit"], dtype=dtype)


def build_all(case):
    return {n: build_var(case["ops"][n], case["dt"][n]) for n in OPS}


def call_kernel(mode, v):
    from scippneutron.conversion import tof as K

    if mode == "direct":
        return K.energy_transfer_direct_from_tof(tof=v["tof"], L1=v["L1"], L2=v["L2"],
                                                 incident_energy=v["E"])
    return K.energy_transfer_indirect_from_tof(tof=v["tof"], L1=v["L1"], L2=v["L2"],
                                               final_energy=v["E"])


def expected_sizes(ops, n_tof=None):
    sizes = {}
    for n in OPS:
        if ops[n]["dims"]:
            sizes[ops[n]["dims"][0]] = len(ops[n]["values"])
    if n_tof is not None:
        sizes["tof"] = n_tof
    dims = [d for d in ORDER if d in sizes]
    return dims, [sizes[d] for d in dims]


def result_array(got, dims, shape, e_unit, what):
    """float64 ndarray of the result laid out as ``dims``; checks unit and element set."""
    import scipp as sc

    if got.unit != sc.Unit(e_unit):
        raise Violation("unit", f"{what}: result unit {got.unit}, supplied energy in {e_unit}")
    if set(got.dims) != set(dims):
        raise Violation("shape", f"{what}: result dims {got.dims}, operands broadcast to {dims}")
    g = got.transpose(dims) if dims else got
    g = np.asarray(g.values, dtype=np.float64)
    if list(g.shape) != list(shape):
        raise Violation("shape", f"{what}: result shape {g.shape}, operands broadcast to {shape}")
    return g


def _elem(op, pos):
    if not op["dims"]:
        return op["values"][0]
    return op["values"][pos[op["dims"][0]]]


def margin_label(ratio: float) -> str:
    if ratio <= 0.001:
        return "margin:>=1000x"
    if ratio <= 0.01:
        return "margin:100-1000x"
    if ratio <= 0.1:
        return "margin:10-100x"
    return "margin:<10x"


def judge(case, g, dims, shape, what, phys_flags=None):
    """Compare every element of the result array ``g`` with the reference.

    Returns statistics; raises Violation.  ``phys_flags[j]`` marks tof elements that were built
    as the arrival time of an in-range neutron for spectrum 0.
    """
    mode, dt, ops = case["mode"], case["dt"], case["ops"]
    cls = cls_of(dt)
    rel = REL[cls]
    fE = units.ENERGY[ops["E"]["unit"]]
    ft = units.TIME[ops["tof"]["unit"]]
    meV = units.ENERGY["meV"]
    stats = {"compared": 0, "nan": 0, "band": 0, "range_skipped": 0, "worst": 0.0,
             "constraining": 0, "inelastic": 0}
    for idx in np.ndindex(*shape) if shape else [()]:
        pos = dict(zip(dims, idx, strict=True))
        t_u = float(_elem(ops["tof"], pos))
        t = mp.mpf(t_u) * ft
        L1 = units.si(_elem(ops["L1"], pos), ops["L1"]["unit"])
        L2 = units.si(_elem(ops["L2"], pos), ops["L2"]["unit"])
        Efix = units.si(_elem(ops["E"], pos), ops["E"]["unit"])
        dE, Eo, t0 = inelastic.energy_transfer(mode, t, L1, L2, Efix)
        t0_u = float(t0 / ft)
        band = band_of(t0_u, cls)
        gv = float(g[idx])
        where = f"{what}[{','.join(f'{d}={i}' for d, i in pos.items())}]"
        if math.isinf(gv):
            raise Violation("infinite", f"{where}: result {gv} for finite inputs (t={t_u!r}, "
                            f"t0={t0_u!r} {ops['tof']['unit']})", {"index": list(idx)})
        if mp.mpf(t_u) < mp.mpf(t0_u) - band:
            if not math.isnan(gv):
                raise Violation("nan-missing", f"{where}: t={t_u!r} is before t0={mp.nstr(t0 / ft, 20)} "
                                f"{ops['tof']['unit']} but the result is {gv!r}, not NaN",
                                {"index": list(idx)})
            stats["nan"] += 1
            continue
        if mp.mpf(t_u) <= mp.mpf(t0_u) + band:
            stats["band"] += 1
            continue
        if math.isnan(gv):
            raise Violation("nan-unexpected", f"{where}: t={t_u!r} is after t0={mp.nstr(t0 / ft, 20)} "
                            f"{ops['tof']['unit']} (by {mp.nstr((t - t0) / ft, 5)}) but the result is NaN",
                            {"index": list(idx)})
        is_phys = bool(phys_flags and phys_flags[pos.get("tof", 0)] and pos.get("spectrum", 0) == 0)
        if not is_phys and not (E_LO_MEV * meV <= Eo <= E_HI_MEV * meV):
            stats["range_skipped"] += 1
            continue
        tol = rel * (Efix + Eo * (1 + 2 * t / (t - t0)))
        err = abs(mp.mpf(gv) * fE - dE)
        ratio = float(err / tol)
        stats["worst"] = max(stats["worst"], ratio)
        if err > tol:
            raise Violation(
                "value",
                f"{where}: got {gv!r} {ops['E']['unit']}, reference {mp.nstr(dE / fE, 20)} "
                f"(E_fixed={mp.nstr(Efix / fE, 8)}, E_other={mp.nstr(Eo / fE, 8)}, t/dt={mp.nstr(t / (t - t0), 6)}), "
                f"|err|={mp.nstr(err / fE, 4)} > tol={mp.nstr(tol / fE, 4)}",
                {"index": list(idx), "err_over_tol": ratio},
            )
        stats["compared"] += 1
        if Eo != Efix:
            stats["inelastic"] += 1
            if tol <= mp.mpf("0.01") * max(Efix, Eo):
                stats["constraining"] += 1
    return stats


def labels_of(case, stats=None, extra=()):
    dt, ops = case["dt"], case["ops"]
    kinds = sorted(set(dt.values()))
    labs = [
        "mode:" + case["mode"],
        "class:" + cls_of(dt) + ("" if len(kinds) == 1 else "(mixed)"),
        "tof:" + ops["tof"]["unit"], "L1:" + ops["L1"]["unit"], "L2:" + ops["L2"]["unit"],
        "E:" + ops["E"]["unit"],
        *extra,
    ]
    if case.get("moved"):
        labs.append("excluded-from-f32-underflow-region(tof unit moved to us)")
    if stats is not None:
        if stats["compared"]:
            labs += ["value-compared", margin_label(stats["worst"])]
        if stats["nan"]:
            labs.append("has-nan-elements")
        if stats["band"]:
            labs.append("has-elements-in-boundary-band")
        if stats["range_skipped"]:
            labs.append("has-elements-outside-energy-range")
        if stats["compared"] and not stats["constraining"]:
            labs.append("only-ill-conditioned-or-elastic")
    return labs


# ------------------------------------------------------------------ strategies


# Strategy objects are built once: Hypothesis validates every new strategy object it meets, which
# dominated the run time when they were created inside the composites.
S_MODE = st.sampled_from(["direct", "indirect"])
S_DKIND = st.sampled_from(["f64", "f64", "f32", "f32", "mixed"])
S_DTYPE = st.sampled_from(["float64", "float32"])
S_TUNIT = st.sampled_from(T_UNITS)
S_LUNIT = st.sampled_from(L_UNITS)
S_EUNIT = st.sampled_from(E_UNITS)
S_ENERGY_MEV = logfloat(-3, 4)
S_LENGTH_M = logfloat(-1, 3)
S_NS = st.integers(1, 3)
S_NTOF = st.integers(1, 4)
S_L2_SPREAD = st.floats(0.5, 2.0, allow_nan=False)
S_E_SPREAD = st.floats(0.8, 1.25, allow_nan=False)
S_BELOW = st.floats(0.0, 0.999, allow_nan=False)
S_NEG = st.floats(1e-3, 10.0, allow_nan=False)
S_ANY_EXP = st.floats(-3.0, 3.0, allow_nan=False)
S_BOOL = st.booleans()
S_1IN20 = st.integers(0, 19)
TIME_KINDS = ["phys"] * 7 + ["elastic", "below", "below", "zero", "negative"]
ANY_KINDS = ["any"] * 6 + ["phys", "below", "zero", "negative"]
S_KINDS = {
    "value": st.sampled_from(TIME_KINDS),
    "any": st.sampled_from(ANY_KINDS),
    "underflow": st.sampled_from(["phys", "phys", "below"]),
}
S_LAYOUTS = {
    "all": st.sampled_from(["0d", "1d", "2d", "2dE"]),
    "2d": st.sampled_from(["2d", "2dE"]),
    "small": st.sampled_from(["0d", "1d"]),
}


def _setup(draw, mode=None):
    mode = mode or draw(S_MODE)
    kind = draw(S_DKIND)
    if kind == "mixed":
        dt = {n: draw(S_DTYPE) for n in OPS}
    else:
        dt = dict.fromkeys(OPS, "float64" if kind == "f64" else "float32")
    u = {"tof": draw(S_TUNIT), "L1": draw(S_LUNIT), "L2": draw(S_LUNIT), "E": draw(S_EUNIT)}
    moved = False
    if EXCLUDE_F32_UNDERFLOW and in_f32_underflow_region(mode, dt, u):
        u["tof"] = "us"
        moved = True
    return {"mode": mode, "dt": dt, "u": u, "moved": moved}


def _si_energy(mev: float):
    return mp.mpf(mev) * units.ENERGY["meV"]


def _geometry(draw, s, layout):
    """Stored operand descriptors for L1, L2, E of a setup ``s``."""
    dt, u = s["dt"], s["u"]
    two_d = layout in ("2d", "2dE")
    ns = draw(S_NS) if two_d else 1
    L1 = float(draw(S_LENGTH_M))
    L2_0 = float(draw(S_LENGTH_M))
    E_0 = float(draw(S_ENERGY_MEV))
    L2s, Es = [L2_0], [E_0]
    for _ in range(ns - 1):
        L2s.append(min(max(L2_0 * draw(S_L2_SPREAD), 0.1), 1e3))
        Es.append(min(max(E_0 * draw(S_E_SPREAD), 1e-3), 1e4))
    if layout != "2dE":
        Es = Es[:1]
    return {
        "L1": {"unit": u["L1"], "dims": [], "values": [_stored(L1, u["L1"], dt["L1"])]},
        "L2": {"unit": u["L2"], "dims": ["spectrum"] if two_d else [],
               "values": [_stored(x, u["L2"], dt["L2"]) for x in L2s]},
        "E": {"unit": u["E"], "dims": ["spectrum"] if layout == "2dE" else [],
              "values": [_stored(_si_energy(x), u["E"], dt["E"]) for x in Es]},
    }


def _spectrum0(s, ops):
    """Exact SI values of spectrum 0: (t0, L_other, E_fixed)."""
    L1 = units.si(ops["L1"]["values"][0], ops["L1"]["unit"])
    L2 = units.si(ops["L2"]["values"][0], ops["L2"]["unit"])
    E = units.si(ops["E"]["values"][0], ops["E"]["unit"])
    if s["mode"] == "direct":
        return inelastic.flight_time(L1, E), L2, E
    return inelastic.flight_time(L2, E), L1, E


def _arrival_times(draw, s, ops, n, kinds):
    """n stored tof values and their kinds, relative to spectrum 0 of ``ops``."""
    t0, L_other, E_fixed = _spectrum0(s, ops)
    tu, tdt = s["u"]["tof"], s["dt"]["tof"]
    vals, ks = [], []
    for _ in range(n):
        k = draw(S_KINDS[kinds])
        if k == "phys":
            t = t0 + inelastic.flight_time(L_other, _si_energy(draw(S_ENERGY_MEV)))
        elif k == "elastic":
            t = t0 + inelastic.flight_time(L_other, E_fixed)
        elif k == "below":
            t = t0 * mp.mpf(draw(S_BELOW))
        elif k == "zero":
            t = mp.mpf(0)
        elif k == "negative":
            t = -t0 * mp.mpf(draw(S_NEG))
        else:  # "any": arbitrary time around t0 (exponent 0 = the rounded t0 itself)
            t = t0 * mp.mpf(10) ** mp.mpf(draw(S_ANY_EXP))
        vals.append(_stored(t, tu, tdt))
        ks.append(k)
    return vals, ks


def _kernel_case(draw, layouts="all", kinds="value", s=None):
    s = s or _setup(draw)
    layout = draw(S_LAYOUTS[layouts])
    ops = _geometry(draw, s, layout)
    n = 1 if layout == "0d" else draw(S_NTOF)
    vals, ks = _arrival_times(draw, s, ops, n, kinds)
    ops["tof"] = {"unit": s["u"]["tof"], "dims": [] if layout == "0d" else ["tof"], "values": vals}
    return {"mode": s["mode"], "dt": s["dt"], "moved": s["moved"], "layout": layout,
            "ops": ops, "kinds": ks}


@st.composite
def kernel_cases(draw):
    return _kernel_case(draw)


# ------------------------------------------------------------------ facet 1a: kernels vs formula


def check_kernel(case):
    v = build_all(case)
    got = call_kernel(case["mode"], v)
    dims, shape = expected_sizes(case["ops"])
    g = result_array(got, dims, shape, case["ops"]["E"]["unit"], case["mode"] + " kernel")
    phys = [k in ("phys", "elastic") for k in case["kinds"]]
    stats = judge(case, g, dims, shape, case["mode"] + " kernel", phys)
    labs = labels_of(case, stats, ["layout:" + case["layout"], *("t:" + k for k in sorted(set(case["kinds"])))])
    return labs, stats["constraining"] > 0


# ------------------------------------------------------------------ facet 1b: convert()


@st.composite
def convert_cases(draw):
    case = _kernel_case(draw, layouts="2d")
    case["edges"] = draw(S_BOOL)
    if case["edges"] and len(case["ops"]["tof"]["values"]) < 2:
        case["edges"] = False
    case["extra_coord"] = draw(S_BOOL)
    return case


def check_convert(case):
    import scipp as sc
    import scippneutron as scn

    ops, dt = case["ops"], case["dt"]
    v = build_all(case)
    n_tof = len(ops["tof"]["values"])
    n = n_tof - (1 if case["edges"] else 0)
    ns = len(ops["L2"]["values"])
    data = sc.ones(dims=["spectrum", "tof"], shape=[ns, n], unit="counts")
    coords = {"tof": v["tof"], "L1": v["L1"], "L2": v["L2"],
              ("incident_energy" if case["mode"] == "direct" else "final_energy"): v["E"]}
    if case["extra_coord"]:
        coords["detector_number"] = sc.arange("spectrum", ns, unit=None)
    da = sc.DataArray(data, coords=coords)
    out = scn.convert(da, origin="tof", target="energy_transfer", scatter=True)
    if "energy_transfer" not in out.coords:
        raise Violation("missing-coord", "convert() returned no 'energy_transfer' coordinate")
    got = out.coords["energy_transfer"]
    if "energy_transfer" in got.dims:
        got = got.rename_dims({"energy_transfer": "tof"})
    dims, shape = expected_sizes(ops)
    what = f"convert({case['mode']})"
    g = result_array(got, dims, shape, ops["E"]["unit"], what)
    phys = [k in ("phys", "elastic") for k in case["kinds"]]
    stats = judge(case, g, dims, shape, what, phys)
    del dt
    labs = labels_of(case, stats, ["layout:" + case["layout"], "edges" if case["edges"] else "centres"])
    return labs, stats["constraining"] > 0


# ------------------------------------------------------------------ facet 2: energy conservation


@st.composite
def conservation_cases(draw):
    s = _setup(draw, mode="direct")
    dt, u = s["dt"], s["u"]
    u_Ef = draw(S_EUNIT)
    if EXCLUDE_F32_UNDERFLOW and in_f32_underflow_region("indirect", dt, {**u, "E": u_Ef}):
        # the same exclusion for the indirect call (its fixed leg is L2)
        u["tof"] = "us"
        s["moved"] = True
    n = draw(S_NS)
    along = ("0d" if draw(S_BOOL) else "tof") if n == 1 else "tof"
    pts = {"Ei": [], "Ef": [], "L1": [], "L2": [], "tof": []}
    for _ in range(n):
        Ei = float(draw(S_ENERGY_MEV))
        Ef = Ei if draw(S_1IN20) == 0 else float(draw(S_ENERGY_MEV))
        sEi = _stored(_si_energy(Ei), u["E"], dt["E"])
        sEf = _stored(_si_energy(Ef), u_Ef, dt["E"])
        sL1 = _stored(float(draw(S_LENGTH_M)), u["L1"], dt["L1"])
        sL2 = _stored(float(draw(S_LENGTH_M)), u["L2"], dt["L2"])
        t = inelastic.arrival_time(units.si(sL1, u["L1"]), units.si(sEi, u["E"]),
                                   units.si(sL2, u["L2"]), units.si(sEf, u_Ef))
        pts["Ei"].append(sEi)
        pts["Ef"].append(sEf)
        pts["L1"].append(sL1)
        pts["L2"].append(sL2)
        pts["tof"].append(_stored(t, u["tof"], dt["tof"]))
    dims = [] if along == "0d" else ["tof"]
    return {"dt": dt, "moved": s["moved"], "dims": dims,
            "u": {"tof": u["tof"], "L1": u["L1"], "L2": u["L2"], "Ei": u["E"], "Ef": u_Ef},
            "pts": pts}


def check_conservation(case):
    dt, u, pts, dims = case["dt"], case["u"], case["pts"], case["dims"]
    cls = cls_of(dt)
    eps = mp.mpf(EPS[cls])
    n = len(pts["tof"])
    shape = [n] if dims else []

    def op(name, unit):
        return {"unit": unit, "dims": dims, "values": pts[name]}

    results = {}
    for mode, ename in (("direct", "Ei"), ("indirect", "Ef")):
        sub = {"mode": mode, "dt": dt,
               "ops": {"tof": op("tof", u["tof"]), "L1": op("L1", u["L1"]), "L2": op("L2", u["L2"]),
                       "E": op(ename, u[ename])}}
        got = call_kernel(mode, build_all(sub))
        results[mode] = result_array(got, dims, shape, u[ename], mode + " kernel")
    ft = units.TIME[u["tof"]]
    compared = constraining = skipped = 0
    worst = 0.0
    for j in range(n):
        Ei, Ef = units.si(pts["Ei"][j], u["Ei"]), units.si(pts["Ef"][j], u["Ef"])
        L1, L2 = units.si(pts["L1"][j], u["L1"]), units.si(pts["L2"][j], u["L2"])
        t = inelastic.arrival_time(L1, Ei, L2, Ef)
        dE = Ei - Ef
        t_u = pts["tof"][j]
        gsi, tols = {}, {}
        ok = True
        for mode, Efix, Eo, t0, ename in (
            ("direct", Ei, Ef, inelastic.flight_time(L1, Ei), "Ei"),
            ("indirect", Ef, Ei, inelastic.flight_time(L2, Ef), "Ef"),
        ):
            gv = float(results[mode][j] if dims else results[mode])
            what = f"{mode} kernel[{j}]"
            if math.isinf(gv):
                raise Violation("infinite", f"{what}: result {gv} for finite inputs")
            x = eps * t / (t - t0)
            t0_u = float(t0 / ft)
            if x > mp.mpf("0.1") or mp.mpf(t_u) <= mp.mpf(t0_u) + band_of(t0_u, cls):
                # rounding the arrival time to the tof dtype moves the other leg's energy by
                # O(1): nothing left to conserve in this precision
                ok = False
                continue
            if math.isnan(gv):
                raise Violation("nan-unexpected", f"{what}: NaN for the arrival time of a neutron with "
                                f"Ei={pts['Ei'][j]!r} {u['Ei']}, Ef={pts['Ef'][j]!r} {u['Ef']} "
                                f"(t={t_u!r}, t0={t0_u!r} {u['tof']})")
            tol = REL[cls] * (Efix + Eo * (1 + 2 * t / (t - t0)))
            g = mp.mpf(gv) * units.ENERGY[u[ename]]
            err = abs(g - dE)
            worst = max(worst, float(err / tol))
            if err > tol:
                raise Violation(
                    "conservation",
                    f"{what}: got {gv!r} {u[ename]}, Ei-Ef = {mp.nstr(dE / units.ENERGY[u[ename]], 20)} "
                    f"(t/dt={mp.nstr(t / (t - t0), 6)}), |err|={mp.nstr(err / units.ENERGY[u[ename]], 4)} "
                    f"> tol={mp.nstr(tol / units.ENERGY[u[ename]], 4)}",
                    {"index": j, "err_over_tol": float(err / tol)})
            gsi[mode], tols[mode] = g, tol
        if not ok:
            skipped += 1
            continue
        diff = abs(gsi["direct"] - gsi["indirect"])
        if diff > tols["direct"] + tols["indirect"]:
            raise Violation("conservation", f"element {j}: direct gives {mp.nstr(gsi['direct'], 17)} J, "
                            f"indirect {mp.nstr(gsi['indirect'], 17)} J for the same neutron; difference "
                            f"{mp.nstr(diff, 4)} > {mp.nstr(tols['direct'] + tols['indirect'], 4)}")
        compared += 1
        if Ei != Ef and max(tols.values()) <= mp.mpf("0.01") * max(Ei, Ef):
            constraining += 1
    kinds = sorted(set(dt.values()))
    labs = ["class:" + cls + ("" if len(kinds) == 1 else "(mixed)"),
            "tof:" + u["tof"], "L1:" + u["L1"], "L2:" + u["L2"], "Ei:" + u["Ei"], "Ef:" + u["Ef"],
            "layout:" + ("0d" if not dims else "all-along-tof")]
    if case.get("moved"):
        labs.append("excluded-from-f32-underflow-region(tof unit moved to us)")
    if compared:
        labs += ["value-compared", margin_label(worst)]
    if skipped:
        labs.append("has-elements-rounded-into-boundary/ill-conditioned")
    if u["Ei"] != u["Ef"]:
        labs.append("energy-units-differ")
    return labs, constraining > 0


# ------------------------------------------------------------------ facet 3: NaN boundary


@st.composite
def boundary_cases(draw):
    s = _setup(draw)
    ops = _geometry(draw, s, "0d")
    return {"mode": s["mode"], "dt": s["dt"], "moved": s["moved"], "ops": ops, "tof_unit": s["u"]["tof"]}


def _fi(dtype):
    return (np.float32, np.int32) if dtype == "float32" else (np.float64, np.int64)


def to_ord(x: float, dtype: str) -> int:
    """Position of a positive float among the representable values of ``dtype`` (monotone)."""
    ft, it = _fi(dtype)
    return int(np.array([x], dtype=ft).view(it)[0])


def from_ords(ords, dtype: str):
    ft, it = _fi(dtype)
    return np.asarray(ords, dtype=it).view(ft).astype(np.float64)


def _ordinal_window(center: float, dtype: str, w: int):
    """Representable values of ``dtype`` from w below to w above round(center)."""
    c = to_ord(center, dtype)
    return from_ords([c + k for k in range(-w, w + 1)], dtype)


def _eval_times(case, times):
    """Kernel results (float64 ndarray) for a list of tof values, all other operands 0-d."""
    mode = case["mode"]
    sub = {"mode": mode, "dt": case["dt"],
           "ops": {**case["ops"], "tof": {"unit": case["tof_unit"], "dims": ["tof"],
                                          "values": [float(t) for t in times]}}}
    got = call_kernel(mode, build_all(sub))
    return result_array(got, ["tof"], [len(times)], case["ops"]["E"]["unit"], mode + " kernel")


def _check_pattern(case, times, g, t0, ulp):
    """No infinity; NaN results form a prefix of the ascending times.  Returns the NaN count."""
    mode, u = case["mode"], case["tof_unit"]
    inf = np.isinf(g)
    if inf.any():
        j = int(np.argmax(inf))
        raise Violation("infinite", f"{mode}: result {g[j]} at t={float(times[j])!r} {u}, "
                        f"{mp.nstr((mp.mpf(float(times[j])) - t0) / ulp, 6)} ulp from the exact t0={mp.nstr(t0, 20)}",
                        {"t": float(times[j])})
    nan = np.isnan(g)
    n_nan = int(nan.sum())
    if not nan[:n_nan].all():
        first_fin = int(np.argmin(nan))
        later_nan = first_fin + int(np.argmax(nan[first_fin:]))
        raise Violation("nan-not-monotone",
                        f"{mode}: finite result {g[first_fin]!r} at t={float(times[first_fin])!r} {u} but NaN at "
                        f"the later time t={float(times[later_nan])!r} (exact t0={mp.nstr(t0, 20)})")
    return n_nan


def exact_t0(case):
    mode, ops = case["mode"], case["ops"]
    name = fixed_length_name(mode)
    L = units.si(ops[name]["values"][0], ops[name]["unit"])
    E = units.si(ops["E"]["values"][0], ops["E"]["unit"])
    return inelastic.flight_time(L, E) / units.TIME[case["tof_unit"]]


def locate_boundary(case):
    """Find the largest representable tof with a NaN result by sectioning over the representable
    times, then examine every representable time within WINDOW of it.

    Returns (offset of the boundary from the exact t0 in ulp of the precision class, kernel calls).
    """
    mode, dt, u = case["mode"], case["dt"], case["tof_unit"]
    cls, tdt = cls_of(dt), dt["tof"]
    t0 = exact_t0(case)
    t0_u = float(t0)
    ulp = _ulp(t0_u, cls)
    # 1. coarse samples on both sides (far below, zero, negative, far above)
    far = np.asarray([-t0_u, 0.0, t0_u / 2, t0_u * (1 - 1e-3), t0_u * (1 + 1e-3), 2 * t0_u, 1e3 * t0_u])
    if tdt == "float32":
        far = far.astype(np.float32).astype(np.float64)
    g = _eval_times(case, far)
    n_nan = _check_pattern(case, far, g, t0, ulp)
    calls = 1
    if n_nan == 0 or n_nan == len(far):
        raise Violation("nan-boundary", f"{mode}: results are {'never' if n_nan == 0 else 'always'} NaN for "
                        f"t from {float(far[0])!r} to {float(far[-1])!r} {u}; exact t0={mp.nstr(t0, 20)}")
    if far[n_nan - 1] < 0:
        raise Violation("nan-missing", f"{mode}: t=0 is before t0={mp.nstr(t0, 20)} {u} but the result is "
                        f"{g[n_nan]!r}, not NaN")
    lo, hi = to_ord(max(far[n_nan - 1], 0.0), tdt), to_ord(far[n_nan], tdt)
    # 2. section [lo, hi] (lo NaN, hi not) into 128 parts until adjacent
    while hi - lo > 1:
        step = max((hi - lo) // 128, 1)
        ords = list(range(lo, hi, step))
        if ords[-1] != hi:
            ords.append(hi)
        times = from_ords(ords, tdt)
        g = _eval_times(case, times)
        calls += 1
        n_nan = _check_pattern(case, times, g, t0, ulp)
        if n_nan == 0 or n_nan == len(times):
            raise Violation("nan-not-monotone", f"{mode}: t={float(times[0 if n_nan == 0 else -1])!r} {u} changed "
                            f"between NaN and finite when evaluated again inside another array")
        lo, hi = ords[n_nan - 1], ords[n_nan]
    b = float(from_ords([lo], tdt)[0])
    # 3. every representable time next to the switch
    times = from_ords([lo + k for k in range(-WINDOW, WINDOW + 1) if lo + k >= 0], tdt)
    g = _eval_times(case, times)
    calls += 1
    n_nan = _check_pattern(case, times, g, t0, ulp)
    if n_nan == 0 or float(times[n_nan - 1]) != b:
        raise Violation("nan-not-monotone", f"{mode}: NaN/finite switch found at t={b!r} {u} by sectioning "
                        f"but at index {n_nan - 1} of the +-{WINDOW} representable neighbours")
    # 4. where is it?  ideal: b = largest representable time <= exact t0
    off = float((mp.mpf(b) - t0) / ulp)
    allowed = band_of(t0_u, cls)
    if abs(mp.mpf(b) - t0) > allowed:
        raise Violation(
            "nan-boundary",
            f"{mode}: the largest time with a NaN result is {b!r} {u}: {off:.4g} ulp "
            f"({mp.nstr((mp.mpf(b) - t0) / t0, 4)} relative) from the exact flight time of the fixed-energy leg "
            f"t0={mp.nstr(t0, 20)} {u}; allowed {allowed / ulp:.4g} ulp",
            {"boundary": b, "t0": t0_u, "ulp_off": off})
    return off, calls


def boundary_offset_label(off: float) -> str:
    a = abs(off)
    for lim in (1, 2, 4, 8, 64, 512):
        if a <= lim:
            return f"boundary:<={lim}ulp"
    return "boundary:>512ulp"


def check_boundary(case):
    off, calls = locate_boundary(case)
    sub = {**case, "ops": {**case["ops"], "tof": {"unit": case["tof_unit"], "dims": [], "values": [0.0]}}}
    labs = labels_of(sub, None, [boundary_offset_label(off),
                                 "boundary:" + ("below-or-at-t0" if off <= 0 else "above-t0"),
                                 f"kernel-calls:{calls}"])
    return labs, True


# ------------------------------------------------------------------ facet 4: never infinite


@st.composite
def noinf_cases(draw):
    return _kernel_case(draw, kinds="any")


def check_noinf(case):
    v = build_all(case)
    got = call_kernel(case["mode"], v)
    dims, shape = expected_sizes(case["ops"])
    what = case["mode"] + " kernel"
    g = result_array(got, dims, shape, case["ops"]["E"]["unit"], what)
    phys = [k == "phys" for k in case["kinds"]]
    stats = judge(case, g, dims, shape, what, phys)
    labs = labels_of(case, stats, ["layout:" + case["layout"]])
    n_el = int(np.prod(shape)) if shape else 1
    return labs, (stats["nan"] > 0 or stats["compared"] > 0) and n_el > 0


# ------------------------------------------------------------------ facet 5: float32 constant below range


def _underflow_combos():
    out = []
    for eu in E_UNITS:
        for lu in L_UNITS:
            for tu in T_UNITS:
                if unit_constant(eu, tu, lu) < F32_MIN_NORMAL:
                    out.append([eu, lu, tu])
    return out


_S_UNDERFLOW = {}
S_DTYPE_MOSTLY32 = st.sampled_from(["float32", "float32", "float64"])


@st.composite
def underflow_cases(draw):
    if not _S_UNDERFLOW:
        _S_UNDERFLOW["combos"] = st.sampled_from(_underflow_combos())
    eu, lu, tu = draw(_S_UNDERFLOW["combos"])
    mode = draw(S_MODE)
    dt = {n: draw(S_DTYPE_MOSTLY32) for n in OPS}
    dt["E"] = "float32"
    u = {"tof": tu, "L1": draw(S_LUNIT), "L2": draw(S_LUNIT), "E": eu}
    u[fixed_length_name(mode)] = lu
    s = {"mode": mode, "dt": dt, "u": u, "moved": False}
    return _kernel_case(draw, layouts="small", kinds="underflow", s=s)


def check_underflow(case):
    u = {n: case["ops"][n]["unit"] for n in OPS}
    if not in_f32_underflow_region(case["mode"], case["dt"], u):
        return ["not-in-region"], False
    labs, _ = check_kernel(case)
    c = unit_constant(u["E"], u["tof"], u[fixed_length_name(case["mode"])])
    labs.append("constant:" + ("below-f32-denormals" if c < mp.mpf(2) ** -150 else "f32-denormal"))
    return labs, True


def _match_f32_underflow(case, v):
    if "ops" not in case or "dt" not in case or "mode" not in case:
        return False
    if not all(n in case["ops"] for n in OPS):
        return False
    u = {n: case["ops"][n]["unit"] for n in OPS}
    return (in_f32_underflow_region(case["mode"], case["dt"], u)
            and v.kind in ("value", "nan-missing", "nan-unexpected", "infinite"))


MATCHERS = {"C05.f32_unit_constant_underflow": _match_f32_underflow}


FACETS = [
    Facet("kernel_vs_formula", check_kernel, strategy=lambda tier: kernel_cases(),
          quick=(4, 1000), thorough=(16, 10000), min_nontrivial=0.3,
          doc="direct and indirect kernels vs E = m v^2/2 leg by leg in mpmath on the stored operands; "
              "unit of the supplied energy; NaN before t0; conditioned tolerance"),
    Facet("convert_wiring", check_convert, strategy=lambda tier: convert_cases(),
          quick=(2, 600), thorough=(16, 3000), min_nontrivial=0.3,
          doc="scn.convert(tof -> energy_transfer) on a DataArray with incident_energy or final_energy"),
    Facet("energy_conservation", check_conservation, strategy=lambda tier: conservation_cases(),
          quick=(3, 800), thorough=(16, 8000), min_nontrivial=0.3,
          doc="same neutron through both geometries: each equals Ei-Ef, and they equal each other"),
    Facet("nan_boundary", check_boundary, strategy=lambda tier: boundary_cases(),
          quick=(4, 700), thorough=(16, 6000), min_nontrivial=0.5,
          doc="all representable times within 64 ulp of exact t0 plus far samples: NaN prefix, finite "
              "suffix, switch within 8 ulp of t0, no infinity next to it"),
    Facet("never_infinite", check_noinf, strategy=lambda tier: noinf_cases(),
          quick=(2, 800), thorough=(16, 6000), min_nontrivial=0.3,
          doc="arbitrary finite times t0*10^[-3,3], zero, negative: NaN iff before t0, never +-inf"),
    Facet("f32_small_constant", check_underflow, strategy=lambda tier: underflow_cases(),
          quick=(1, 300), thorough=(4, 2000), min_nontrivial=0.5,
          doc="float32 energy with m_n/2 in unit(E)(unit(t)/unit(L))^2 below the float32 normal range "
              "(J with angstrom/nm/um and s/ms): same oracle as kernel_vs_formula"),
]


def selftest():
    units.selftest()
    kin.selftest()
    inelastic.selftest()
    # J, angstrom, s: 8.37e-28 kg * 1e-20 = 8.37e-48; meV, m, us: 5.2e-6 * 1e12
    assert mp.almosteq(unit_constant("J", "s", "angstrom"), mp.mpf("8.3746e-48"), rel_eps=mp.mpf("1e-4"))
    assert mp.almosteq(unit_constant("meV", "us", "m"), mp.mpf("5.22704e6"), rel_eps=mp.mpf("1e-4"))
    assert in_f32_underflow_region("direct", dict.fromkeys(OPS, "float32"),
                                   {"tof": "s", "L1": "angstrom", "L2": "m", "E": "J"})
    assert not in_f32_underflow_region("indirect", dict.fromkeys(OPS, "float32"),
                                       {"tof": "s", "L1": "angstrom", "L2": "m", "E": "J"})
    assert not in_f32_underflow_region("direct", dict.fromkeys(OPS, "float64"),
                                       {"tof": "s", "L1": "angstrom", "L2": "m", "E": "J"})
    w = _ordinal_window(1.0, "float32", 2)
    assert list(w) == [1 - 2.0**-23, 1 - 2.0**-24, 1.0, 1 + 2.0**-23, 1 + 2.0**-22], w
    assert _ulp(1.0, "float64") == 2.0**-52 and _ulp(3.0, "float32") == 2.0**-22
