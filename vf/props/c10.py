"""C10 — disk-chopper open/close times are exactly the openings of the rotating disk."""

import math

import numpy as np
from hypothesis import strategies as st

from ..core import Facet, Violation, attributed
from ..gen import logfloat
from ..ref import disk

PROPERTY = "C10"
RULE = (
    "Hypothesis draws a pulse frequency 1..100 Hz (expressed in Hz, kHz or 1/min), a frequency ratio "
    "from {1/4, 1/3, 1/2, 1, 2, 3, 5, 8} with either sign, 1..6 slits obtained by cutting the circle "
    "into alternating slit/gap arcs (widths and gaps >= 1e-3 rad, optionally started anywhere so that a "
    "slit spans top-dead-centre with end > 2 pi), a permutation of the slit order, deg or rad per "
    "angle (slit edges optionally as whole degrees in an int64 array), beam position in [-2 pi, 2 pi], phase over +-3 turns and 1..6 pulses (half of the expansions at the reference orientation, where every opening inside the npulses pulse periods must be reported). Oracle: a "
    "rotating-disk simulator written from the module documentation. Each reported pair must be "
    "open < close, open inside, closed just outside, of duration width/|omega|, and the sorted "
    "reported openings must equal the simulator's openings inside the covered span (no duplicate, "
    "none missing). Rejection facets construct out-of-phase frequencies and overlapping slit sets "
    "(also overlapping only modulo 2 pi). Non-trivial: >= 2 slits, or a TDC-spanning slit, or "
    "|ratio| != 1, or npulses > 1; distinct = distinct descriptor hash."
)
TOLERANCES = {"time_abs_in_periods": 1e-9, "probe_eps_in_periods": 1e-7, "duration_rel": 1e-9}
ASSUMPTIONS = [
    "the disk kinematics theta(t) = beam_position + phase - omega t stated in the module docs",
    "frequency tolerance: |delta| in [1e-6, 1e-2] must be rejected, |delta| <= 1e-10 accepted; the "
    "band between is not tested ('about 1e-8')",
    "touching slits (zero-measure overlap) need not be refused; if they are accepted the reported intervals "
    "must still be maximal openings (facet touching_slits)",
]

RATIOS = [(1, 4), (1, 3), (1, 2), (1, 1), (2, 1), (3, 1), (5, 1), (8, 1)]
F_UNITS = {"Hz": 1.0, "kHz": 1e3, "1/min": 1 / 60}
A_UNITS = {"rad": 1.0, "deg": math.pi / 180}


@st.composite
def slit_sets(draw, min_slits=1, max_slits=6):
    n = draw(st.integers(min_slits, max_slits))
    w = draw(st.lists(st.one_of(st.floats(0.05, 1.0), st.floats(0.05, 1.0), st.floats(0.002, 0.05)),
                      min_size=2 * n, max_size=2 * n))
    tot = sum(w)
    seg = [x / tot * disk.TWO_PI for x in w]
    start = draw(st.one_of(st.just(0.0), st.floats(0.0, disk.TWO_PI - 1e-6)))
    slits = []
    pos = start
    for k in range(n):
        b = pos
        e = pos + seg[2 * k]
        pos = e + seg[2 * k + 1]
        if b >= disk.TWO_PI:
            b -= disk.TWO_PI
            e -= disk.TWO_PI
        slits.append([b, e])
    # guard against rounding making arcs touch
    if min(seg) < 1e-3:
        scale = 1.0
        del scale
    perm = draw(st.permutations(list(range(n))))
    return [slits[i] for i in perm]


@st.composite
def chopper_cases(draw, with_pulses=False):
    fp = draw(logfloat(0, 2))
    num, den = draw(st.sampled_from(RATIOS))
    sign = draw(st.sampled_from([1, -1]))
    case = {
        "fp": fp,
        "fp_unit": draw(st.sampled_from(sorted(F_UNITS))),
        "f_unit": draw(st.sampled_from(sorted(F_UNITS))),
        "num": num, "den": den, "sign": sign,
        "slits": draw(slit_sets()),
        "slit_unit": draw(st.sampled_from(sorted(A_UNITS))),
        "bp": draw(st.one_of(st.just(0.0), st.floats(-disk.TWO_PI, disk.TWO_PI))),
        "bp_unit": draw(st.sampled_from(sorted(A_UNITS))),
        "phase": draw(st.one_of(st.just(0.0), st.floats(-3 * disk.TWO_PI, 3 * disk.TWO_PI))),
        "phase_unit": draw(st.sampled_from(sorted(A_UNITS))),
        # slit edges given as whole degrees in an integer array (as in the package's own examples)
        "int_edges": draw(st.sampled_from([False, False, True])),
        # whole-number frequencies handed over as integer variables (sc.scalar(14, unit='Hz'))
        "int_freq": draw(st.sampled_from([False, False, True])),
        # beam position / phase as whole degrees in integer variables (seeded/C10-s3)
        "int_angles": draw(st.sampled_from([False, False, True])),
        # a slit spanning top-dead-centre written with a negative begin, (-20, 22) for (340, 382) deg
        # (seeded/C10-s6); the same arc of the disk
        "neg_notation": draw(st.sampled_from([False, False, False, True])),
    }
    if case["int_freq"]:
        case["fp"] = float(max(1, round(fp)))
    if with_pulses:
        case["npulses"] = draw(st.integers(1, 6))
        # half of the expansions with the disk at its reference orientation: there the docstring's "as many
        # full turns as needed to cover npulses" fixes which openings must be present (seeded/C10-s13)
        if draw(st.booleans()):
            case["bp"] = 0.0
            case["phase"] = 0.0
        # Chopper.from_disk_chopper adds 1/pulse_frequency to the offsets: keep one frequency unit
        case["f_unit"] = case["fp_unit"]
    return case


def _stored(value_si, factor):
    return value_si / factor


def build(case, slits=None):
    """Returns (DiskChopper kwargs as scipp objects, oracle parameters from the stored values)."""
    import scipp as sc

    f_si = case["sign"] * case["fp"] * case["num"] / case["den"]
    if "f_override" in case:
        f_si = case["f_override"]
    f_st = _stored(f_si, F_UNITS[case["f_unit"]])
    fp_st = _stored(case["fp"], F_UNITS[case["fp_unit"]])
    au = A_UNITS[case["slit_unit"]]
    slits = case["slits"] if slits is None else slits
    if case.get("neg_notation"):
        slits = [[b - disk.TWO_PI, e - disk.TWO_PI] if e > disk.TWO_PI else [b, e] for b, e in slits]
    b_st = [_stored(b, au) for b, _ in slits]
    e_st = [_stored(e, au) for _, e in slits]
    edge_dtype = "float64"
    if case.get("int_edges") and case["slit_unit"] == "deg":
        bi, ei = [round(b) for b in b_st], [round(e) for e in e_st]
        arcs = sorted(zip(bi, ei, strict=True))
        ok = all(e - b >= 1 for b, e in arcs) and all(arcs[k + 1][0] - arcs[k][1] >= 1 for k in range(len(arcs) - 1)) \
            and (arcs[0][0] + 360 - arcs[-1][1] >= 1)
        if ok:
            b_st, e_st, edge_dtype = bi, ei, "int64"
    bp_st = _stored(case["bp"], A_UNITS[case["bp_unit"]])
    ph_st = _stored(case["phase"], A_UNITS[case["phase_unit"]])
    bp_dtype = ph_dtype = "float64"
    if case.get("int_angles"):
        if case["bp_unit"] == "deg":
            bp_st, bp_dtype = float(round(bp_st)), "int64"
        if case["phase_unit"] == "deg":
            ph_st, ph_dtype = float(round(ph_st)), "int64"
    def freq_var(value, unit):
        if case.get("int_freq") and float(value).is_integer() and abs(value) < 2**53:
            return sc.scalar(int(value), unit=unit, dtype="int64")
        return sc.scalar(value, unit=unit)

    if case.get("int_freq"):
        # stored values that are whole numbers up to rounding are made exactly whole
        f_st = float(round(f_st)) if abs(f_st - round(f_st)) < 1e-9 * max(1.0, abs(f_st)) else f_st
        fp_st = float(round(fp_st)) if abs(fp_st - round(fp_st)) < 1e-9 * max(1.0, abs(fp_st)) else fp_st
    kwargs = {
        "axle_position": sc.vector([0.0, 0.0, 5.0], unit="m"),
        "frequency": freq_var(f_st, case["f_unit"]),
        "beam_position": sc.scalar(int(bp_st) if bp_dtype == "int64" else bp_st, unit=case["bp_unit"], dtype=bp_dtype),
        "phase": sc.scalar(int(ph_st) if ph_dtype == "int64" else ph_st, unit=case["phase_unit"], dtype=ph_dtype),
        "slit_begin": sc.array(dims=["slit"], values=b_st, unit=case["slit_unit"], dtype=edge_dtype),
        "slit_end": sc.array(dims=["slit"], values=e_st, unit=case["slit_unit"], dtype=edge_dtype),
    }
    pulse = freq_var(fp_st, case["fp_unit"])
    ref = {
        "omega": disk.TWO_PI * f_st * F_UNITS[case["f_unit"]],
        "bp": bp_st * A_UNITS[case["bp_unit"]],
        "phase": ph_st * A_UNITS[case["phase_unit"]],
        "slits": [(b * au, e * au) for b, e in zip(b_st, e_st, strict=True)],
        "fp": fp_st * F_UNITS[case["fp_unit"]],
        "edge_dtype": edge_dtype,
    }
    return kwargs, pulse, ref


def labels_of(case):
    labs = [
        f"ratio:{case['num']}/{case['den']}", "sense:" + ("anticlockwise" if case["sign"] > 0 else "clockwise"),
        f"nslits:{len(case['slits'])}", "slit_unit:" + case["slit_unit"],
        "f_unit:" + case["f_unit"], "fp_unit:" + case["fp_unit"],
    ]
    tdc = any(e > disk.TWO_PI for _, e in case["slits"])
    if tdc:
        labs.append("tdc-spanning-slit" + ("/negative-begin" if case.get("neg_notation") else ""))
    if "npulses" in case:
        labs.append(f"npulses:{case['npulses']}")
    nt = (len(case["slits"]) >= 2 or tdc or (case["num"], case["den"]) != (1, 1)
          or case.get("npulses", 1) > 1)
    return labs, nt


def verify_openings(opens, closes, ref, what):
    omega, bp, phase, slits = ref["omega"], ref["bp"], ref["phase"], ref["slits"]
    period = disk.TWO_PI / abs(omega)
    eps = 1e-7 * period
    tol = 1e-9 * period
    opens = np.asarray(opens, dtype=float)
    closes = np.asarray(closes, dtype=float)
    if opens.shape != closes.shape or opens.ndim != 1:
        raise Violation("shape", f"{what}: open {opens.shape} vs close {closes.shape}")
    if len(opens) == 0:
        raise Violation("empty", f"{what}: no openings reported")
    for o, c in zip(opens, closes, strict=True):
        if not o < c:
            raise Violation("order", f"{what}: open {o!r} >= close {c!r}")
        mid_slit = disk.open_slit(0.5 * (o + c), omega, bp, phase, slits)
        for frac in (0.001, 0.25, 0.5, 0.75, 0.999):
            t = o + (c - o) * frac
            if disk.open_slit(t, omega, bp, phase, slits) is None:
                raise Violation("closed-inside", f"{what}: disk is closed at t={t!r} inside reported [{o!r}, {c!r}]")
        if disk.open_slit(o - eps, omega, bp, phase, slits) is not None:
            raise Violation("open-before", f"{what}: disk already open just before reported open {o!r}")
        if disk.open_slit(c + eps, omega, bp, phase, slits) is not None:
            raise Violation("open-after", f"{what}: disk still open just after reported close {c!r}")
        width = slits[mid_slit][1] - slits[mid_slit][0]
        dur = width / abs(omega)
        if abs((c - o) - dur) > 1e-9 * dur + 1e-12 * period:
            raise Violation("duration", f"{what}: duration {c - o!r}, slit width/|omega| = {dur!r}")
    lo, hi = float(opens.min()), float(closes.max())
    true = disk.true_openings(omega, bp, phase, slits, lo, hi, eps)
    got = sorted(zip(opens.tolist(), closes.tolist(), strict=True))
    if len(got) != len(true):
        # find a duplicate or a missing one for the message
        raise Violation(
            "count", f"{what}: {len(got)} openings reported in [{lo!r}, {hi!r}], the disk has {len(true)} there "
            f"(span = {(hi - lo) / period:.3f} rotations)",
            {"reported_open": [g[0] for g in got], "true_open": [t[0] for t in true]},
        )
    for (o, c), (to, tc, _) in zip(got, true, strict=True):
        if abs(o - to) > tol or abs(c - tc) > tol:
            raise Violation("mismatch", f"{what}: reported [{o!r}, {c!r}] vs disk [{to!r}, {tc!r}]")
    return (hi - lo) / period


def check_openings(case):
    from scippneutron.chopper import DiskChopper

    labs, nt = labels_of(case)
    kwargs, pulse, ref = build(case)
    labs.append("edges:" + ref["edge_dtype"])
    labs.append(f"freq:{kwargs['frequency'].dtype}/pulse:{pulse.dtype}")
    labs.append(f"bp:{kwargs['beam_position'].dtype}/phase:{kwargs['phase'].dtype}")
    ch = DiskChopper(**kwargs)
    to = ch.time_offset_open(pulse_frequency=pulse)
    tc = ch.time_offset_close(pulse_frequency=pulse)
    du = ch.open_duration(pulse_frequency=pulse)
    with attributed("time_offset_open / time_offset_close / open_duration must be times (convertible to s)"):
        o = to.to(unit="s", dtype="float64").values
        c = tc.to(unit="s", dtype="float64").values
        d = du.to(unit="s", dtype="float64").values
    verify_openings(o, c, ref, "DiskChopper")
    period = disk.TWO_PI / abs(ref["omega"])
    if d.shape != o.shape or np.max(np.abs(d - (c - o))) > 1e-12 * period:
        raise Violation("open_duration", "open_duration differs from close - open")
    n_rep = max(round(case["num"] / case["den"]), 1) + 1
    if len(o) != n_rep * len(case["slits"]):
        labs.append("count-differs-from-(n+1)*slits")
    return labs, nt


def check_expansion(case):
    from scippneutron.chopper import DiskChopper
    from scippneutron.tof.chopper_cascade import Chopper

    labs, nt = labels_of(case)
    kwargs, pulse, ref = build(case)
    ch = DiskChopper(**kwargs)
    cc = Chopper.from_disk_chopper(ch, pulse_frequency=pulse, npulses=case["npulses"])
    with attributed("Chopper.time_open / time_close must be times (convertible to s)"):
        o = cc.time_open.to(unit="s", dtype="float64").values
        c = cc.time_close.to(unit="s", dtype="float64").values
    span = verify_openings(o, c, ref, f"Chopper.from_disk_chopper(npulses={case['npulses']})")
    # the expansion exists to cover npulses source pulses
    period = disk.TWO_PI / abs(ref["omega"])
    need = case["npulses"] / ref["fp"]
    if (float(c.max()) - float(o.min())) < need - period * 1.0000001 - 1e-9:
        labs.append("span-shorter-than-npulses")
    # "expanded over several source pulses" / docstring "number of pulses to rotate the chopper for":
    # which rotations exactly are reported is not stated (the package reports rotations -1 .. n-1), but an
    # expansion that reports only full openings inside [0, npulses pulse periods) still spans that
    # interval up to one rotation at either end.  Anything shorter does not cover the pulses asked for.
    if (float(c.max()) - float(o.min())) < need - 2.0 * period * 1.0000001 - 1e-9:
        raise Violation("span", f"Chopper.from_disk_chopper(npulses={case['npulses']}): reported openings span "
                                f"{float(c.max()) - float(o.min())!r} s, {case['npulses']} pulse periods are {need!r} s "
                                f"(rotation period {period!r} s)")
    labs.append(f"span_rotations:{min(int(span), 40)}")
    # "no opening inside the covered time span is missing" for the expansion: the docstring promises to
    # "rotate the chopper for as many full turns as needed to cover npulses".  With the disk at its reference
    # orientation (beam position and phase 0) and every slit written inside [0, 2 pi], rotation k occupies
    # exactly [k T, (k+1) T], so every opening that lies inside [0, npulses pulse periods] must be reported
    # (the package reports rotations -1 .. n-1 with n T >= npulses / f_pulse).  For other orientations the
    # reported window is shifted by (beam position + phase) / omega and the statement fixes no origin.
    if ref["bp"] == 0.0 and ref["phase"] == 0.0 and all(0.0 <= b < e <= disk.TWO_PI for b, e in ref["slits"]):
        labs.append("reference-orientation")
        tol = 1e-9 * period
        for to, tc, _ in disk.true_openings(ref["omega"], 0.0, 0.0, ref["slits"], 0.0, need, -1e-6 * period):
            if not np.any(np.abs(o - to) <= tol):
                raise Violation("missing-in-pulses",
                                f"Chopper.from_disk_chopper(npulses={case['npulses']}): the opening [{to!r}, {tc!r}] s lies "
                                f"inside the {case['npulses']} pulse periods [0, {need!r}] s but is not reported "
                                f"(rotation period {period!r} s)", {"reported_open": sorted(o.tolist())})
    if abs(float(cc.distance.to(unit='m').value) - 5.0) > 1e-12:
        raise Violation("distance", f"distance {cc.distance.value!r}, axle is 5 m from the origin")
    return labs, nt


# ---------------------------------------------------------------- rejection facets


@st.composite
def bad_frequency_cases(draw):
    case = draw(chopper_cases())
    kind = draw(st.sampled_from(["detuned", "detuned", "noninteger", "in-tolerance"]))
    ratio = case["num"] / case["den"]
    if kind == "detuned":
        delta = draw(st.floats(-6, -2).map(lambda e: 10.0**e)) * draw(st.sampled_from([1, -1]))
        r = ratio * (1 + delta)
    elif kind == "in-tolerance":
        delta = draw(st.floats(-14, -10).map(lambda e: 10.0**e)) * draw(st.sampled_from([1, -1]))
        r = ratio * (1 + delta)
    else:
        r = draw(st.sampled_from([1.5, 2.5, 2 / 3, 0.4, 0.75, 3.5, 1.25, 7.5, 0.3, 4.5, 1.1, 0.9]))
    case["kind"] = kind
    case["valid_call_first"] = draw(st.booleans())
    case["f_override"] = case["sign"] * case["fp"] * r
    # a single frequency unit: conversion rounding must not move the quotient
    case["f_unit"] = case["fp_unit"]
    return case


def check_bad_frequency(case):
    from scippneutron.chopper import DiskChopper

    kwargs, pulse, _ = build(case)
    ch = DiskChopper(**kwargs)
    labs = ["kind:" + case["kind"], f"ratio:{case['num']}/{case['den']}"]
    if case.get("valid_call_first"):
        # the same chopper object is first used with a pulse frequency that is exactly in phase; the
        # decision about the detuned one must not depend on that earlier call (seeded/C10-s4)
        import scipp as sc

        exact = sc.scalar(abs(kwargs["frequency"].value) * case["den"] / case["num"] / (1.0 if case["kind"] == "noninteger" else 1.0),
                          unit=kwargs["frequency"].unit)
        if case["kind"] != "noninteger":
            # chopper frequency = ratio * (1 + delta) * pulse: use the pulse frequency that makes the ratio exact
            try:
                ch.time_offset_open(pulse_frequency=exact)
                labs.append("valid-call-first")
            except ValueError:
                labs.append("valid-call-first:rejected")
    results = {}
    for name in ("time_offset_open", "time_offset_close", "open_duration"):
        try:
            getattr(ch, name)(pulse_frequency=pulse)
            results[name] = "accepted"
        except ValueError:
            results[name] = "rejected"
    # "... directly or when expanded over several source pulses for a chopper cascade": the cascade
    # entry point must take the same decision (seeded/C10-s11 dropped the check there only)
    from scippneutron.tof.chopper_cascade import Chopper

    for npulses in (1, 3):
        try:
            Chopper.from_disk_chopper(ch, pulse_frequency=pulse, npulses=npulses)
            results[f"Chopper.from_disk_chopper(npulses={npulses})"] = "accepted"
        except ValueError:
            results[f"Chopper.from_disk_chopper(npulses={npulses})"] = "rejected"
    want = "accepted" if case["kind"] == "in-tolerance" else "rejected"
    for name, r in results.items():
        if r != want:
            q = abs(kwargs["frequency"].value) / pulse.value
            raise Violation("frequency-" + r, f"{name}: frequency/pulse_frequency = {q!r} was {r}, must be {want}")
    return labs, True


@st.composite
def overlap_cases(draw):
    case = draw(chopper_cases())
    base = sorted(case["slits"])
    kind = draw(st.sampled_from(["same-turn", "across-tdc", "across-tdc", "contained"]))
    frac = draw(st.floats(0.05, 0.95))
    victim = draw(st.integers(0, len(base) - 1))
    b, e = base[victim]
    extra = None
    if kind == "same-turn":
        # starts inside the victim, ends in the following gap
        nb = b + frac * (e - b)
        ne = e + 0.5 * _gap_after(base, victim)
        extra = [nb, ne]
    elif kind == "contained":
        nb = b + 0.25 * frac * (e - b)
        ne = e - 0.25 * frac * (e - b)
        extra = [nb, ne]
    else:
        # a slit that spans TDC and reaches into the first slit after TDC (overlap only modulo 2 pi)
        first = min(base, key=lambda s: s[0])
        if first[1] > disk.TWO_PI:  # the set already has a TDC-spanning slit: overlap its tail
            lastb, laste = first
            nb, ne = 0.0 + 0.0, (laste - disk.TWO_PI) * frac
            if ne - nb < 1e-4:
                nb, ne = b + 0.25 * (e - b), e - 0.25 * (e - b)
                kind = "contained"
            extra = [nb, ne]
        else:
            last = max(base, key=lambda s: s[1])
            nb = last[1] + 0.5 * (disk.TWO_PI + first[0] - last[1]) if last[1] < disk.TWO_PI else None
            if nb is None or nb >= disk.TWO_PI:
                nb = max(last[1], 0.0) + 0.5 * max(disk.TWO_PI - last[1], 0.0)
            ne = disk.TWO_PI + first[0] + frac * (first[1] - first[0])
            if nb >= disk.TWO_PI or nb >= ne:
                nb, ne = b + 0.25 * (e - b), e - 0.25 * (e - b)
                kind = "contained"
            extra = [nb, ne]
    pos = draw(st.integers(0, len(case["slits"])))
    slits = list(case["slits"])
    slits.insert(pos, extra)
    case["slits"] = slits
    case["kind"] = kind
    return case


def _gap_after(base, i):
    b, e = base[i]
    nxt = base[(i + 1) % len(base)][0]
    if (i + 1) == len(base):
        nxt += disk.TWO_PI
    return max(nxt - e, 0.0)


def check_overlap(case):
    from scippneutron.chopper import DiskChopper

    kwargs, pulse, ref = build(case)
    labs = ["kind:" + case["kind"], f"nslits:{len(case['slits'])}"]
    slits = ref["slits"]
    if not disk.arcs_overlap(slits, min_measure=1e-6):
        return [*labs, "no-real-overlap-generated"], False
    if any(b >= e for b, e in slits):
        return [*labs, "degenerate"], False
    try:
        ch = DiskChopper(**kwargs)
        ch.time_offset_open(pulse_frequency=pulse)
    except ValueError:
        return labs, True
    raise Violation(
        "overlap-accepted",
        "slit set with overlapping slits accepted: "
        + ", ".join(f"[{math.degrees(b):.3f}, {math.degrees(e):.3f}]" for b, e in slits) + " deg",
    )


@st.composite
def touching_cases(draw):
    """Slit sets (whole degrees, exact arithmetic) in which two slits touch: inside the turn (end_i == begin_j)
    or across top-dead-centre (end_last == begin_first + 360).  Such a set is either refused, or - if it is
    accepted - every reported interval must still be a *maximal* opening of the disk."""
    case = draw(chopper_cases())
    n = draw(st.integers(2, 4))
    cuts = sorted(draw(st.lists(st.integers(0, 350), min_size=2 * n - 1, max_size=2 * n - 1, unique=True)))
    if draw(st.booleans()):
        cuts[0] = 0          # first slit begins exactly at top-dead-centre (last one may end at 360 deg)
    kind = draw(st.sampled_from(["inside", "across-tdc"]))
    slits = []
    if kind == "inside":
        # slit k = [c[2k], c[2k+1]] ..., make slit 1 start exactly where slit 0 ends
        cuts = [*cuts, cuts[-1] + 3]
        pairs = [[cuts[2 * k], cuts[2 * k + 1]] for k in range(n)]
        pairs[1][0] = pairs[0][1]
        if pairs[1][1] <= pairs[1][0]:
            pairs[1][1] = pairs[1][0] + 1
        slits = pairs
    else:
        cuts = [*cuts, cuts[-1] + 3]
        pairs = [[cuts[2 * k], cuts[2 * k + 1]] for k in range(n)]
        pairs[-1][1] = pairs[0][0] + 360          # last slit ends exactly one turn after the first begins
        slits = pairs
    # keep the set otherwise valid: strictly increasing edges
    flat = [x for p in slits for x in p]
    ok = all(b < e for b, e in slits) and all(slits[k][1] <= slits[k + 1][0] for k in range(len(slits) - 1))
    case["touch_ok"] = bool(ok and flat == sorted(flat))
    case["touch_kind"] = kind
    case["slit_unit"] = "deg"
    case["int_edges"] = draw(st.booleans())
    perm = draw(st.permutations(list(range(len(slits)))))
    case["slits"] = [[math.radians(slits[i][0]), math.radians(slits[i][1])] for i in perm]
    case["slits_deg"] = [slits[i] for i in perm]
    return case


def check_touching(case):
    import scipp as sc
    from scippneutron.chopper import DiskChopper

    labs = ["touch:" + case["touch_kind"], f"nslits:{len(case['slits'])}", "int_edges:%s" % case["int_edges"]]
    if not case["touch_ok"]:
        return [*labs, "degenerate-draw"], False
    kwargs, pulse, ref = build(case)
    dt = "int64" if case["int_edges"] else "float64"
    kwargs["slit_begin"] = sc.array(dims=["slit"], values=[b for b, _ in case["slits_deg"]], unit="deg", dtype=dt)
    kwargs["slit_end"] = sc.array(dims=["slit"], values=[e for _, e in case["slits_deg"]], unit="deg", dtype=dt)
    ref["slits"] = [(math.radians(b), math.radians(e)) for b, e in case["slits_deg"]]
    try:
        ch = DiskChopper(**kwargs)
        to = ch.time_offset_open(pulse_frequency=pulse)
        tc = ch.time_offset_close(pulse_frequency=pulse)
    except ValueError:
        return [*labs, "refused"], True
    # accepted: then the reported pairs must be maximal openings of the disk
    o = to.to(unit="s", dtype="float64").values
    c = tc.to(unit="s", dtype="float64").values
    try:
        verify_openings(o, c, ref, "DiskChopper with touching slits " + str(case["slits_deg"]) + " deg")
    except Violation as v:
        raise Violation("touching-accepted-not-maximal", v.message) from None
    return [*labs, "accepted-and-maximal"], True


def m_tdc_overlap(case, v):
    return v.kind == "overlap-accepted" and case.get("kind") == "across-tdc"


MATCHERS = {"C10.tdc_overlap_accepted": m_tdc_overlap}

FACETS = [
    Facet("openings", check_openings, strategy=lambda tier: chopper_cases(),
          quick=(4, 400), thorough=(16, 5000), min_nontrivial=0.5,
          doc="DiskChopper.time_offset_open/close/open_duration vs rotating-disk simulator"),
    Facet("pulse_expansion", check_expansion, strategy=lambda tier: chopper_cases(with_pulses=True),
          quick=(4, 300), thorough=(16, 4000), min_nontrivial=0.5,
          doc="Chopper.from_disk_chopper(npulses=1..4).time_open/time_close vs simulator"),
    Facet("reject_frequency", check_bad_frequency, strategy=lambda tier: bad_frequency_cases(),
          quick=(2, 300), thorough=(8, 3000), min_nontrivial=0.5,
          doc="out-of-phase frequencies rejected, in-tolerance ones accepted"),
    Facet("touching_slits", check_touching, strategy=lambda tier: touching_cases(),
          quick=(1, 300), thorough=(8, 2000), min_nontrivial=0.3,
          doc="slits touching inside the turn or exactly across TDC: refused, or reported as maximal openings"),
    Facet("reject_overlap", check_overlap, strategy=lambda tier: overlap_cases(),
          quick=(2, 300), thorough=(8, 3000), min_nontrivial=0.5,
          doc="overlapping slit sets (same turn, contained, only modulo 2 pi) rejected"),
]


def selftest():
    disk.selftest()
