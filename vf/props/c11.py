"""C11 — chopper-cascade frames are exactly the set of transmitted neutrons."""

import math

import numpy as np
from hypothesis import strategies as st

from ..core import Facet, Violation, attributed

PROPERTY = "C11"
RULE = (
    "Hypothesis draws a program: a pulse rectangle (time range incl. zero width, wavelength band), 0..5 "
    "choppers at distances 0..50 m (incl. equal distances and 0) with 1..4 windows each whose edges are "
    "placed relative to the frame propagated to that chopper (fractions -0.2..1.2 of its time extent, "
    "so windows cut one edge, two edges, a corner, contain or miss the frame) or exactly at the time of "
    "a propagated source vertex (exact tie), the chopper list split into groups that are chopped in "
    "sequence, each group listed in a drawn order, optional propagate_to calls in between, a final "
    "distance looked up with FrameSequence[distance], units per quantity, and 40 neutrons (emission "
    "time, wavelength) in the pulse incl. its edges. Oracle: an independent transmission model "
    "(neutron passes iff at every chopper with distance <= D some window contains its arrival time) "
    "vs crossing-number point-in-polygon on the reported subframes; neutrons within 1e-9 of a window "
    "edge or 1e-7 of a polygon edge (normalised) are skipped and counted. Non-trivial: at least one "
    "window cuts the frame properly (an interpolated vertex exists in the output)."
)
TOLERANCES = {"window_edge_margin": 1e-9, "polygon_edge_margin": 1e-7, "band_ulps": 4, "frame_rtol": 1e-9}
ASSUMPTIONS = [
    "arrival time = emission time + distance * wavelength * m_n / h",
    "a chopper exactly at the looked-up distance counts as passed (frames with distance <= D are used)",
    "implicit preconditions respected by the generator: chopper window times are given in s and "
    "propagate_to / lookup distances in m (the code compares them without unit conversion and raises "
    "UnitError otherwise, which is a clean refusal, not a wrong frame); pulse and chopper-distance units vary",
]

T_UNITS = {"s": 1.0, "ms": 1e-3, "us": 1e-6}
W_UNITS = {"angstrom": 1.0, "nm": 10.0}
D_UNITS = {"m": 1.0, "mm": 1e-3, "cm": 1e-2}


def alpha():
    import scipp.constants as const

    return float(const.m_n.value) / float(const.h.value) * 1e-10  # s / (m angstrom)


# ---------------------------------------------------------------- strategy

unit01 = st.one_of(st.floats(0, 1), st.floats(0, 1), st.just(0.0), st.just(1.0),
                   st.floats(-9, -3).map(lambda e: 10.0**e), st.floats(-9, -3).map(lambda e: 1 - 10.0**e))


@st.composite
def window_edge(draw):
    kind = draw(st.sampled_from(["frac", "frac", "frac", "frac", "vertex"]))
    if kind == "vertex":
        return {"vertex": draw(st.integers(0, 3))}
    return {"frac": draw(st.floats(-0.2, 1.2))}


@st.composite
def programs(draw):
    tmin = draw(st.one_of(st.just(0.0), st.floats(0, 5e-3)))
    # (a zero-width pulse in about one case in seven, no chopper at all in one in twelve: both are
    # legitimate but say little; measured with the plain one_of / integers they made up 49 % and 27 %)
    width = draw(st.integers(0, 6).flatmap(lambda k: st.just(0.0) if k == 0 else st.floats(1e-5, 5e-3)))
    wmin = draw(st.floats(0.1, 5.0))
    wband = draw(st.floats(0.2, 10.0))
    nch = draw(st.sampled_from([0, 1, 1, 2, 2, 2, 3, 3, 3, 4, 4, 5]))
    dist_pool = st.one_of(st.floats(0.5, 50.0), st.floats(0.5, 50.0), st.just(0.0),
                          st.sampled_from([6.0, 10.0, 25.0]))
    choppers = []
    for _ in range(nch):
        d = draw(dist_pool)
        nw = draw(st.integers(1, 4))
        wins = []
        for _ in range(nw):
            a, b = draw(window_edge()), draw(window_edge())
            wins.append([a, b])
        int_distance = draw(st.sampled_from([False, False, False, True]))
        if int_distance:
            d = round(d, 2)  # whole centimetres, so that the integer variable holds the distance exactly
        choppers.append({"distance": d, "windows": wins, "int_distance": int_distance})
    # program: sorted choppers cut into consecutive groups; each group chopped in one call
    order = sorted(range(nch), key=lambda i: (choppers[i]["distance"], i))
    ops = []
    i = 0
    last_d = 0.0
    while i < nch:
        size = draw(st.integers(1, nch - i))
        group = order[i:i + size]
        i += size
        first_d = choppers[group[0]]["distance"]
        if draw(st.booleans()) and first_d >= last_d:
            f = draw(st.floats(0, 1))
            ops.append({"op": "propagate_to", "distance": last_d + f * (first_d - last_d)})
        perm = draw(st.permutations(group))
        ops.append({"op": "chop", "choppers": list(perm)})
        last_d = choppers[group[-1]]["distance"]
    if draw(st.booleans()):
        extra = draw(st.floats(0, 30.0))
        ops.append({"op": "propagate_to", "distance": last_d + extra})
        last_d = last_d + extra
    max_d = last_d
    lookup_kind = draw(st.sampled_from(["last", "beyond", "beyond", "between"]))
    if lookup_kind == "beyond":
        lookup = max_d + draw(st.floats(0.0, 30.0))
    elif lookup_kind == "between" and nch >= 1:
        ds = sorted({0.0, *[c["distance"] for c in choppers]})
        k = draw(st.integers(0, len(ds) - 1))
        hi = ds[k + 1] if k + 1 < len(ds) else ds[k] + 5.0
        lookup = ds[k] + draw(st.floats(0.05, 0.95)) * (hi - ds[k])
    else:
        lookup_kind = "last"
        lookup = None
    # FrameSequence[distance] converts its argument to m itself, so any length unit and an integer
    # variable are in its domain (whole centimetres, so that the integer holds the distance exactly)
    if lookup is None:
        # propagate_to accepts any length unit (the frame keeps it); a later lookup *by distance* then
        # raises UnitError (loud, comparing cm with m), so such programs end with the index lookup
        for op in ops:
            if op["op"] == "propagate_to":
                op["unit"] = draw(st.sampled_from(["m", "m", "cm", "mm"]))
                op["int"] = draw(st.sampled_from([False, False, True]))
    lookup_unit = draw(st.sampled_from(["m", "m", "cm", "mm"]))
    int_lookup = lookup is not None and draw(st.sampled_from([False, False, True]))
    if int_lookup:
        lookup = round(lookup, 2)
    neutrons = draw(st.lists(st.tuples(unit01, unit01).map(list), min_size=40, max_size=40))
    return {
        "lookup_unit": lookup_unit, "int_lookup": int_lookup,
        "int_pulse": draw(st.sampled_from([False, False, False, True])),
        "pulse": {"tmin": tmin, "tmax": tmin + width, "wmin": wmin, "wmax": wmin + wband},
        "t_unit": draw(st.sampled_from(sorted(T_UNITS))),
        "w_unit": draw(st.sampled_from(sorted(W_UNITS))),
        "d_unit": draw(st.sampled_from(sorted(D_UNITS))),
        "choppers": choppers,
        "ops": ops,
        "lookup": lookup,
        "neutrons": neutrons,
    }


# ---------------------------------------------------------------- building


class Built:
    pass


def build(case):
    import scipp as sc
    from scippneutron.tof import chopper_cascade as cc

    b = Built()
    tu, wu, du = case["t_unit"], case["w_unit"], case["d_unit"]
    p = case["pulse"]
    # stored values in the chosen units; the oracle uses the values converted back to s / angstrom / m
    st_ = {k: p[k] / (T_UNITS[tu] if k[0] == "t" else W_UNITS[wu]) for k in p}
    b.int_pulse = bool(case.get("int_pulse")) and tu != "s"
    if b.int_pulse:
        # whole milliseconds / microseconds and whole wavelength units in integer variables
        st_["tmin"] = float(round(st_["tmin"]))
        st_["tmax"] = float(max(round(st_["tmax"]), st_["tmin"] + (0 if p["tmin"] == p["tmax"] else 1)))
        st_["wmin"] = float(max(round(st_["wmin"]), 1))
        st_["wmax"] = float(max(round(st_["wmax"]), st_["wmin"] + 1))
        mk = lambda v, u: sc.scalar(int(v), unit=u, dtype="int64")  # noqa: E731
    else:
        mk = lambda v, u: sc.scalar(v, unit=u)  # noqa: E731
    b.seq0 = cc.FrameSequence.from_source_pulse(
        time_min=mk(st_["tmin"], tu), time_max=mk(st_["tmax"], tu),
        wavelength_min=mk(st_["wmin"], wu), wavelength_max=mk(st_["wmax"], wu))
    src = b.seq0[0].subframes[0]
    b.src_t = np.array(src.time.values, dtype=float)        # s
    b.src_w = np.array(src.wavelength.values, dtype=float)  # angstrom
    # the pulse rectangle from the stored values and exact unit factors (not from the package)
    b.tmin, b.tmax = st_["tmin"] * T_UNITS[tu], st_["tmax"] * T_UNITS[tu]
    b.wmin, b.wmax = st_["wmin"] * W_UNITS[wu], st_["wmax"] * W_UNITS[wu]
    want_t = [b.tmin, b.tmax, b.tmax, b.tmin]
    want_w = [b.wmin, b.wmin, b.wmax, b.wmax]
    if (len(b.src_t) != 4 or any(abs(g - w) > 1e-12 * max(abs(w), 1e-3) for g, w in zip(b.src_t, want_t, strict=True))
            or any(abs(g - w) > 1e-12 * abs(w) for g, w in zip(b.src_w, want_w, strict=True))):
        raise Violation("source-pulse", f"from_source_pulse({st_['tmin']!r}..{st_['tmax']!r} {tu}, {st_['wmin']!r}..{st_['wmax']!r} {wu}"
                                        f"{', integer variables' if b.int_pulse else ''}) gives vertices t={b.src_t.tolist()} s, "
                                        f"lambda={b.src_w.tolist()} A, expected t={want_t}, lambda={want_w}")
    a = alpha()
    b.choppers = []
    b.spec = []  # (distance in m, opens in s, closes in s)
    same_place = {}   # nominal distance -> the variable of the first chopper generated there
    for ch in case["choppers"]:
        d_st = ch["distance"] / D_UNITS[du]
        if ch["distance"] in same_place:
            # "two choppers at the same distance" means the same stored distance: 1.9 m is 1900 mm as an
            # integer but 1899.9999999999998 mm as 1.9 / 0.001, i.e. an ulp *upstream* of its twin, which
            # the package refuses as it must (thorough run, seed 7)
            dist = same_place[ch["distance"]].copy()
        elif ch.get("int_distance") and du != "m":
            # whole millimetres / centimetres in an integer variable
            dist = sc.scalar(round(d_st), unit=du, dtype="int64")
        else:
            dist = sc.scalar(d_st, unit=du)
        same_place.setdefault(ch["distance"], dist)
        d_m = float(dist.value) * D_UNITS[du]   # exact factor; not scipp's integer unit conversion
        lo = b.tmin + a * d_m * b.wmin
        hi = b.tmax + a * d_m * b.wmax
        ext = max(hi - lo, 1e-6)
        vt = cc.propagate_times(src.time, src.wavelength, sc.scalar(d_m, unit="m")).values
        opens, closes = [], []
        for w in ch["windows"]:
            e = []
            for edge in w:
                if "vertex" in edge:
                    e.append(float(vt[edge["vertex"]]))
                else:
                    e.append(lo + edge["frac"] * ext)
            o, c = min(e), max(e)
            opens.append(o)
            closes.append(c)
        to = sc.array(dims=["cutout"], values=opens, unit="s")
        tc = sc.array(dims=["cutout"], values=closes, unit="s")
        b.choppers.append(cc.Chopper(distance=dist, time_open=to, time_close=tc))
        b.spec.append((d_m, to.to(unit="s").values.copy(), tc.to(unit="s").values.copy()))
    return b


def dist_m(var) -> float:
    """A distance variable in metres through the exact factor (not scipp's integer unit conversion)."""
    return float(var.value) * D_UNITS[str(var.unit)]


def _downstream(seq, target):
    """propagate_to(target), but never upstream: the package converts the target into the unit of the
    frame; when that conversion lands an ulp *below* the frame's own distance (a frame at
    110.00000000000001 cm -- a chopper's 1.1 m in the frame's unit -- and a target of 110.0 cm: the same
    place), the frame would be propagated backwards by 1e-14 cm, which turns exact ties of degenerate
    subframes into irregular ones (thorough run, seed 5).  Frames are only ever propagated downstream."""
    fd = seq[-1].distance
    if (target.to(unit=fd.unit, dtype="float64") < fd.to(dtype="float64")).value:
        target = fd.to(dtype="float64")
    return seq.propagate_to(target)


def run_program(case, b):
    import scipp as sc

    seq = b.seq0
    du = case["d_unit"]
    ops = case["ops"]
    for k, op in enumerate(ops):
        if op["op"] == "chop":
            seq = seq.chop([b.choppers[i] for i in op["choppers"]])
        else:
            d = op["distance"]
            if k + 1 < len(ops) and ops[k + 1]["op"] == "chop":
                # unit rounding of the chopper distances must not put this frame beyond the next chopper
                d = min(d, min(b.spec[i][0] for i in ops[k + 1]["choppers"]))
            pu = op.get("unit", "m")
            cm = None
            if op.get("int") and pu != "m":
                # whole centimetres: neither beyond the next chopper nor back behind the frame's own
                # position (a frame is only ever propagated downstream)
                lo = dist_m(seq[-1].distance)
                hi = (min(b.spec[i][0] for i in ops[k + 1]["choppers"])
                      if k + 1 < len(ops) and ops[k + 1]["op"] == "chop" else math.inf)
                for cand in (math.ceil(d * 100 - 1e-9), math.floor(d * 100 + 1e-9)):
                    if lo <= cand * 0.01 <= hi and lo <= cand / 100 <= hi:
                        cm = cand
                        break
            if cm is not None:
                seq = _downstream(seq, sc.scalar(cm * (10 if pu == "mm" else 1), unit=pu, dtype="int64"))
            else:
                target = sc.scalar(d / D_UNITS[pu], unit=pu)
                here = dist_m(seq[-1].distance)
                if dist_m(target) < here:
                    # the division moved the target an ulp upstream of the frame: stay downstream
                    target = sc.scalar(max(d, here), unit="m")
                seq = _downstream(seq, target)
                if k + 1 < len(ops) and ops[k + 1]["op"] == "chop" and pu != "m":
                    # unit rounding again: redo in metres if the division moved the frame beyond the chopper
                    if dist_m(seq[-1].distance) > min(b.spec[i][0] for i in ops[k + 1]["choppers"]):
                        seq = FrameSequenceDropLast(seq).propagate_to(sc.scalar(d, unit="m"))
            if k + 1 < len(ops) and ops[k + 1]["op"] == "chop":
                # ... and the same question asked the way the package asks it: it converts the chopper's
                # distance into the unit of the frame (cm -> mm) and refuses a chopper upstream of the
                # frame.  A frame at 8008.531993503471 mm and a chopper at 800.8531993503471 cm are the
                # same place, but the conversion lands one ulp below (thorough run, seed 4): then the
                # frame is put at the chopper's own distance variable instead.
                fd = seq[-1].distance
                nxt = [b.choppers[i] for i in ops[k + 1]["choppers"]]
                behind = [c for c in nxt
                          if (c.distance.to(unit=fd.unit, dtype="float64") < fd.to(dtype="float64")).value]
                if behind:
                    first = min(behind, key=lambda c: dist_m(c.distance))
                    seq = FrameSequenceDropLast(seq).propagate_to(first.distance.to(dtype="float64"))
    return seq


def FrameSequenceDropLast(seq):
    from scippneutron.tof import chopper_cascade as cc

    return cc.FrameSequence(list(seq.frames[:-1]))


# ---------------------------------------------------------------- geometry helpers


def in_polygon(t, w, T, W):
    n = len(T)
    inside = False
    for i in range(n):
        j = (i + 1) % n
        if (W[i] > w) != (W[j] > w):
            tc = T[i] + (w - W[i]) * (T[j] - T[i]) / (W[j] - W[i])
            if t < tc:
                inside = not inside
    return inside


def edge_distance(t, w, T, W, ts, ws):
    n = len(T)
    dmin = math.inf
    px, py = t / ts, w / ws
    for i in range(n):
        j = (i + 1) % n
        ax, ay, bx, by = T[i] / ts, W[i] / ws, T[j] / ts, W[j] / ws
        dx, dy = bx - ax, by - ay
        l2 = dx * dx + dy * dy
        u = 0.0 if l2 == 0 else max(0.0, min(1.0, ((px - ax) * dx + (py - ay) * dy) / l2))
        dmin = min(dmin, math.hypot(px - (ax + u * dx), py - (ay + u * dy)))
    return dmin


def polygon_area(T, W):
    n = len(T)
    s = 0.0
    for i in range(n):
        j = (i + 1) % n
        s += T[i] * W[j] - T[j] * W[i]
    return abs(s) / 2


def canonical(frame, ts, ws):
    """Polygons of a frame as sorted lists of normalised vertices; slivers dropped."""
    polys = []
    for s in frame.subframes:
        T = np.asarray(s.time.values, dtype=float) / ts
        W = np.asarray(s.wavelength.values, dtype=float) / ws
        if polygon_area(T, W) < 1e-10:
            continue
        pts = []
        for t, w in zip(T, W, strict=True):
            if pts and abs(pts[-1][0] - t) < 1e-9 and abs(pts[-1][1] - w) < 1e-9:
                continue
            pts.append((t, w))
        if len(pts) > 1 and abs(pts[0][0] - pts[-1][0]) < 1e-9 and abs(pts[0][1] - pts[-1][1]) < 1e-9:
            pts.pop()
        k = min(range(len(pts)), key=lambda i: (round(pts[i][0], 7), round(pts[i][1], 7)))
        pts = pts[k:] + pts[:k]
        polys.append(pts)
    polys.sort(key=lambda p: (round(p[0][0], 7), round(p[0][1], 7), len(p)))
    return polys


def _poly_close(p, q, tol):
    if len(p) != len(q):
        return False
    n = len(p)
    for r in range(n):  # any cyclic rotation (the canonical start vertex may be a near-tie)
        qq = q[r:] + q[:r]
        if all(abs(t1 - t2) <= tol and abs(w1 - w2) <= tol for (t1, w1), (t2, w2) in zip(p, qq, strict=True)):
            return True
    return False


def same_polygons(a, b, tol=1e-8):
    """Multiset equality of canonical polygons (order of subframes is not part of the result)."""
    if len(a) != len(b):
        return False
    rest = list(b)
    for p in a:
        for k, q in enumerate(rest):
            if _poly_close(p, q, tol):
                del rest[k]
                break
        else:
            return False
    return True


def frames_close(f1, f2, rtol=1e-9):
    if len(f1.subframes) != len(f2.subframes):
        return False
    for s1, s2 in zip(f1.subframes, f2.subframes, strict=True):
        t1, t2 = np.asarray(s1.time.values), np.asarray(s2.time.values)
        w1, w2 = np.asarray(s1.wavelength.values), np.asarray(s2.wavelength.values)
        if t1.shape != t2.shape or w1.shape != w2.shape:
            return False
        scale = max(float(np.max(np.abs(t1))) if t1.size else 0.0, 1e-30)
        if t1.size and np.max(np.abs(t1 - t2)) > rtol * scale:
            return False
        if w1.size and np.max(np.abs(w1 - w2)) > rtol * max(float(np.max(np.abs(w1))), 1e-30):
            return False
    return True


# ---------------------------------------------------------------- checks


def base_labels(case, seq):
    labs = [f"nchoppers:{len(case['choppers'])}", "t_unit:" + case["t_unit"], "d_unit:" + case["d_unit"],
            f"nframes:{min(len(seq), 8)}"]
    if case["pulse"]["tmin"] == case["pulse"]["tmax"]:
        labs.append("zero-width-pulse")
    if case.get("int_pulse") and case["t_unit"] != "s":
        labs.append("int-pulse")
    if any("vertex" in e for c in case["choppers"] for w in c["windows"] for e in w):
        labs.append("window-on-vertex")
    ds = [c["distance"] for c in case["choppers"]]
    if any(c.get("int_distance") for c in case["choppers"]) and case["d_unit"] != "m":
        labs.append("int-distance")
    for op in case["ops"]:
        if op["op"] == "propagate_to" and op.get("unit", "m") != "m":
            labs.append("propagate-unit:" + op["unit"] + ("/int64" if op.get("int") else ""))
    if case["lookup"] is not None:
        labs.append("lookup-unit:" + case.get("lookup_unit", "m") + ("/int64" if case.get("int_lookup") and case.get("lookup_unit", "m") != "m" else ""))
    if len(set(ds)) < len(ds):
        labs.append("equal-distances")
    if any(d == 0.0 for d in ds):
        labs.append("chopper-at-0")
    nsub = len(seq[-1].subframes)
    labs.append(f"final_subframes:{min(nsub, 6)}")
    return labs


def has_interpolated_vertex(seq, b):
    src = set(zip(b.src_w.tolist(), strict=False))
    for s in seq[-1].subframes:
        for w in np.asarray(s.wavelength.values, dtype=float):
            if (w,) not in src:
                return True
    return False


def final_frame(case, b, seq):
    import scipp as sc

    if case["lookup"] is None:
        fr = seq[-1]
        return fr, dist_m(fr.distance)
    lu = case.get("lookup_unit", "m")
    v = case["lookup"] / D_UNITS[lu]
    if case.get("int_lookup") and lu != "m":
        dist = sc.scalar(round(v), unit=lu, dtype="int64")
    else:
        dist = sc.scalar(v, unit=lu)
    D = float(dist.value) * D_UNITS[lu]       # exact factor; not scipp's integer unit conversion
    fr = seq[dist]
    got = float(fr.distance.to(unit="m", dtype="float64").value)
    if abs(got - D) > 1e-12 * max(abs(D), 1.0):
        raise Violation("lookup-distance", f"FrameSequence[{dist.value!r} {lu} ({dist.dtype})] returned a frame at "
                                           f"{got!r} m, asked for {D!r} m")
    return fr, D


def check_transmission(case):
    b = build(case)
    seq = run_program(case, b)
    labs = base_labels(case, seq)
    fr, D = final_frame(case, b, seq)
    a = alpha()
    polys = [(np.asarray(s.time.values, dtype=float), np.asarray(s.wavelength.values, dtype=float))
             for s in fr.subframes]
    ts = max((b.tmax - b.tmin) + a * D * (b.wmax - b.wmin), 1e-9)
    ws = b.wmax - b.wmin
    # which choppers has a neutron reaching D passed?  the program chops all choppers in distance order,
    # FrameSequence[D] takes the last frame with distance <= D
    # (tolerant comparison: a distance given in cm and converted back may differ by an ulp)
    # A chopper whose distance equals D counts (boundary of "<="); one whose distance differs from
    # D by rounding only (190 cm vs 1.9 m) is on whichever side the conversion puts it: undecided.
    for sp, ch in zip(b.spec, b.choppers, strict=True):
        for d in (sp[0], float(ch.distance.to(unit="m", dtype="float64").value)):
            if d != D and abs(d - D) <= 1e-9 * max(abs(D), 1e-300):
                return [*labs, "lookup-within-rounding-of-chopper:skip"], False
    passed = [sp for sp in b.spec if sp[0] <= D]
    if case["lookup"] is not None:
        # frames appended by propagate_to beyond D are ignored by the lookup; choppers at d <= D all count
        pass
    tested = skipped = transmitted = 0
    for u, v in case["neutrons"]:
        t0 = b.tmin + u * (b.tmax - b.tmin)
        lam = b.wmin + v * (b.wmax - b.wmin)
        near = False
        trans = True
        for d, o, c in passed:
            ta = t0 + a * d * lam
            scale = max((b.tmax - b.tmin) + a * d * (b.wmax - b.wmin), 1e-9)
            if np.min(np.abs(np.concatenate([o, c]) - ta)) < 1e-9 * scale:
                near = True
            if not np.any((o <= ta) & (ta <= c)):
                trans = False
        tf = t0 + a * D * lam
        if near or any(edge_distance(tf, lam, T, W, ts, ws) < 1e-7 for T, W in polys):
            skipped += 1
            continue
        inany = any(in_polygon(tf, lam, T, W) for T, W in polys)
        tested += 1
        transmitted += trans
        if inany != trans:
            raise Violation(
                "transmission",
                f"neutron (t0={t0!r} s, lambda={lam!r} A) {'passes' if trans else 'is blocked by'} the cascade "
                f"but its arrival point (t={tf!r}, lambda={lam!r}) at {D} m is "
                f"{'inside' if inany else 'outside'} the reported subframes",
                {"polygons": [[T.tolist(), W.tolist()] for T, W in polys]},
            )
    labs.append("lookup:" + ("index" if case["lookup"] is None else "distance"))
    if transmitted and transmitted < tested:
        labs.append("partially-transmitting")
    nt = has_interpolated_vertex(seq, b) and tested > 0
    return labs, nt


def check_structure(case):
    """Wavelength band, regularity/subbounds/bounds, on every frame of the sequence."""
    b = build(case)
    seq = run_program(case, b)
    labs = base_labels(case, seq)
    ulp = np.spacing(b.wmax)
    for k in range(len(seq)):
        fr = seq[k]
        for s in fr.subframes:
            W = np.asarray(s.wavelength.values, dtype=float)
            T = np.asarray(s.time.values, dtype=float)
            if W.min() < b.wmin - 4 * ulp or W.max() > b.wmax + 4 * ulp:
                raise Violation("band", f"frame {k}: subframe wavelengths [{W.min()!r}, {W.max()!r}] leave the "
                                        f"source band [{b.wmin!r}, {b.wmax!r}]")
            # regularity decided here, from the vertices (not by asking the package): some vertex has
            # both the smallest time and the smallest wavelength, some vertex both the largest
            mine = bool(np.any((T == T.min()) & (W == W.min())) and np.any((T == T.max()) & (W == W.max())))
            if bool(s.is_regular()) != mine:
                raise Violation("is-regular", f"frame {k}: is_regular() says {bool(s.is_regular())} for vertices "
                                              f"t={T.tolist()}, lambda={W.tolist()}; by the definition it is {mine}")
            # ... and is_regular() itself on a hand-made subframe that is usually *not* regular (the same
            # vertices with the wavelengths in reverse order): it is what subbounds() relies on
            from scippneutron.tof import chopper_cascade as _cc
            import scipp as _sc

            W2 = W[::-1].copy()
            manual = _cc.Subframe(time=_sc.array(dims=["vertex"], values=T, unit="s"),
                                  wavelength=_sc.array(dims=["vertex"], values=W2, unit="angstrom"))
            mine2 = bool(np.any((T == T.min()) & (W2 == W2.min())) and np.any((T == T.max()) & (W2 == W2.max())))
            if bool(manual.is_regular()) != mine2:
                raise Violation("is-regular", f"is_regular() says {bool(manual.is_regular())} for the hand-made subframe "
                                              f"t={T.tolist()}, lambda={W2.tolist()}; by the definition it is {mine2}")
            if not mine2:
                labs.append("manual-irregular-subframe")
            if not mine:
                raise Violation(
                    "irregular", f"frame {k} at {fr.distance.value} {fr.distance.unit}: subframe is not regular "
                    f"(extreme time and wavelength at different vertices): t={T.tolist()}, lambda={W.tolist()}")
        if not fr.subframes:
            continue
        sb = fr.subbounds()  # must not raise for frames produced from a source pulse
        bt, bw = np.asarray(sb["time"].values, dtype=float), np.asarray(sb["wavelength"].values, dtype=float)
        for i, s in enumerate(fr.subframes):
            W = np.asarray(s.wavelength.values, dtype=float)
            T = np.asarray(s.time.values, dtype=float)
            if (bt[i, 0], bt[i, 1]) != (T.min(), T.max()) or (bw[i, 0], bw[i, 1]) != (W.min(), W.max()):
                raise Violation("subbounds", f"frame {k} subframe {i}: subbounds {bt[i].tolist()}, {bw[i].tolist()} "
                                             f"!= vertex extremes")
        bd = fr.bounds()
        gt, gw = np.asarray(bd["time"].values, dtype=float), np.asarray(bd["wavelength"].values, dtype=float)
        if (gt[0], gt[1]) != (bt[:, 0].min(), bt[:, 1].max()) or (gw[0], gw[1]) != (bw[:, 0].min(), bw[:, 1].max()):
            raise Violation("bounds", f"frame {k}: bounds() is not the union of the subframe bounds")
    # The last frame propagated to an *array* of distances (one per detector pixel, as the tof
    # workflows do): bounds and subbounds then carry that dimension, and each slice equals what the
    # scalar call for that distance gives (seeded/C11-s11: bounds() reduced over all dimensions).
    import scipp as sc

    last = seq[-1]
    # (one case in three: every bounds() call costs scipp four of its 65 536 per-process dimension labels)
    if last.subframes and str(last.distance.unit) == "m" and int(b.wmin * 1000) % 3 == 0:
        d0 = float(last.distance.value)
        offs = [0.0, 1.5, 4.25]
        arr = sc.array(dims=["pixel"], values=[d0 + o for o in offs], unit="m")
        with attributed("bounds()/subbounds() of a frame propagated to an array of distances"):
            fa = last.propagate_to(arr)
            ba, sa = fa.bounds(), fa.subbounds()
        for name in ("time", "wavelength"):
            if name == "time" and ("pixel" not in ba[name].dims or "pixel" not in sa[name].dims):
                raise Violation("bounds-array", f"frame propagated to distances {arr.values.tolist()} m: "
                                f"bounds()[{name!r}] has dims {ba[name].dims}, subbounds()[{name!r}] {sa[name].dims}: "
                                "the distance dimension is gone")
        for j, o in enumerate(offs):
            fs = last.propagate_to(sc.scalar(d0 + o, unit="m"))
            bs, ss = fs.bounds(), fs.subbounds()
            for name in ("time", "wavelength"):
                ga = ba[name]["pixel", j] if "pixel" in ba[name].dims else ba[name]
                gs = sa[name]["pixel", j] if "pixel" in sa[name].dims else sa[name]
                if not (np.array_equal(np.asarray(ga.values), np.asarray(bs[name].values))
                        and np.array_equal(np.asarray(gs.values), np.asarray(ss[name].values))):
                    raise Violation("bounds-array", f"frame propagated to the distances {arr.values.tolist()} m: "
                                    f"{name} bounds for pixel {j} are {np.asarray(ga.values).tolist()} / subbounds "
                                    f"{np.asarray(gs.values).tolist()}, the scalar call for {d0 + o} m gives "
                                    f"{np.asarray(bs[name].values).tolist()} / {np.asarray(ss[name].values).tolist()}")
        labs.append("array-distances")
    return labs, has_interpolated_vertex(seq, b)


def check_invariance(case):
    """Order of the chopper list; one-step vs two-step propagation; lookup vs manual propagation."""
    import scipp as sc

    b = build(case)
    seq = run_program(case, b)
    labs = base_labels(case, seq)
    a = alpha()
    fr = seq[-1]
    D = dist_m(fr.distance)
    ts = max((b.tmax - b.tmin) + a * D * (b.wmax - b.wmin), 1e-9)
    ws = b.wmax - b.wmin
    # (a) all choppers in one call, in the listed (unsorted) order and reversed
    one = b.seq0.chop(list(b.choppers))
    rev = b.seq0.chop(list(reversed(b.choppers)))
    d_all = max([sp[0] for sp in b.spec] + [0.0])
    tsa = max((b.tmax - b.tmin) + a * d_all * (b.wmax - b.wmin), 1e-9)
    c1, c2 = canonical(one[-1], tsa, ws), canonical(rev[-1], tsa, ws)
    if not same_polygons(c1, c2):
        raise Violation("order", f"chop(list) and chop(reversed list) give different frames: {c1} vs {c2}")
    # the grouped program must agree with the single call once both are at the same distance
    du = case["d_unit"]
    target = sc.scalar(max(D, d_all) + 1.0, unit="m")
    g1 = canonical(seq[-1].propagate_to(target), ts + tsa, ws)
    g2 = canonical(one[-1].propagate_to(target), ts + tsa, ws)
    if not same_polygons(g1, g2, tol=1e-7):
        raise Violation("grouping", f"chopping in groups differs from chopping in one call: {g1} vs {g2}")
    # (b) two-step vs one-step propagation
    mid = sc.scalar(D + 0.37, unit="m")
    far = sc.scalar(D + 3.1, unit="m")
    two = fr.propagate_to(mid).propagate_to(far)
    direct = fr.propagate_to(far)
    if not frames_close(two, direct):
        raise Violation("two-step", "propagate_to(a).propagate_to(b) differs from propagate_to(b)")
    if not (two == direct):
        raise Violation("two-step-eq", "Frame.__eq__ says two-step and one-step propagation differ")
    # (b') the intermediate distance given as whole millimetres / centimetres in an integer variable
    mid_mm = int(round((D + 0.37) * 1000)) + 1          # not a whole number of metres
    for unit, val in (("mm", mid_mm), ("cm", int(round((D + 0.37) * 100)) + 1)):
        via_int = fr.propagate_to(sc.scalar(val, unit=unit, dtype="int64")).propagate_to(far)
        if not frames_close(via_int, direct):
            raise Violation("two-step-int", f"propagate_to({val} {unit}, int64).propagate_to({far.value} m) differs from "
                                            f"propagate_to({far.value} m)")
    # (c) lookup by distance equals manual propagation of the last frame at or before it
    try:
        looked = seq[far]
    except sc.UnitError:
        # a frame left in cm/mm by propagate_to(<cm|mm>) is compared with the distance in m: refused
        # loudly; nothing is reported, so nothing to compare
        if all(str(f.distance.unit) == "m" for f in seq):
            raise
        return [*labs, "lookup-after-propagate-in-other-unit:refused"], False
    if not frames_close(looked, direct):
        raise Violation("lookup", "FrameSequence[distance] differs from propagating the last frame")
    if float(looked.distance.to(unit="m").value) != float(far.to(unit="m").value):
        raise Violation("lookup-distance", "frame returned by lookup has the wrong distance")
    return labs, len(b.choppers) >= 2 and has_interpolated_vertex(seq, b)


def m_irregular(case, v):
    return v.kind in ("irregular", "unexpected-exception:NotImplementedError")


MATCHERS = {"C11.lerp_irregular": m_irregular}

FACETS = [
    Facet("transmission", check_transmission, strategy=lambda tier: programs(),
          quick=(6, 120), thorough=(16, 1500), min_nontrivial=0.2,
          doc="independent neutron transmission model vs point-in-polygon on reported subframes"),
    Facet("structure", check_structure, strategy=lambda tier: programs(),
          quick=(5, 120), thorough=(16, 1000), min_nontrivial=0.2,
          doc="wavelength band, is_regular, subbounds() available and equal to vertex extremes, bounds()"),
    Facet("invariance", check_invariance, strategy=lambda tier: programs(),
          quick=(5, 100), thorough=(16, 1000), min_nontrivial=0.1,
          doc="chopper list order, grouping, two-step vs one-step propagation, lookup by distance"),
]


def selftest():
    T = [0.0, 1.0, 1.0, 0.0]
    W = [0.0, 0.0, 1.0, 1.0]
    assert in_polygon(0.5, 0.5, T, W) and not in_polygon(1.5, 0.5, T, W)
    assert abs(polygon_area(T, W) - 1.0) < 1e-15
    assert abs(edge_distance(0.5, 0.25, T, W, 1.0, 1.0) - 0.25) < 1e-15
    # 1 angstrom neutron travels 3956 m/s
    assert abs(1 / alpha() - 3956.034) < 1e-2
