"""C01 — elastic TOF kinematics equal the de Broglie / Bragg definitions."""

import math

import mpmath as mp
import numpy as np
from hypothesis import strategies as st

from ..core import Facet, Violation, attributed
from ..gen import logfloat
from ..ref import kin, units

PROPERTY = "C01"
RULE = (
    "Hypothesis draws a kernel (or route / round trip / graph origin+target), a precision class "
    "(float64/float32, all operands alike; in the kernel facet float64 cases may carry int64 operands "
    "holding whole numbers in their own unit), an operand shape class (scalar, 1-d, 2-d broadcast, "
    "per-pixel geometry), a unit per operand, and per element a magnitude log-uniform over "
    "1e-9..1e9 SI (boundary-biased: exact powers of ten, few-mantissa-bit values) and a scattering "
    "angle in (0, pi] with extra mass within 1e-12..1e-3 of 0, pi/2 and pi. Oracle: the closed "
    "forms in 50-digit arithmetic on the exact stored inputs, with h and m_n from scipp.constants. "
    "A case is non-trivial when at least one element was compared against the reference (finite, "
    "inside the float32 range when single precision) and some operand is not in the default unit "
    "or not at unit magnitude; distinct = distinct descriptor hash."
)
TOLERANCES = {"float64_rel": 1e-11, "float32_rel": 1e-5}
ASSUMPTIONS = [
    "mpmath at 50 digits is exact enough to serve as ground truth for 1e-11",
    "float32 cases are generated but not compared when a stored operand or the result is not a normal "
    "float32 ([1e-36, 1e36]) or when an operand the formulas square (tof, Ltotal, wavelength) leaves "
    "[1e-18, 1e18] (intermediate overflow in single precision is not part of the property)",
]

TOL = {"float64": mp.mpf("1e-11"), "float32": mp.mpf("1e-5")}

T_UNITS = list(units.TIME)
L_UNITS = ["m", "mm", "cm", "km", "angstrom", "nm"]
E_UNITS = list(units.ENERGY)
Q_UNITS = ["1/angstrom", "1/nm", "1/m", "1/cm"]
A_UNITS = ["rad", "deg"]

QUANT_UNITS = {
    "tof": T_UNITS, "Ltotal": L_UNITS, "wavelength": L_UNITS, "energy": E_UNITS,
    "Q": Q_UNITS, "two_theta": A_UNITS,
}
DEFAULT_UNIT = {"tof": "s", "Ltotal": "m", "wavelength": "angstrom", "energy": "meV",
                "Q": "1/angstrom", "two_theta": "rad"}


def _ref_table():
    k = kin
    return {
        "wavelength_from_tof": (["tof", "Ltotal"], "tof", "angstrom",
                                lambda a: k.wavelength_from_tof(a["tof"], a["Ltotal"])),
        "dspacing_from_tof": (["tof", "Ltotal", "two_theta"], "tof", "angstrom",
                              lambda a: k.dspacing_from_wavelength(
                                  k.wavelength_from_tof(a["tof"], a["Ltotal"]), a["two_theta"])),
        "energy_from_tof": (["tof", "Ltotal"], "tof", "meV",
                            lambda a: k.energy_from_tof(a["tof"], a["Ltotal"])),
        "energy_from_wavelength": (["wavelength"], "wavelength", "meV",
                                   lambda a: k.energy_from_wavelength(a["wavelength"])),
        "wavelength_from_energy": (["energy"], "energy", "angstrom",
                                   lambda a: k.wavelength_from_energy(a["energy"])),
        "Q_from_wavelength": (["wavelength", "two_theta"], "wavelength", "1/IN",
                              lambda a: k.Q_from_wavelength(a["wavelength"], a["two_theta"])),
        "wavelength_from_Q": (["Q", "two_theta"], "Q", "angstrom",
                              lambda a: 4 * mp.pi * mp.sin(a["two_theta"] / 2) / a["Q"]),
        "dspacing_from_wavelength": (["wavelength", "two_theta"], "wavelength", "angstrom",
                                     lambda a: k.dspacing_from_wavelength(a["wavelength"], a["two_theta"])),
        "dspacing_from_energy": (["energy", "two_theta"], "energy", "angstrom",
                                 lambda a: k.dspacing_from_wavelength(
                                     k.wavelength_from_energy(a["energy"]), a["two_theta"])),
    }


KERNELS = _ref_table()

# ------------------------------------------------------------------ strategies


def angle_si():
    tiny = st.floats(-12, -3).map(lambda e: 10.0**e)
    return st.one_of(
        st.floats(1e-3, math.pi, allow_nan=False),
        st.floats(1e-3, math.pi, allow_nan=False),
        tiny,
        tiny.map(lambda d: math.pi - d),
        st.tuples(tiny, st.booleans()).map(lambda t: math.pi / 2 + (t[0] if t[1] else -t[0])),
        st.just(math.pi),
        st.just(math.pi / 2),
    )


def _stored(si_value: float, unit: str, dtype: str) -> float:
    """Stored value (as float64 of the value at the operand's dtype) for an SI magnitude."""
    v = float(mp.mpf(si_value) / units.ALL[unit])
    if dtype == "float32":
        v = float(np.float32(v))
    return v


@st.composite
def operand(draw, quantity, n, dtype, exp_range):
    unit = draw(st.sampled_from(QUANT_UNITS[quantity]))
    if quantity == "two_theta":
        si = draw(st.lists(angle_si(), min_size=n, max_size=n))
        vals = []
        for s in si:
            v = _stored(s, unit, dtype)
            # rounding to the unit / dtype must not leave (0, pi]
            lim = 180.0 if unit == "deg" else math.pi
            if dtype == "float32":
                lim = float(np.nextafter(np.float32(lim), np.float32(0)))
            vals.append(min(max(v, 1e-30), lim))
    elif dtype == "int64":
        # whole numbers in the operand's own unit (raw event times in ns, lengths in mm, ...), small
        # enough that their squares are representable
        vals = [float(int(10.0 ** e)) for e in draw(st.lists(st.floats(0, 9.3), min_size=n, max_size=n))]
        return {"unit": unit, "values": vals, "dtype": "int64"}
    else:
        si = draw(st.lists(logfloat(*exp_range), min_size=n, max_size=n))
        vals = [_stored(s, unit, dtype) for s in si]
    return {"unit": unit, "values": vals}


SHAPES = ["scalar", "1d", "2d", "pixel", "2dgeo", "mixed"]


@st.composite
def operands(draw, names, data_name, dtype=None, shapes=SHAPES, int_ops=False):
    dtype = dtype or draw(st.sampled_from(["float64", "float64", "float32"]))
    shape = draw(st.sampled_from(shapes))
    nx = draw(st.integers(1, 4))
    ns = draw(st.integers(1, 3))
    exp_range = (-9, 9) if dtype == "float64" else (-5, 5)
    ops = {}
    for name in names:
        is_data = name == data_name
        if shape == "scalar":
            dims, n = [], 1
        elif shape == "1d":
            dims, n = ["x"], nx
        elif shape == "2d":
            dims, n = (["x"], nx) if is_data else (["spectrum"], ns)
        elif shape == "pixel":
            dims, n = ([], 1) if is_data else (["spectrum"], ns)
        elif shape == "mixed":
            # every operand picks its own layout: per-pixel flight path with a scalar angle, ... (seeded/C01-s8)
            if is_data:
                dims, n = draw(st.sampled_from([(["x"], nx), (["x"], nx), ([], 1)]))
            else:
                dims, n = draw(st.sampled_from([([], 1), (["spectrum"], ns), (["spectrum", "x"], ns * nx)]))
        else:  # 2dgeo
            dims, n = (["x"], nx) if is_data else (["spectrum", "x"], ns * nx)
        op_dtype = dtype
        if int_ops and dtype == "float64" and name != "two_theta" and draw(st.booleans()):
            op_dtype = "int64"
        op = draw(operand(name, n, op_dtype, exp_range))
        op["dims"] = dims
        op["shape"] = [] if not dims else ([nx] if dims == ["x"] else ([ns] if dims == ["spectrum"] else [ns, nx]))
        ops[name] = op
    return {"dtype": dtype, "shape": shape, "ops": ops}


@st.composite
def kernel_cases(draw):
    kname = draw(st.sampled_from(sorted(KERNELS)))
    names, data_name, _, _ = KERNELS[kname]
    case = draw(operands(names, data_name, int_ops=draw(st.sampled_from([False, False, True]))))
    case["kernel"] = kname
    return case


# ------------------------------------------------------------------ building and comparing


def build_var(op, dtype):
    import scipp as sc

    vals = np.asarray(op["values"], dtype=dtype).reshape(op["shape"])
    if not op["dims"]:
        return sc.scalar(vals.reshape(()).item() if dtype == "float64" else vals.reshape(())[()],
                         unit=op["unit"], dtype=dtype)
    return sc.array(dims=op["dims"], values=vals, unit=op["unit"], dtype=dtype)


def si_array(op):
    """Object array of exact SI mpf values with the operand's shape."""
    flat = [units.si(v, op["unit"]) for v in op["values"]]
    arr = np.empty(len(flat), dtype=object)
    arr[:] = flat
    return arr.reshape(op["shape"])


def broadcast_ref(ops, names, fn):
    """Evaluate fn elementwise over broadcast operands; returns (dims, object array)."""
    sizes = {}
    for n in names:
        for d, s in zip(ops[n]["dims"], ops[n]["shape"], strict=True):
            sizes[d] = s
    dims = [d for d in ("spectrum", "x") if d in sizes]
    shape = [sizes[d] for d in dims]
    out = np.empty(shape, dtype=object)
    arrs = {n: si_array(ops[n]) for n in names}
    for idx in np.ndindex(*shape) if shape else [()]:
        pos = dict(zip(dims, idx, strict=True))
        a = {}
        for n in names:
            sub = tuple(pos[d] for d in ops[n]["dims"])
            a[n] = arrs[n][sub] if sub else arrs[n].reshape(())[()]
        out[idx] = fn(a)
    return dims, out


def in_f32_range(x) -> bool:
    ax = abs(x)
    return ax == 0 or (mp.mpf("1e-18") <= ax <= mp.mpf("1e18"))


def compare(got, dims, ref_si, out_unit, dtype, tol, what):
    """got: scipp Variable; ref_si: object array in SI; returns number of compared elements."""
    import scipp as sc

    if str(got.dtype) != dtype:
        raise Violation("dtype", f"{what}: result dtype {got.dtype}, expected {dtype}")
    if got.unit != sc.Unit(out_unit):
        raise Violation("unit", f"{what}: result unit {got.unit}, expected {out_unit}")
    if set(got.dims) != set(dims):
        raise Violation("dims", f"{what}: result dims {got.dims}, expected {dims}")
    g = got.transpose(dims).values if dims else got.values
    g = np.asarray(g, dtype=np.float64).reshape(ref_si.shape)
    compared = 0
    factor = _out_factor(out_unit)
    for idx in np.ndindex(*ref_si.shape) if ref_si.shape else [()]:
        r = ref_si[idx] / factor
        if dtype == "float32" and not in_f32_normal(r):
            continue
        gv = float(g[idx])
        if not math.isfinite(gv):
            raise Violation("non-finite", f"{what}: got {gv}, reference {mp.nstr(r, 17)}")
        err = kin.relerr(gv, r)
        if err > tol:
            raise Violation(
                "value", f"{what}: got {gv!r}, reference {mp.nstr(r, 20)}, rel.err {mp.nstr(err, 3)} > {mp.nstr(tol, 3)}",
                {"index": list(idx), "rel_err": float(err)},
            )
        compared += 1
    return compared


def _out_factor(unit: str):
    if unit in units.ALL:
        return units.ALL[unit]
    if unit.startswith("1/"):
        return 1 / units.ALL[unit[2:]]
    if unit == "dimensionless":
        return mp.mpf(1)
    raise KeyError(unit)


def in_f32_normal(x) -> bool:
    ax = abs(x)
    return ax == 0 or (mp.mpf("1e-36") <= ax <= mp.mpf("1e36"))


SQUARED = ("tof", "Ltotal", "wavelength")  # operands the closed forms square


def f32_inputs_ok(case) -> bool:
    """Single-precision cases are compared only if every stored operand is a normal float32 and the
    operands that the formulas square have squares in range too (energies, Q and angles are never
    squared: an energy of 1e-22 J is a perfectly good float32)."""
    if case["dtype"] != "float32":
        return True
    for name, op in case["ops"].items():
        for v in op["values"]:
            x = mp.mpf(v)
            if not in_f32_normal(x) or (name in SQUARED and not in_f32_range(x)):
                return False
    return True


def labels_of(case, extra=()):
    labs = [case["dtype"], "shape:" + case["shape"], *extra]
    nondefault = False
    for n, op in case["ops"].items():
        labs.append(f"{n}:{op['unit']}")
        if op["unit"] != DEFAULT_UNIT.get(n):
            nondefault = True
        if n == "two_theta":
            for v in op["values"]:
                s = float(units.si(v, op["unit"]))
                if s < 1e-3:
                    labs.append("angle:near0")
                elif abs(s - math.pi / 2) < 1e-3:
                    labs.append("angle:near_pi/2")
                elif math.pi - s < 1e-3:
                    labs.append("angle:near_pi")
    return labs, nondefault


# ------------------------------------------------------------------ facet 1: kernel vs formula


def check_kernel(case):
    from scippneutron.conversion import tof as K

    kname = case["kernel"]
    names, data_name, out_unit, fn = KERNELS[kname]
    dtype = case["dtype"]
    ops = case["ops"]
    if out_unit == "1/IN":
        out_unit = "1/" + ops[data_name]["unit"]
    labs, nondefault = labels_of(case, ["kernel:" + kname])
    if not f32_inputs_ok(case):
        return [*labs, "f32-input-range-skip"], False
    args = {n: build_var(ops[n], ops[n].get("dtype", dtype)) for n in names}
    if any("dtype" in op for op in ops.values()):
        labs.append("int64-operand")
    got = getattr(K, kname)(**args)
    dims, ref = broadcast_ref(ops, names, fn)
    n = compare(got, dims, ref, out_unit, dtype, TOL[dtype], kname)
    return labs, n > 0 and (nondefault or any(v != 1.0 for op in ops.values() for v in op["values"]))


# ------------------------------------------------------------------ facet 2: routes


@st.composite
def route_cases(draw):
    case = draw(operands(["tof", "Ltotal", "two_theta"], "tof", shapes=["scalar", "1d", "2d", "pixel", "mixed", "mixed"]))
    return case


def _maxrel(a, b):
    a = np.asarray(a.values, dtype=np.float64)
    b = np.asarray(b.values, dtype=np.float64)
    with np.errstate(all="ignore"):
        return float(np.max(np.abs(a - b) / np.abs(b)))


def check_routes(case):
    import scipp as sc
    from scippneutron.conversion import tof as K

    dtype = case["dtype"]
    labs, nondefault = labels_of(case)
    if not f32_inputs_ok(case):
        return [*labs, "f32-input-range-skip"], False
    ops = case["ops"]
    tof, L, tt = (build_var(ops[n], dtype) for n in ("tof", "Ltotal", "two_theta"))
    lam = K.wavelength_from_tof(tof=tof, Ltotal=L)
    E_t = K.energy_from_tof(tof=tof, Ltotal=L)
    E_l = K.energy_from_wavelength(wavelength=lam)
    d_t = K.dspacing_from_tof(tof=tof, Ltotal=L, two_theta=tt)
    d_l = K.dspacing_from_wavelength(wavelength=lam, two_theta=tt)
    d_e = K.dspacing_from_energy(energy=E_t, two_theta=tt)
    Q = K.Q_from_wavelength(wavelength=lam, two_theta=tt)
    lam_e = K.wavelength_from_energy(energy=E_t)
    if dtype == "float32":
        # only compare when everything stayed inside the single-precision range
        for v in (lam, E_t, E_l, d_t, d_l, d_e, Q):
            a = np.abs(np.asarray(v.values, dtype=np.float64))
            if not np.all(np.isfinite(a)) or np.any(a < 1e-36) or np.any(a > 1e36):
                return [*labs, "f32-result-range-skip"], False
    tol = 3 * float(TOL[dtype])
    pairs = {
        "E(tof) vs E(lambda(tof))": (E_t, E_l),
        "d(tof) vs d(lambda(tof))": (d_t, d_l),
        "d(tof) vs d(E(tof))": (d_t, d_e),
        "lambda(tof) vs lambda(E(tof))": (lam, lam_e),
    }
    for what, (a, b) in pairs.items():
        a, b = sc.broadcast(a, sizes=d_t.sizes) if a.dims != d_t.dims else a, b
        if set(a.dims) != set(b.dims):
            b = sc.broadcast(b, sizes=a.sizes)
        b = b.transpose(a.dims) if a.dims else b
        err = _maxrel(a, b)
        if not err <= tol:
            raise Violation("routes", f"{what} differ by {err:.3e} (> {tol:.1e})")
    qd = (Q * d_t).values
    err = float(np.max(np.abs(np.asarray(qd, dtype=np.float64) / (2 * math.pi) - 1)))
    if not err <= tol:
        raise Violation("routes", f"Q*d differs from 2*pi by {err:.3e} (> {tol:.1e})")
    if (Q * d_t).unit != sc.units.one:
        raise Violation("unit", f"Q*d has unit {(Q * d_t).unit}")
    return labs, True


# ------------------------------------------------------------------ facet 3: round trips


@st.composite
def roundtrip_cases(draw):
    which = draw(st.sampled_from(["lam-E-lam", "lam-Q-lam", "E-lam-E", "lam-d-lam"]))
    if which == "E-lam-E":
        case = draw(operands(["energy"], "energy", shapes=["scalar", "1d"]))
    elif which == "lam-E-lam":
        case = draw(operands(["wavelength"], "wavelength", shapes=["scalar", "1d"]))
    else:
        case = draw(operands(["wavelength", "two_theta"], "wavelength", shapes=["scalar", "1d", "2d", "pixel", "mixed"]))
    case["which"] = which
    return case


def check_roundtrip(case):
    import scipp as sc
    from scippneutron.conversion import tof as K

    dtype = case["dtype"]
    which = case["which"]
    labs, _ = labels_of(case, ["rt:" + which])
    if not f32_inputs_ok(case):
        return [*labs, "f32-input-range-skip"], False
    ops = case["ops"]
    v = {n: build_var(op, dtype) for n, op in ops.items()}
    if which == "lam-E-lam":
        x = v["wavelength"]
        mid = K.energy_from_wavelength(wavelength=x)
        back = K.wavelength_from_energy(energy=mid)
    elif which == "E-lam-E":
        x = v["energy"]
        mid = K.wavelength_from_energy(energy=x)
        back = K.energy_from_wavelength(wavelength=mid)
    elif which == "lam-Q-lam":
        x = v["wavelength"]
        mid = K.Q_from_wavelength(wavelength=x, two_theta=v["two_theta"])
        back = K.wavelength_from_Q(Q=mid, two_theta=v["two_theta"])
    else:  # lam -> d -> lam via Bragg:  lam = 2 d sin(theta) = 4 pi sin(theta) / (2 pi / d)
        x = v["wavelength"]
        mid = K.dspacing_from_wavelength(wavelength=x, two_theta=v["two_theta"])
        q = (2 * math.pi) / mid
        if dtype == "float32":
            q = q.astype("float32")
        back = K.wavelength_from_Q(Q=q, two_theta=v["two_theta"])
    if dtype == "float32":
        for z in (mid, back):
            a = np.abs(np.asarray(z.values, dtype=np.float64))
            if not np.all(np.isfinite(a)) or np.any(a < 1e-36) or np.any(a > 1e36):
                return [*labs, "f32-result-range-skip"], False
    if str(back.dtype) != dtype:
        raise Violation("dtype", f"{which}: dtype {back.dtype} after round trip, expected {dtype}")
    xs = x.to(unit=back.unit, dtype="float64", copy=True) if x.unit != back.unit else x.astype("float64")
    # exact expectation: the stored input in SI (unit conversion of the expectation done in mp)
    name = "energy" if which == "E-lam-E" else "wavelength"
    ref = si_array(ops[name])
    out_unit = str(back.unit)
    factor = units.ALL["meV" if name == "energy" else "angstrom"]
    if back.unit != sc.Unit("meV" if name == "energy" else "angstrom"):
        raise Violation("unit", f"{which}: unit {out_unit} after round trip")
    b = back
    if set(b.dims) != set(x.dims):
        xdims = [d for d in b.dims]
        refb = np.broadcast_to(ref.reshape([-1 if d in x.dims else 1 for d in xdims]) if x.dims else ref.reshape(()), b.shape)
    else:
        b = b.transpose(x.dims) if x.dims else b
        refb = ref.reshape(b.shape)
    g = np.asarray(b.values, dtype=np.float64).reshape(refb.shape)
    tol = 3 * TOL[dtype]
    for idx in np.ndindex(*refb.shape) if refb.shape else [()]:
        r = refb[idx] / factor
        err = kin.relerr(float(g[idx]), r)
        if err > tol:
            raise Violation("roundtrip", f"{which}: {float(g[idx])!r} vs original {mp.nstr(r, 20)}, rel.err {mp.nstr(err, 3)}")
    del xs
    return labs, True


# ------------------------------------------------------------------ facet 4: graph wiring

GRAPH_TARGETS = {
    "tof": ["wavelength", "energy", "dspacing", "Q"],
    "wavelength": ["energy", "dspacing", "Q"],
    "energy": ["wavelength", "dspacing"],
    "Q": ["wavelength"],
}
ORIGIN_QUANT = {"tof": "tof", "wavelength": "wavelength", "energy": "energy", "Q": "Q"}


@st.composite
def graph_cases(draw):
    origin = draw(st.sampled_from(sorted(GRAPH_TARGETS)))
    target = draw(st.sampled_from(GRAPH_TARGETS[origin]))
    factory = draw(st.sampled_from(["elastic", "specific"]))
    case = draw(operands([origin, "Ltotal", "two_theta"], origin, dtype="float64", shapes=["1d", "2d"]))
    case.update(origin=origin, target=target, factory=factory)
    return case


def _ref_chain(origin, target):
    k = kin

    def lam_of(a):
        if origin == "tof":
            return k.wavelength_from_tof(a["tof"], a["Ltotal"])
        if origin == "wavelength":
            return a["wavelength"]
        if origin == "energy":
            return k.wavelength_from_energy(a["energy"])
        return 4 * mp.pi * mp.sin(a["two_theta"] / 2) / a["Q"]

    if target == "wavelength":
        return lam_of, "angstrom"
    if target == "energy":
        return (lambda a: k.energy_from_wavelength(lam_of(a))), "meV"
    if target == "dspacing":
        return (lambda a: k.dspacing_from_wavelength(lam_of(a), a["two_theta"])), "angstrom"
    if target == "Q":
        return (lambda a: k.Q_from_wavelength(lam_of(a), a["two_theta"])), "1/LAM"
    raise KeyError(target)


def check_graph(case):
    import scipp as sc
    from scippneutron.conversion.graph import tof as G

    origin, target = case["origin"], case["target"]
    ops = case["ops"]
    labs, _ = labels_of(case, [f"graph:{origin}->{target}", "factory:" + case["factory"]])
    coords = {n: build_var(ops[n], "float64") for n in ops}
    nx = ops[origin]["shape"][0]
    sizes = {}
    for n in ops:
        for d, s in zip(ops[n]["dims"], ops[n]["shape"], strict=True):
            sizes[d] = s
    data = sc.ones(dims=list(sizes), shape=list(sizes.values()))
    da = sc.DataArray(data, coords=coords)
    if case["factory"] == "elastic":
        graph = G.elastic(origin)
    else:
        graph = getattr(G, "elastic_" + target)(origin)
    with attributed(f"transform_coords({target!r}) over graph.tof.{'elastic' if case['factory'] == 'elastic' else 'elastic_' + target}({origin!r}) "
                    f"on data with coords {sorted(coords)}"):
        out = da.transform_coords(target, graph=graph, rename_dims=False, keep_inputs=True)
    got = out.coords[target]
    fn, out_unit = _ref_chain(origin, target)
    if out_unit == "1/LAM":
        # Q from wavelength carries 1/unit(wavelength); wavelength produced by kernels is angstrom
        out_unit = "1/" + (ops["wavelength"]["unit"] if origin == "wavelength" else "angstrom")
    dims, ref = broadcast_ref(ops, list(ops), fn)
    # transform_coords may not broadcast over unused operands
    used = [d for d in dims if d in got.dims]
    if used != dims:
        sl = tuple(slice(None) if d in got.dims else 0 for d in dims)
        ref = ref[sl]
        dims = used
    compare(got, dims, ref, out_unit, "float64", TOL["float64"], f"graph {origin}->{target}")
    del nx
    return labs, True


FACETS = [
    Facet("kernel_vs_formula", check_kernel, strategy=lambda tier: kernel_cases(),
          quick=(4, 1000), thorough=(16, 20000), min_nontrivial=0.5,
          doc="each public kernel vs closed form in mpmath; unit, dtype, dims"),
    Facet("routes", check_routes, strategy=lambda tier: route_cases(),
          quick=(2, 600), thorough=(16, 8000), min_nontrivial=0.5,
          doc="pairwise agreement of routes to the same quantity; Q*d = 2 pi"),
    Facet("roundtrip", check_roundtrip, strategy=lambda tier: roundtrip_cases(),
          quick=(2, 600), thorough=(16, 8000), min_nontrivial=0.5,
          doc="lambda->E->lambda, lambda->Q->lambda, E->lambda->E, lambda->d->lambda"),
    Facet("graph_wiring", check_graph, strategy=lambda tier: graph_cases(),
          quick=(2, 300), thorough=(16, 3000), min_nontrivial=0.5,
          doc="transform_coords over graph.tof.elastic*/(origin) vs closed form"),
]


def selftest():
    units.selftest()
    kin.selftest()
