"""C14 — CIF output is valid CIF 1.1 and parses back to exactly what was supplied."""

import datetime
import io
import math
import re

from hypothesis import assume
from hypothesis import strategies as st

from ..core import Facet, Violation, attributed
from ..ref import cif as ref

PROPERTY = "C14"
RULE = (
    "Hypothesis draws values, documents and builder programs. Strings are concatenations of up to 6 "
    "pieces from printable ASCII text and a pool of structure-bearing fragments (leading _ # $ ; [ ] ' \", "
    "quote-then-blank, newline-then-semicolon, tab, blank, CIF keywords in any case, numeric look-alikes, "
    "? and ., Latin-1 / CJK / emoji), at most 200 characters; numbers are finite ints/floats, scipp "
    "scalars with and without variances and units, datetimes. Documents: 1..3 blocks of 0..5 chunks "
    "(1..6 pairs) and loops (1..12 rows x 1..5 columns of str/int/float/float-with-variance), comments on "
    "file, block and items (multi-line, non-ASCII, containing #), optional schemas. Builder programs: "
    "sequences of with_authors / with_beamline / with_reducers / with_reduced_powder_data / "
    "with_powder_calibration / copy / save in any order. Oracle: an independent CIF 1.1 parser "
    "(vf/ref/cif.py); the parse tree must equal the expectation computed from the inputs (tags in order, "
    "strings up to surrounding blanks, numbers re-read exactly, su columns = sqrt(variance), comments "
    "only in the comment channel, role ids referring to exactly one author). Non-trivial: a value that "
    "needs quoting or a text field, or a loop with a text field, or authors with roles."
)
ASSUMPTIONS = [
    "values are at most 200 characters so that no line approaches the 2048-column limit (the writer does not wrap)",
    "non-ASCII characters may be escaped by any ASCII sequence; ASCII characters must be preserved verbatim",
    "a value that CIF 1.1 cannot represent (contains newline-semicolon, or quote-blank of both kinds together "
    "with a newline...) may be refused with ValueError; writing it wrongly is a violation",
    "block names are non-empty (the documented domain: 'any non-whitespace characters')",
]

ASCII_PRINT = "".join(chr(c) for c in range(32, 127))
FRAGMENTS = [
    "_", "#", "$", ";", "[", "]", "'", '"', "' ", '" ', " '", ' "', "\n", ";\n", "\n;", "\n; ", "\t", " ", "  ",
    "data_", "data_x", "DATA_y", "loop_", "LOOP_", "Loop_", "global_", "stop_", "save_", "save_f", "1.5", "-3", "1e5",
    "?", ".", "é", "ü", "漢字", "😀", "\\", "a b", "it's", 'say "hi"', "#c", " #c", "_tag", ";x",
]
plain = st.text(alphabet=ASCII_PRINT, min_size=0, max_size=12)
word = st.text(alphabet="abcdefghijklmnopqrstuvwxyz0123456789", min_size=1, max_size=8)
piece = st.one_of(st.sampled_from(FRAGMENTS), st.sampled_from(FRAGMENTS), plain, word)
cif_string = st.lists(piece, min_size=0, max_size=6).map("".join).map(lambda s: s[:200])
# For multi-value documents: a newline followed by a semicolon cannot be represented in CIF 1.1 (the writer
# refuses it), and one such value makes the whole document unwritable. The single-value facet keeps them;
# documents get them rarely so that most documents are actually written and parsed.
doc_string = st.one_of(cif_string.map(lambda s: s.replace("\n;", "\n ;")), cif_string.map(lambda s: s.replace("\n;", "\n ;")),
                       cif_string.map(lambda s: s.replace("\n;", "\n ;")), cif_string.map(lambda s: s.replace("\n;", "\n ;")),
                       cif_string.map(lambda s: s.replace("\n;", "\n ;")), cif_string.map(lambda s: s.replace("\n;", "\n ;")),
                       cif_string.map(lambda s: s.replace("\n;", "\n ;")), cif_string)
simple_string = st.one_of(word, word, plain)
tag_name = st.text(alphabet="abcdefghijklmnopqrstuvwxyzABCXYZ0123456789_.-", min_size=1, max_size=16)
comment_text = st.one_of(st.just(""), st.just(""), st.lists(st.one_of(plain, st.sampled_from(["#", "# x", "é", "漢", "", ";", "_a 1", "loop_", "data_z"])),
                                                            min_size=1, max_size=3).map("\n".join))
finite = st.floats(allow_nan=False, allow_infinity=False)
nice_float = st.one_of(finite, st.floats(-1e6, 1e6), st.sampled_from([0.0, -0.0, 1.5, 1e22, 1e-7, 5e-324, 1.7976931348623157e308]))
UNITS = [None, "one", "m", "us", "counts", "angstrom"]


@st.composite
def value_desc(draw, strings=cif_string):
    kind = draw(st.sampled_from(["str", "str", "str", "int", "float", "sc", "sc_var", "sc_str", "datetime",
                                 "np_float", "np_int"]))
    if kind == "np_float":
        # numbers and strings as numpy scalars (arr.mean(), arr[0]): same value, another Python type
        return {"t": "np_float", "v": draw(nice_float), "np": "float64"}
    if kind == "np_int":
        return {"t": "np_int", "v": draw(st.integers(-10**9, 10**9)), "np": draw(st.sampled_from(["int64", "int32"]))}
    if kind == "np_str":
        return {"t": "np_str", "v": draw(strings)}
    if kind == "str":
        return {"t": "str", "v": draw(strings)}
    if kind == "int":
        return {"t": "int", "v": draw(st.integers(-10**12, 10**12))}
    if kind == "float":
        return {"t": "float", "v": draw(nice_float)}
    if kind == "sc":
        return {"t": "sc", "v": draw(nice_float), "unit": draw(st.sampled_from(UNITS))}
    if kind == "sc_var":
        v = draw(st.floats(-1e9, 1e9))
        rel = draw(st.floats(-6, 1).map(lambda e: 10.0**e))
        std = max(abs(v), 1e-3) * rel
        return {"t": "sc_var", "v": v, "var": std * std, "unit": draw(st.sampled_from(UNITS))}
    if kind == "sc_str":
        return {"t": "sc_str", "v": draw(strings)}
    ts = draw(st.integers(0, 4_000_000_000))
    return {"t": "datetime", "v": ts}


def build_value(d):
    import scipp as sc

    t = d["t"]
    if t in ("str", "int", "float"):
        return d["v"]
    if t == "np_float":
        import numpy as np
        return getattr(np, d["np"])(d["v"])
    if t == "np_int":
        import numpy as np
        return getattr(np, d["np"])(d["v"])
    if t == "np_str":
        import numpy as np
        return np.str_(d["v"])
    if t == "sc":
        return sc.scalar(d["v"], unit=d["unit"])
    if t == "sc_var":
        return sc.scalar(d["v"], variance=d["var"], unit=d["unit"])
    if t == "sc_str":
        return sc.scalar(d["v"])
    return datetime.datetime.fromtimestamp(d["v"], tz=datetime.timezone.utc)


def expected_of(d):
    t = d["t"]
    if t in ("str", "sc_str", "np_str"):
        return ("str", d["v"])
    if t in ("int", "np_int"):
        return ("int", d["v"])
    if t == "np_float":
        import numpy as np
        return ("float", float(getattr(np, d["np"])(d["v"])))
    if t in ("float", "sc"):
        return ("float", d["v"])
    if t == "sc_var":
        return ("float_su", d["v"], d["var"])
    return ("str", datetime.datetime.fromtimestamp(d["v"], tz=datetime.timezone.utc).isoformat())


# ------------------------------------------------------------------ comparing parsed tokens with expectations

_SU = re.compile(r"^(-?)(\d+)(?:\.(\d*))?\((\d+)\)$")


def text_matches(parsed: str, expected: str) -> bool:
    """ASCII characters verbatim, each maximal non-ASCII run replaced by some non-empty ASCII escape;
    surrounding blanks are not significant."""
    p = parsed.strip(" \t\n")
    e = expected.strip(" \t\n")
    if e.isascii():
        return p == e
    parts = re.split(r"([^\x00-\x7f]+)", e)
    rx = "".join(re.escape(x) if k % 2 == 0 else r"[\x21-\x7e]+" for k, x in enumerate(parts))
    return re.fullmatch(rx, p, flags=re.S) is not None and p.isascii()


def check_token(tok, exp, where):
    kind, s = tok
    if exp[0] == "str":
        if not text_matches(s, exp[1]):
            raise Violation("value", f"{where}: parsed {kind} value {s!r}, supplied string {exp[1]!r}")
        return
    if kind != "bare":
        raise Violation("number-quoted", f"{where}: number {exp[1]!r} was written as {kind} value {s!r}")
    try:
        if exp[0] == "int":
            ok = int(s) == exp[1]
        elif exp[0] == "float":
            ok = float(s) == exp[1] and (math.copysign(1, float(s)) == math.copysign(1, exp[1]) or exp[1] != 0)
        else:
            ok = _su_ok(s, exp[1], exp[2])
    except ValueError:
        ok = False
    if not ok:
        raise Violation("number", f"{where}: token {s!r} does not re-read as the supplied number {exp[1:]!r}")


def _su_ok(s, value, var):
    m = _SU.match(s)
    std = math.sqrt(var)
    if m is None:
        # the writer may drop a vanishing uncertainty or use exponent notation; then the number must be exact
        return float(s.split("(")[0]) == value if "(" not in s else False
    sign, ip, fp, su = m.groups()
    fp = fp or ""
    scale = 10.0 ** (-len(fp))
    printed = float(f"{sign}{ip}.{fp or '0'}")
    zeros_v = 0 if fp else len(ip) - len(ip.rstrip("0")) if ip.strip("0") else 0
    unit_v = scale * 10.0 ** zeros_v
    zeros_s = len(su) - len(su.rstrip("0")) if su.strip("0") else 0
    printed_su = int(su) * scale
    unit_s = scale * 10.0 ** zeros_s
    # the value is rounded to the place of the last significant digit of the uncertainty
    unit_v = max(unit_v, unit_s)
    return abs(printed - value) <= unit_v * 1.0000001 + 1e-300 and abs(printed_su - std) <= unit_s * 1.0000001


# ------------------------------------------------------------------ facet 1: single values


@st.composite
def value_cases(draw):
    return {"key": draw(tag_name), "value": draw(value_desc()), "in_loop": draw(st.booleans()),
            "neighbour": draw(st.one_of(st.none(), simple_string))}


def needs_quoting(s: str) -> bool:
    if s == "":
        return True
    if any(c in s for c in " \t\n'\""):
        return True
    if s[0] in "_#$;[]":
        return True
    low = s.lower()
    return low.startswith(("data_", "save_")) or low in ("loop_", "stop_", "global_")


def representable(s: str) -> bool:
    """Can CIF 1.1 hold this string at all?  (text field: no newline-semicolon; one line: some quote works)"""
    s = s.encode("ascii", "backslashreplace").decode("ascii")
    if "\n" in s:
        return "\n;" not in s
    for q in "'\"":
        if not re.search(re.escape(q) + r"[ \t]", s):
            return True
    return True  # a text field can always hold a single line


TARGETS = st.sampled_from(["StringIO", "StringIO", "StringIO", "str", "Path", "file"])
FILE_NAMES = st.sampled_from(["out.cif", "out.cif", "out", "result.v2", "my file.cif", "d\u00e5ta.cif", "OUT.CIF"])


def write_via(writer, target="StringIO", fname="out.cif"):
    """Call writer(target object) for a StringIO / str path / Path / open text file and return the
    text that ended up there.  A path target must produce exactly the named file, readable as ASCII."""
    import os
    import tempfile
    from pathlib import Path

    if target == "StringIO":
        buf = io.StringIO()
        writer(buf)
        return buf.getvalue()
    with tempfile.TemporaryDirectory(prefix="vf-c14-") as tmp:
        path = os.path.join(tmp, fname)
        if target in ("str", "Path") and len(fname) % 2 == 0:
            # the path already holds an older, longer file: saving replaces it
            with open(path, "w", encoding="utf-8") as f:
                f.write("#\\#CIF_1.1\ndata_older\n\n" + "".join(f"_old.item_{i} {i}\n" for i in range(400)))
        if target == "str":
            writer(path)
        elif target == "Path":
            writer(Path(path))
        else:
            with open(path, "w", encoding="utf-8", newline="") as f:
                writer(f)
        if os.listdir(tmp) != [fname]:
            raise Violation("wrong-file", f"saving to the {target} target {fname!r} left the files "
                                          f"{sorted(os.listdir(tmp))} in an otherwise empty directory")
        with open(path, "rb") as f:
            raw = f.read()
    try:
        return raw.decode("ascii").replace("\r\n", "\n")
    except UnicodeDecodeError:
        raise Violation("non-ascii", f"the file written to the {target} target holds non-ASCII bytes: "
                                     f"{raw[:200]!r}") from None


def write_doc(blocks, comment="", target="StringIO", fname="out.cif"):
    from scippneutron.io import cif

    return write_via(lambda t: cif.save_cif(t, blocks, comment=comment), target, fname)


def parse_checked(text):
    if not text.startswith("#\\#CIF_1.1\n"):
        raise Violation("magic", f"file does not start with the CIF 1.1 magic line: {text[:30]!r}")
    if not text.isascii():
        bad = next(c for c in text if not c.isascii())
        raise Violation("non-ascii", f"non-ASCII character {bad!r} written to the file")
    try:
        return ref.parse(text)
    except ref.CIFSyntaxError as e:
        raise Violation("syntax", f"not valid CIF 1.1: {e}", {"text": text[:1500]}) from None


def check_value(case):
    import scipp as sc
    from scippneutron.io import cif

    d = case["value"]
    exp = expected_of(d)
    labs = ["type:" + d["t"], "layout:" + ("loop" if case["in_loop"] else "pair")]
    val = build_value(d)
    nt = False
    if exp[0] == "str":
        s = exp[1]
        nt = needs_quoting(s)
        if "\n" in s:
            labs.append("text-field")
        elif nt:
            labs.append("needs-quoting")
        if not s.isascii():
            labs.append("non-ascii")
    key = case["key"]
    try:
        if case["in_loop"]:
            if d["t"] in ("str", "sc_str"):
                col = sc.array(dims=["row"], values=[d["v"], "x"])
                exp_rows = [exp, ("str", "x")]
            elif d["t"] in ("int", "np_int"):
                col = sc.array(dims=["row"], values=[d["v"], 1], dtype="int64", unit=None)
                exp_rows = [exp, ("int", 1)]
            elif d["t"] == "datetime":
                return [*labs, "skip:datetime-in-loop"], False
            else:
                var = [d["var"], 1.0] if d["t"] == "sc_var" else None
                col = sc.array(dims=["row"], values=[d["v"], 2.0], variances=var, unit=d.get("unit"))
                exp_rows = [exp, ("float_su", 2.0, 1.0) if var else ("float", 2.0)]
            cols = {key: col}
            if case["neighbour"] is not None:
                cols[key + "_n"] = sc.array(dims=["row"], values=[case["neighbour"], "y"])
            block = cif.Block("b", [cif.Loop(cols)])
        else:
            pairs = {key: val}
            if case["neighbour"] is not None:
                pairs[key + "_n"] = case["neighbour"]
            block = cif.Block("b", [pairs])
        text = write_doc(block)
    except ValueError as e:
        if exp[0] == "str" and not representable(exp[1]):
            return [*labs, "refused-unrepresentable"], True
        raise Violation("refused", f"value {d!r} refused with ValueError: {e}") from None
    blocks, _ = parse_checked(text)
    ncol = 2 if case["neighbour"] is not None else 1
    nitems = 1 if case["in_loop"] else ncol
    if len(blocks) != 1 or len(blocks[0]["items"]) != nitems:
        raise Violation("structure", f"expected one block with {nitems} item(s), parsed "
                                     f"{[(b['name'], [i[:2] for i in b['items']]) for b in blocks]}", {"text": text[:1500]})
    it = blocks[0]["items"][0]
    if case["in_loop"]:
        if it[0] != "loop" or it[1] != ["_" + key, "_" + key + "_n"][:ncol] or len(it[2]) != 2:
            raise Violation("structure", f"loop parsed as {it[:2]} with {len(it[2]) if it[0] == 'loop' else '-'} rows",
                            {"text": text[:1500]})
        for r, e in zip(it[2], exp_rows, strict=True):
            check_token(r[0], e, "_" + key)
        if ncol == 2:
            check_token(it[2][0][1], ("str", case["neighbour"]), "neighbour")
            check_token(it[2][1][1], ("str", "y"), "neighbour")
    else:
        items = blocks[0]["items"]
        raise_if = it[0] != "pair" or it[1] != "_" + key
        if raise_if:
            raise Violation("structure", f"pair parsed as {it[:2]}", {"text": text[:1500]})
        check_token(it[2], exp, "_" + key)
        if ncol == 2:
            it2 = items[1]
            if it2[0] != "pair" or it2[1] != "_" + key + "_n":
                raise Violation("structure", f"second pair parsed as {it2[:2]}", {"text": text[:1500]})
            check_token(it2[2], ("str", case["neighbour"]), "neighbour")
    return labs, nt


# ------------------------------------------------------------------ facet 2: documents

SCHEMAS = {
    "core": ("coreCIF", "3.3.0"),
    "pd": ("pdCIF", "2.5.0"),
}


@st.composite
def loop_desc(draw, keys):
    nrows = draw(st.one_of(st.integers(1, 4), st.integers(1, 12), st.integers(1, 50)))
    ncols = draw(st.integers(1, 5))
    cols = []
    for _ in range(ncols):
        key = draw(tag_name.filter(lambda k: k.lower() not in keys))
        keys.add(key.lower())
        typ = draw(st.sampled_from(["str", "str", "simple", "int", "float", "float_var"]))
        if typ == "str":
            vals = [draw(doc_string) for _ in range(nrows)]
        elif typ == "simple":
            vals = [draw(simple_string) for _ in range(nrows)]
            typ = "str"
        elif typ == "int":
            vals = [draw(st.integers(-10**9, 10**9)) for _ in range(nrows)]
        else:
            vals = [draw(st.floats(-1e9, 1e9)) for _ in range(nrows)]
        col = {"key": key, "type": typ, "values": vals}
        if typ == "float_var":
            col["variances"] = [(max(abs(v), 1e-3) * draw(st.floats(-5, 0).map(lambda e: 10.0**e))) ** 2 for v in vals]
        cols.append(col)
    return {"kind": "loop", "comment": draw(comment_text), "schema": draw(st.sampled_from([None, None, "core", "pd"])),
            "columns": cols}


@st.composite
def chunk_desc(draw, keys):
    n = draw(st.integers(1, 6))
    pairs = []
    for _ in range(n):
        key = draw(tag_name.filter(lambda k: k.lower() not in keys))
        keys.add(key.lower())
        pairs.append([key, draw(value_desc(strings=doc_string))])
    return {"kind": "chunk", "comment": draw(comment_text), "schema": draw(st.sampled_from([None, None, "core", "pd"])),
            "pairs": pairs}


@st.composite
def document_cases(draw):
    nblocks = draw(st.integers(1, 3))
    blocks = []
    names = set()
    for _ in range(nblocks):
        name = draw(st.text(alphabet=ASCII_PRINT.replace(" ", "") + "é", min_size=1, max_size=20)
                    .filter(lambda s: s.lower() not in names))
        names.add(name.lower())
        keys = set()
        items = []
        for _ in range(draw(st.integers(0, 5))):
            items.append(draw(st.one_of(chunk_desc(keys), loop_desc(keys))))
        blocks.append({"name": name, "comment": draw(comment_text), "schema": draw(st.sampled_from([None, None, "core"])),
                       "items": items})
    return {"comment": draw(comment_text), "blocks": blocks, "target": draw(TARGETS), "fname": draw(FILE_NAMES)}


def schema_obj(name):
    from scippneutron.io import cif

    return {None: None, "core": cif.CORE_SCHEMA, "pd": cif.PD_SCHEMA}[name]


def build_item(it):
    import scipp as sc
    from scippneutron.io import cif

    if it["kind"] == "chunk":
        return cif.Chunk([(k, build_value(v)) for k, v in it["pairs"]], comment=it["comment"], schema=schema_obj(it["schema"]))
    cols = {}
    for c in it["columns"]:
        if c["type"] == "str":
            cols[c["key"]] = sc.array(dims=["row"], values=c["values"])
        elif c["type"] == "int":
            cols[c["key"]] = sc.array(dims=["row"], values=c["values"], dtype="int64", unit=None)
        else:
            cols[c["key"]] = sc.array(dims=["row"], values=c["values"], variances=c.get("variances"), dtype="float64")
    return cif.Loop(cols, comment=it["comment"], schema=schema_obj(it["schema"]))


def expected_comment_lines(comment):
    enc = comment.encode("ascii", "backslashreplace").decode("ascii")
    return [] if not enc else enc.splitlines()


def compare_comments(parsed, expected_lines, text):
    """expected_lines: list of (line, exact?) ; parsed comments must be exactly these, in order."""
    got = parsed[1:]  # after the magic line
    if len(got) != len(expected_lines):
        raise Violation("comment-channel", f"{len(got)} comment lines parsed, {len(expected_lines)} supplied: "
                                           f"{got[:6]} vs {expected_lines[:6]}", {"text": text[:1500]})
    for g, e in zip(got, expected_lines, strict=True):
        if g.strip(" \t") != e.strip(" \t"):
            raise Violation("comment", f"comment line {g!r} does not match supplied {e!r}")


def flatten_expected(b):
    """Expected parse items of a block (without the schema loop): pairs one by one, loops whole."""
    out = []
    for it in b["items"]:
        if it["kind"] == "chunk":
            for k, v in it["pairs"]:
                out.append(("pair", "_" + k, expected_of(v)))
        else:
            tags = ["_" + c["key"] for c in it["columns"]]
            nrows = len(it["columns"][0]["values"])
            rows = []
            for r in range(nrows):
                row = []
                for c in it["columns"]:
                    if c["type"] == "str":
                        row.append(("str", c["values"][r]))
                    elif c["type"] == "int":
                        row.append(("int", c["values"][r]))
                    elif c["type"] == "float_var":
                        row.append(("float_su", c["values"][r], c["variances"][r]))
                    else:
                        row.append(("float", c["values"][r]))
                rows.append(row)
            out.append(("loop", tags, rows))
    return out


def compare_items(parsed_items, expected_items, where, text):
    if len(parsed_items) != len(expected_items):
        raise Violation("structure", f"{where}: {len(parsed_items)} items parsed "
                                     f"({[i[:2] if i[0] == 'pair' else ('loop', i[1]) for i in parsed_items][:8]}), "
                                     f"{len(expected_items)} supplied "
                                     f"({[i[:2] if i[0] == 'pair' else ('loop', i[1]) for i in expected_items][:8]})",
                        {"text": text[:2000]})
    for k, (p, e) in enumerate(zip(parsed_items, expected_items, strict=True)):
        w = f"{where} item {k}"
        if p[0] != e[0]:
            raise Violation("structure", f"{w}: parsed a {p[0]}, supplied a {e[0]}", {"text": text[:2000]})
        if p[0] == "pair":
            if p[1] != e[1]:
                raise Violation("tag", f"{w}: tag {p[1]!r}, supplied {e[1]!r}", {"text": text[:2000]})
            check_token(p[2], e[2], f"{w} {e[1]}")
        else:
            if p[1] != e[1]:
                raise Violation("tag", f"{w}: loop tags {p[1]}, supplied {e[1]}", {"text": text[:2000]})
            if len(p[2]) != len(e[2]):
                raise Violation("loop-shape", f"{w}: {len(p[2])} rows parsed, {len(e[2])} supplied", {"text": text[:2000]})
            for r, (pr, er) in enumerate(zip(p[2], e[2], strict=True)):
                for c, (pt, et) in enumerate(zip(pr, er, strict=True)):
                    check_token(pt, et, f"{w} row {r} {e[1][c]}")


def check_document_full(case):
    from scippneutron.io import cif

    labs = [f"nblocks:{len(case['blocks'])}"]
    all_strings = []
    for b in case["blocks"]:
        for it in b["items"]:
            if it["kind"] == "chunk":
                all_strings += [v["v"] for _, v in it["pairs"] if v["t"] in ("str", "sc_str")]
            else:
                for c in it["columns"]:
                    if c["type"] == "str":
                        all_strings += c["values"]
    nt = any(needs_quoting(s) for s in all_strings)
    if any("\n" in s for s in all_strings):
        labs.append("has-text-field")
    if any(it["kind"] == "loop" and any(c["type"] == "str" and any("\n" in s for s in c["values"]) for c in it["columns"])
           for b in case["blocks"] for it in b["items"]):
        labs.append("loop-with-text-field")
    if any(not s.isascii() for s in all_strings):
        labs.append("non-ascii-value")
    blocks_in = [cif.Block(b["name"], [build_item(it) for it in b["items"]], comment=b["comment"],
                           schema=schema_obj(b["schema"])) for b in case["blocks"]]
    try:
        text = write_doc(blocks_in, comment=case["comment"], target=case.get("target", "StringIO"),
                         fname=case.get("fname", "out.cif"))
        labs.append("target:" + case.get("target", "StringIO"))
    except ValueError as e:
        if any(not representable(s) for s in all_strings):
            return [*labs, "refused-unrepresentable"], True
        raise Violation("refused", f"document refused with ValueError: {e}") from None
    blocks, comments = parse_checked(text)
    if len(blocks) != len(case["blocks"]):
        raise Violation("structure", f"{len(blocks)} data blocks parsed, {len(case['blocks'])} supplied", {"text": text[:2000]})
    exp_comments = expected_comment_lines(case["comment"])
    for bi, (pb, b) in enumerate(zip(blocks, case["blocks"], strict=True)):
        if not text_matches(pb["name"], b["name"]):
            raise Violation("block-name", f"block name {pb['name']!r}, supplied {b['name']!r}")
        exp_comments += expected_comment_lines(b["comment"])
        items = list(pb["items"])
        schemas = {b["schema"]} | {it["schema"] for it in b["items"]}
        schemas.discard(None)
        if schemas:
            schemas.add("core")
            first = items[0] if items else None
            if first is None or first[0] != "loop" or first[1] != ["_audit_conform.dict_name", "_audit_conform.dict_version",
                                                                   "_audit_conform.dict_location"]:
                raise Violation("schema-loop", f"block {bi}: schema loop missing; first item {first and first[:2]}")
            got = sorted((r[0][1], r[1][1]) for r in first[2])
            want = sorted(SCHEMAS[s] for s in schemas)
            if got != want:
                raise Violation("schema-loop", f"block {bi}: schemas {got}, expected {want}")
            items = items[1:]
            labs.append("schema-loop")
        compare_items(items, flatten_expected(b), f"block {bi}", text)
        for it in b["items"]:
            exp_comments += expected_comment_lines(it["comment"])
    compare_comments(comments, exp_comments, text)
    if exp_comments:
        labs.append("comments")
    return labs, nt


# ------------------------------------------------------------------ facet 4: tags that are not CIF data names


@st.composite
def odd_tag_cases(draw):
    cls = draw(st.sampled_from(["blank", "blank", "tab", "newline", "empty", "non-ascii", "non-ascii", "trailing-blank"]))
    a, b = draw(word), draw(word)
    odd = {"blank": a + " " + b, "tab": a + "\t" + b, "newline": a + "\n" + b, "empty": "",
           "non-ascii": a + draw(st.sampled_from(["é", "λ", "漢", "Å"])) + draw(st.sampled_from(["", b])),
           "trailing-blank": a + " "}[cls]
    keys = [draw(tag_name), odd, draw(tag_name)]
    assume(len({k.lower() for k in keys}) == 3)
    return {"cls": cls, "kind": draw(st.sampled_from(["chunk", "loop", "chunk-setitem", "loop-setitem"])),
            "keys": keys[draw(st.integers(0, 1)):], "nrows": draw(st.integers(1, 3))}


def check_odd_tag(case):
    """A tag (dict key / column name) that is not a CIF data name: containing blanks or line breaks,
    empty, or non-ASCII.  The statement quantifies over *any document produced from chunks, loops,
    blocks*: whatever is written must be valid CIF 1.1 in which no value is mistaken for a tag --
    so such a tag must be refused (ValueError, as the package does for block names) or, for
    non-ASCII tags, escaped to ASCII; it must never be written as it is."""
    import scipp as sc
    from scippneutron.io import cif

    keys, n = case["keys"], case["nrows"]
    labs = ["tag:" + case["cls"], "kind:" + case["kind"]]
    if case["cls"] in ("blank", "tab", "newline", "trailing-blank"):
        # the same text as a *block name*: 'data_a b' would end the name at the blank
        odd = next(k for k in keys if k != k.strip() or any(c.isspace() for c in k))
        for how in ("constructor", "setter"):
            try:
                if how == "constructor":
                    blk = cif.Block(odd, [{"a": 1}])
                else:
                    blk = cif.Block("fine", [{"a": 1}])
                    blk.name = odd
                text = write_doc([blk])
            except Exception:  # noqa: BLE001 - refusal is the expected outcome
                continue
            raise Violation("odd-block-name-written", f"a block named {odd!r} (via the {how}) was written instead of "
                                                      f"refused", {"text": text[:300]})
        labs.append("block-name-refused")
    try:
        if case["kind"] == "chunk":
            item = cif.Chunk({k: i for i, k in enumerate(keys)})
        elif case["kind"] == "chunk-setitem":
            item = cif.Chunk({})
            for i, k in enumerate(keys):
                item[k] = i
        elif case["kind"] == "loop":
            item = cif.Loop({k: sc.arange("row", i, i + n, unit=None) for i, k in enumerate(keys)})
        else:
            item = cif.Loop({})
            for i, k in enumerate(keys):
                item[k] = sc.arange("row", i, i + n, unit=None)
        text = write_doc([cif.Block("b", [item])])
    except Exception as e:  # noqa: BLE001 - a refusal is the expected outcome; its type is not stated
        return [*labs, "refused", "refused-with:" + type(e).__name__], True
    if case["cls"] != "non-ascii":
        raise Violation("odd-tag-written", f"a {case['kind']} with the tag {keys[-2] if len(keys) == 3 else keys[0]!r} "
                        f"(keys {keys!r}) was written instead of refused", {"text": text[:600]})
    blocks, _ = parse_checked(text)
    items = blocks[0]["items"] if blocks else []
    if case["kind"].startswith("chunk"):
        got = [(it[1], it[2][1]) for it in items if it[0] == "pair"]
        want = [(k, str(i)) for i, k in enumerate(keys)]
    else:
        loops = [it for it in items if it[0] == "loop"]
        got = [(t, [r[j][1] for r in loops[0][2]]) for j, t in enumerate(loops[0][1])] if loops else []
        want = [(k, [str(i + r) for r in range(n)]) for i, k in enumerate(keys)]
    ok = len(got) == len(want) and all(
        t.startswith("_") and text_matches(t[1:], k) and v == w for (t, v), (k, w) in zip(got, want, strict=False))
    if not ok:
        raise Violation("odd-tag-roundtrip", f"keys {keys!r} parsed back as {got!r}, expected {want!r}", {"text": text[:600]})
    return [*labs, "escaped"], True


# ------------------------------------------------------------------ facet 3: high-level builder programs


def orcid(digits15):
    total = 0
    for d in digits15:
        total = (total + d) * 2
    rem = total % 11
    chk = (12 - rem) % 11
    s = "".join(map(str, digits15)) + ("X" if chk == 10 else str(chk))
    return "-".join(s[i:i + 4] for i in range(0, 16, 4))


person_text = st.one_of(word, st.lists(word, min_size=1, max_size=3).map(" ".join), doc_string.filter(lambda s: s.strip() != ""))


@st.composite
def person_desc(draw):
    return {
        "name": draw(person_text),
        "orcid": draw(st.one_of(st.none(), st.lists(st.integers(0, 9), min_size=15, max_size=15))),
        "corresponding": draw(st.booleans()),
        "role": draw(st.one_of(st.none(), st.none(), person_text)),
        "address": draw(st.one_of(st.none(), st.none(), person_text)),
        "email": draw(st.one_of(st.none(), st.none(), st.tuples(word, word).map(lambda t: f"{t[0]}@{t[1]}.org"))),
    }


@st.composite
def builder_op(draw):
    op = draw(st.sampled_from(["authors", "authors", "beamline", "reducers", "powder", "calibration", "copy", "save"]))
    if op == "authors":
        return {"op": op, "persons": [draw(person_desc()) for _ in range(draw(st.integers(0, 4)))]}
    if op == "beamline":
        return {"op": op, "name": draw(person_text), "facility": draw(st.one_of(st.none(), person_text, st.sampled_from(["ESS", "isis", "SNS"]))),
                "source": draw(st.sampled_from([None, None, "spallation", "reactor", "synchrotron"])),
                "comment": draw(comment_text)}
    if op == "reducers":
        return {"op": op, "items": [draw(person_text) for _ in range(draw(st.integers(0, 3)))]}
    if op == "powder":
        n = draw(st.integers(1, 8))
        return {"op": op, "dim": draw(st.sampled_from(["tof", "dspacing"])),
                "coord": [draw(st.floats(0.1, 1e5)) for _ in range(n)],
                "coord_var": draw(st.one_of(st.none(), st.just([draw(st.floats(1e-6, 10)) for _ in range(n)]))),
                "data": [draw(st.floats(-1e4, 1e6)) for _ in range(n)],
                "data_var": draw(st.one_of(st.none(), st.just([draw(st.floats(1e-6, 1e4)) for _ in range(n)]))),
                "name": draw(st.sampled_from([None, "intensity_net", "intensity_norm", "intensity_total"])),
                "unit": draw(st.sampled_from(["one", "counts", "m"])), "comment": draw(comment_text)}
    if op == "calibration":
        n = draw(st.integers(1, 4))
        return {"op": op, "powers": [draw(st.one_of(st.integers(-2, 3), st.sampled_from([0.5, -1.5]))) for _ in range(n)],
                "coeffs": [draw(st.floats(-1e4, 1e4)) for _ in range(n)],
                "var": draw(st.one_of(st.none(), st.just([draw(st.floats(1e-9, 10)) for _ in range(n)]))),
                "comment": draw(comment_text)}
    return {"op": op}


@st.composite
def builder_cases(draw):
    ops = [draw(builder_op()) for _ in range(draw(st.integers(0, 7)))]
    # at most one powder/calibration/beamline each: their tags would repeat within the block otherwise
    seen = set()
    out = []
    for o in ops:
        if o["op"] in ("powder", "calibration", "beamline", "reducers"):
            if o["op"] in seen:
                continue
            seen.add(o["op"])
        out.append(o)
    return {"name": draw(st.text(alphabet="abcdefghijklmnopqrstuvwxyz-_0123456789", min_size=1, max_size=12)),
            "comment": draw(comment_text), "ops": out, "target": draw(TARGETS), "fname": draw(FILE_NAMES)}


class BuilderState:
    def __init__(self):
        self.authors, self.reducers, self.content = [], [], []


def apply_op(cif_, state, o):
    import scipp as sc
    from scippneutron import metadata

    op = o["op"]
    if op == "authors":
        persons = []
        for p in o["persons"]:
            oid = None if p["orcid"] is None else orcid(p["orcid"])
            # the ORCID iD carries a correct ISO 7064 mod 11-2 check digit: the author must be accepted
            with attributed(f"metadata.Person(name=..., orcid_id={oid!r}) with a valid ORCID iD"):
                persons.append(metadata.Person(name=p["name"], orcid_id=oid, corresponding=p["corresponding"],
                                               role=p["role"], address=p["address"], email=p["email"]))
        state.authors += list(zip(o["persons"], persons, strict=True))
        return cif_.with_authors(*persons)
    if op == "beamline":
        src = None
        if o["source"] is not None:
            st_, pr = {"spallation": ("SpallationNeutronSource", "Neutron"), "reactor": ("ReactorNeutronSource", "Neutron"),
                       "synchrotron": ("SynchrotronXraySource", "Xray")}[o["source"]]
            src = metadata.Source(source_type=getattr(metadata.SourceType, st_), probe=getattr(metadata.RadiationProbe, pr))
        state.content.append(o)
        return cif_.with_beamline(metadata.Beamline(name=o["name"], facility=o["facility"]), src, comment=o["comment"])
    if op == "reducers":
        state.reducers += o["items"]
        return cif_.with_reducers(*o["items"])
    if op == "powder":
        unit = {"tof": "us", "dspacing": "angstrom"}[o["dim"]]
        coord = sc.array(dims=[o["dim"]], values=o["coord"], variances=o["coord_var"], unit=unit)
        data = sc.array(dims=[o["dim"]], values=o["data"], variances=o["data_var"], unit=o["unit"])
        da = sc.DataArray(data, coords={o["dim"]: coord})
        if o["name"] is not None:
            da.name = o["name"]
        state.content.append(o)
        return cif_.with_reduced_powder_data(da, comment=o["comment"])
    if op == "calibration":
        powers = o["powers"]
        pw = sc.array(dims=["cal"], values=powers, unit=None) if all(isinstance(p, int) for p in powers) else \
            sc.array(dims=["cal"], values=[float(p) for p in powers], unit=None)
        cal = sc.DataArray(sc.array(dims=["cal"], values=o["coeffs"], variances=o["var"]), coords={"power": pw})
        state.content.append(o)
        return cif_.with_powder_calibration(cal, comment=o["comment"])
    if op == "copy":
        return cif_.copy()
    return cif_


def author_fields(persons_desc, persons):
    """(ordered field list, per-author dicts) for one category, from the input objects."""
    cols = []
    vals = {}
    for key in ("name", "email", "address"):
        v = [("" if getattr(p, key) is None else str(getattr(p, key))) for p in persons]
        if any(v):
            cols.append(key)
            vals[key] = v
    v = [("" if p.orcid_id is None else str(p.orcid_id)) for p in persons]
    if any(v):
        cols.append("id_orcid")
        vals["id_orcid"] = v
    has_roles = any(p.role for p in persons)
    return cols, vals, has_roles


def verify_save(cif_, state, case, text):
    import scippneutron

    blocks, comments = parse_checked(text)
    if len(blocks) != 1 or blocks[0]["name"] != case["name"]:
        raise Violation("structure", f"blocks {[b['name'] for b in blocks]}, expected one named {case['name']!r}")
    items = list(blocks[0]["items"])
    pos = 0

    def take():
        nonlocal pos
        if pos >= len(items):
            raise Violation("structure", "fewer items in the file than supplied", {"text": text[:2500]})
        pos += 1
        return items[pos - 1]

    # schema loop
    it = take()
    want_schemas = {"core"} | ({"pd"} if any(o["op"] in ("powder", "calibration") for o in state.content) else set())
    if it[0] != "loop" or it[1][0] != "_audit_conform.dict_name":
        raise Violation("schema-loop", f"first item is {it[:2]}")
    if sorted((r[0][1], r[1][1]) for r in it[2]) != sorted(SCHEMAS[s] for s in want_schemas):
        raise Violation("schema-loop", f"schemas {[r[0][1] for r in it[2]]}, expected {sorted(want_schemas)}")
    # audit chunk
    it = take()
    if it[:2] != ("pair", "_audit.creation_date"):
        raise Violation("structure", f"expected _audit.creation_date, got {it[:2]}", {"text": text[:2500]})
    try:
        datetime.datetime.fromisoformat(it[2][1])
    except ValueError:
        raise Violation("value", f"creation date {it[2][1]!r} is not an ISO datetime") from None
    it = take()
    if it[:2] != ("pair", "_audit.creation_method"):
        raise Violation("structure", f"expected _audit.creation_method, got {it[:2]}")
    check_token(it[2], ("str", f"Written by scippneutron {scippneutron.__version__}"), "_audit.creation_method")
    if len(state.reducers) == 1:
        it = take()
        if it[:2] != ("pair", "_computing.diffrn_reduction"):
            raise Violation("structure", f"expected _computing.diffrn_reduction, got {it[:2]}", {"text": text[:2500]})
        check_token(it[2], ("str", state.reducers[0]), "_computing.diffrn_reduction")
    elif len(state.reducers) > 1:
        it = take()
        exp = ("loop", ["_computing.diffrn_reduction"], [[("str", r)] for r in state.reducers])
        compare_items([it], [exp], "reducers", text)
    # authors
    author_ids = {}     # id -> name
    role_expect = []    # (name, role) in file order
    for category, flag in (("audit_contact_author", True), ("audit_author", False)):
        group = [(d, p) for d, p in state.authors if p.corresponding == flag]
        if not group:
            continue
        persons = [p for _, p in group]
        cols, vals, has_roles = author_fields(None, persons)
        tags = [f"_{category}.{c}" for c in cols] + ([f"_{category}.id"] if has_roles else [])
        if len(persons) == 1:
            got_id = None
            for c, tag in zip([*cols, "id"][:len(tags)], tags, strict=True):
                it = take()
                if it[:2] != ("pair", tag):
                    raise Violation("structure", f"authors: expected {tag}, got {it[:2]}", {"text": text[:2500]})
                if c == "id":
                    got_id = it[2][1]
                else:
                    check_token(it[2], ("str", vals[c][0]), tag)
            ids = [got_id]
        else:
            it = take()
            if it[0] != "loop" or it[1] != tags:
                raise Violation("structure", f"authors: expected loop {tags}, got {it[:2]}", {"text": text[:2500]})
            if len(it[2]) != len(persons):
                raise Violation("loop-shape", f"authors: {len(it[2])} rows for {len(persons)} authors")
            ids = []
            for r, row in enumerate(it[2]):
                for c, tok in zip([*cols, "id"][:len(tags)], row, strict=True):
                    if c == "id":
                        ids.append(tok[1])
                    else:
                        check_token(tok, ("str", vals[c][r]), f"{tags[0]} row {r}")
            if not has_roles:
                ids = [None] * len(persons)
        for pid, p in zip(ids, persons, strict=True):
            if pid is not None:
                if pid in author_ids:
                    raise Violation("duplicate-id", f"author id {pid!r} used twice in one file")
                author_ids[pid] = p
            if p.role:
                role_expect.append(p)
    if role_expect:
        it = take()
        if it[0] != "loop" or it[1] != ["_audit_author_role.id", "_audit_author_role.role"]:
            raise Violation("structure", f"expected the role loop, got {it[:2]}", {"text": text[:2500]})
        if len(it[2]) != len(role_expect):
            raise Violation("loop-shape", f"{len(it[2])} role rows for {len(role_expect)} authors with roles")
        seen = set()
        for row, p in zip(it[2], role_expect, strict=True):
            rid = row[0][1]
            if rid in seen:
                raise Violation("duplicate-id", f"role id {rid!r} listed twice")
            seen.add(rid)
            if rid not in author_ids:
                raise Violation("dangling-role", f"role id {rid!r} does not refer to any author id {sorted(author_ids)}")
            if author_ids[rid] is not p:
                raise Violation("wrong-role", f"role {p.role!r} of {p.name!r} is attached to author {author_ids[rid].name!r}")
            check_token(row[1], ("str", p.role), "_audit_author_role.role")
    # content
    exp_comments = expected_comment_lines(case["comment"])
    for o in state.content:
        if o["op"] == "beamline":
            exp_comments += expected_comment_lines(o["comment"])
            allowed = {"_diffrn_radiation.probe", "_diffrn_source.device"}
            need = [("_diffrn_source.beamline", o["name"])] + ([("_diffrn_source.facility", o["facility"])] if o["facility"] is not None else [])
            while need:
                it = take()
                if it[0] != "pair":
                    raise Violation("structure", f"beamline: got {it[:2]}", {"text": text[:2500]})
                if it[1] == need[0][0]:
                    check_token(it[2], ("str", need[0][1]), it[1])
                    need.pop(0)
                elif it[1] not in allowed:
                    raise Violation("structure", f"beamline: unexpected tag {it[1]}", {"text": text[:2500]})
            while pos < len(items) and items[pos][0] == "pair" and items[pos][1] in allowed:
                take()
        elif o["op"] == "powder":
            c = o["comment"]
            if o["unit"] != "one":
                import scipp as sc

                c = (c + "\n" if c else "") + f"Unit of intensity: [{sc.Unit(o['unit'])}]"
            exp_comments += expected_comment_lines(c)
            cname = {"tof": "_pd_meas.time_of_flight", "dspacing": "_pd_proc.d_spacing"}[o["dim"]]
            dname = "_pd_proc." + (o["name"] or "intensity_norm")
            tags = ["_pd_data.point_id", cname] + ([cname + "_su"] if o["coord_var"] else []) + [dname] + \
                   ([dname + "_su"] if o["data_var"] else [])
            rows = []
            for i in range(len(o["coord"])):
                row = [("int", i), ("float", o["coord"][i])]
                if o["coord_var"]:
                    row.append(("float", math.sqrt(o["coord_var"][i])))
                row.append(("float", o["data"][i]))
                if o["data_var"]:
                    row.append(("float", math.sqrt(o["data_var"][i])))
                rows.append(row)
            compare_items([take()], [("loop", tags, rows)], "powder data", text)
        elif o["op"] == "calibration":
            exp_comments += expected_comment_lines(o["comment"])
            it = take()
            tags = ["_pd_calib_d_to_tof.id", "_pd_calib_d_to_tof.power", "_pd_calib_d_to_tof.coeff"] + \
                   (["_pd_calib_d_to_tof.coeff_su"] if o["var"] else [])
            if it[0] != "loop" or it[1] != tags or len(it[2]) != len(o["powers"]):
                raise Violation("structure", f"calibration loop parsed as {it[:2]}", {"text": text[:2500]})
            for r, row in enumerate(it[2]):
                p = o["powers"][r]
                all_int = all(isinstance(q, int) for q in o["powers"])
                check_token(row[1], ("int", p) if all_int else ("float", float(p)), "calibration power")
                check_token(row[2], ("float", o["coeffs"][r]), "calibration coeff")
                if o["var"]:
                    check_token(row[3], ("float", math.sqrt(o["var"][r])), "calibration coeff_su")
    if pos != len(items):
        raise Violation("structure", f"{len(items) - pos} unexpected extra items: {[i[:2] for i in items[pos:]][:5]}",
                        {"text": text[:2500]})
    compare_comments(comments, exp_comments, text)


def check_builder(case):
    from scippneutron.io import cif

    labs = [f"nops:{len(case['ops'])}"]
    cif_ = cif.CIF(case["name"], comment=case["comment"])
    state = BuilderState()
    saves = 0
    strings = []
    for o in [*case["ops"], {"op": "save"}, {"op": "save"}]:
        labs.append("op:" + o["op"])
        if o["op"] == "save":
            try:
                text = write_via(cif_.save, case.get("target", "StringIO"), case.get("fname", "out.cif"))
            except ValueError as e:
                if any(not representable(s) for s in strings):
                    return [*labs, "refused-unrepresentable"], True
                raise Violation("refused", f"save refused with ValueError: {e}") from None
            verify_save(cif_, state, case, text)
            saves += 1
        else:
            cif_ = apply_op(cif_, state, o)
            if o["op"] == "authors":
                for p in o["persons"]:
                    strings += [x for x in (p["name"], p["role"], p["address"]) if x]
            elif o["op"] == "beamline":
                strings += [x for x in (o["name"], o["facility"]) if x]
            elif o["op"] == "reducers":
                strings += o["items"]
    roles = any(p.role for _, p in state.authors)
    if roles:
        labs.append("authors-with-roles")
    if len(state.authors) > 1:
        labs.append("author-loop")
    nt = roles or any(needs_quoting(s) for s in strings) or bool(state.content)
    return labs, nt


FACETS = [
    Facet("values", check_value, strategy=lambda tier: value_cases(),
          quick=(4, 1500), thorough=(16, 20000), min_nontrivial=0.2,
          fuzz_runs=300000, fuzz_instrument=("scippneutron.io.cif",),
          doc="one value (pair or loop cell, optionally with a neighbour) written and parsed back"),
    Facet("documents", check_document_full, strategy=lambda tier: document_cases(),
          quick=(6, 250), thorough=(16, 4000), min_nontrivial=0.3,
          fuzz_runs=60000, fuzz_instrument=("scippneutron.io.cif",),
          doc="multi-block documents of chunks and loops with comments and schemas"),
    Facet("builder", check_builder, strategy=lambda tier: builder_cases(),
          quick=(6, 200), thorough=(16, 3000), min_nontrivial=0.3,
          doc="high-level CIF builder programs incl. authors/roles/ids, beamline, reducers, powder data, calibration"),
    Facet("odd_tags", check_odd_tag, strategy=lambda tier: odd_tag_cases(),
          quick=(1, 300), thorough=(4, 2000), min_nontrivial=0.5,
          doc="chunks / loops whose tag contains blanks, line breaks, nothing or non-ASCII text: refused, or "
              "(non-ASCII) escaped; never written as it is"),
]


def selftest():
    ref.selftest()
    assert text_matches(" a b\n", "a b") and not text_matches("ab", "a b")
    assert text_matches("caf\\xe9 x", "café x") and not text_matches("caf x", "café x")
    assert _su_ok("13.6(8)", 13.6, 0.7) and _su_ok("123456.79(10)", 123456.789, 0.01) and _su_ok("12000(2000)", 12345.0, 4e6)
    assert not _su_ok("13.6(8)", 13.9, 0.7) and not _su_ok("13.6(8)", 13.6, 0.07)
    assert orcid([0] * 14 + [0]) == "0000-0000-0000-0001"
