"""C04 — gravity-corrected scattering angles follow the documented construction on every path."""

import math

import mpmath as mp
import numpy as np
from hypothesis import strategies as st

from ..core import Facet, Violation
from ..gen import logfloat, unit_vector
from ..ref import kin, units

PROPERTY = "C04"
RULE = (
    "Hypothesis draws gravity (|g| in {1e-30, 1e-3..100 log-uniform, 9.80665} m/s^2, direction along a "
    "signed coordinate axis or anywhere on the sphere), an incident beam of length 1..100 (m, mm or cm; "
    "value >= 1) tilted out of the plane perpendicular to g by 0 exactly (axis-aligned g, zero component) or by "
    "1e-12..1 rad log-uniform of either sign, a detector direction uniform on the sphere (incl. "
    "backscattering and below the beam) at L2 = 0.1..100 m, 1..4 wavelengths from {0, 1e-3..100 angstrom "
    "log-uniform} in angstrom or nm, float64 or float32, dense or binned. Oracle: the documented "
    "construction in 50-digit arithmetic on the stored vectors: delta = |g| m_n^2 lambda^2 L2^2 / (2 h^2), "
    "2theta = Kahan angle(b1, b2 + delta*e_y) with e_y = -g/|g|, phi = atan2(y_d + delta, x_d) in the "
    "beam-aligned basis, gamma = atan2(|y_d + delta|, z_d). Non-trivial: the correction is visible "
    "(delta/L2 >= 1e-8); both dispatch paths (general: tilt > 0; optimised: tilt = 0) are labelled."
)
TOLERANCES = {"float64_rad": 1e-9, "float32_rad": 5e-6, "orthogonal_path_allowance": "2*1e-10/|b1|",
              "limit_rad": 1e-12, "continuity": "4*tilt + tolerance"}
ASSUMPTIONS = [
    "L2' ~ L2 approximation of the documentation is part of the documented construction",
    "phi is compared only when the raised beam is not within 1e-6 L2 of the beam axis (atan2 ill-conditioned)",
    "cases with |g.b1|/|g| <= 1.01e-10 (in the unit of b1) may legitimately take the optimised path; the "
    "tolerance is widened by twice the resulting misalignment 1e-10/|b1|",
]

L_UNITS = ["m", "mm", "cm"]
AXES = [[1.0, 0, 0], [0, 1.0, 0], [0, 0, 1.0], [-1.0, 0, 0], [0, -1.0, 0], [0, 0, -1.0]]

# ---------------------------------------------------------------------------- strategies

g_abs = st.one_of(st.just(9.80665), logfloat(-3, 2), logfloat(-3, 2), st.just(1e-30))
lam_value = st.one_of(st.just(0.0), logfloat(-3, 2), logfloat(-3, 2), logfloat(0, 1.5))
tilt_value = st.one_of(st.just(0.0), st.floats(-12, 0).map(lambda e: 10.0**e),
                       st.floats(-12, 0).map(lambda e: 10.0**e), st.floats(-3, 0).map(lambda e: 10.0**e))


@st.composite
def geometry(draw, tilt=None, axis_g=None):
    t = draw(tilt_value) if tilt is None else tilt
    use_axis = draw(st.booleans()) if axis_g is None else axis_g
    if t == 0.0:
        use_axis = True
    case = {
        "g_abs": draw(g_abs),
        "g_axis": draw(st.integers(0, 5)) if use_axis else None,
        "g_dir": None if use_axis else draw(unit_vector()),
        "b1_len": draw(st.floats(1.0, 100.0)),
        "b1_unit": draw(st.sampled_from(L_UNITS)),
        "azimuth": draw(st.floats(0, 2 * math.pi)),
        "tilt": t,
        "tilt_sign": draw(st.sampled_from([1, -1])),
        "det_dir": draw(unit_vector()),
        "L2": draw(logfloat(-1, 2)),
        "b2_unit": draw(st.sampled_from(L_UNITS)),
    }
    return case


@st.composite
def full_cases(draw, tilt=None, axis_g=None, layouts=("dense", "dense", "binned")):
    case = draw(geometry(tilt=tilt, axis_g=axis_g))
    n = draw(st.integers(1, 4))
    case["lam"] = draw(st.lists(lam_value, min_size=n, max_size=n))
    # (metres: with beams in metres this is the unit the kernel converts to, so its conversion is a no-op)
    case["lam_unit"] = draw(st.sampled_from(["angstrom", "angstrom", "nm", "m"]))
    case["lam_dtype"] = draw(st.sampled_from(["float64", "float64", "float32"]))
    case["layout"] = draw(st.sampled_from(list(layouts)))
    return case


# ---------------------------------------------------------------------------- building


def vectors(case, tilt=None):
    """Stored float64 vectors (values in their units): g [m/s^2], b1 [b1_unit], b2 [b2_unit]."""
    tilt = case["tilt"] if tilt is None else tilt
    if case["g_axis"] is not None:
        ghat = np.array(AXES[case["g_axis"]], dtype=float)
        k = int(np.argmax(np.abs(ghat)))
        h1 = np.zeros(3)
        h1[(k + 1) % 3] = 1.0
        h2 = np.zeros(3)
        h2[(k + 2) % 3] = 1.0
    else:
        ghat = np.array(case["g_dir"], dtype=float)
        ghat /= np.linalg.norm(ghat)
        a = np.array([1.0, 0, 0]) if abs(ghat[0]) < 0.9 else np.array([0, 1.0, 0])
        h1 = np.cross(ghat, a)
        h1 /= np.linalg.norm(h1)
        h2 = np.cross(ghat, h1)
    ey = -ghat
    h = math.cos(case["azimuth"]) * h1 + math.sin(case["azimuth"]) * h2
    g = case["g_abs"] * ghat
    if tilt == 0.0:
        b1 = case["b1_len"] * h
    else:
        b1 = case["b1_len"] * (math.cos(tilt) * h + math.sin(tilt) * case["tilt_sign"] * ey)
    b2 = case["L2"] / float(units.LENGTH[case["b2_unit"]]) * np.array(case["det_dir"], dtype=float)
    return g, b1, b2


def stored_lambda(case):
    f = {"angstrom": 1.0, "nm": 0.1, "m": 1e-10}[case["lam_unit"]]
    vals = np.array([v * f for v in case["lam"]], dtype=case["lam_dtype"])
    return vals


def call(case, fn_name, tilt=None, lam=None, layout=None):
    import scipp as sc
    from scippneutron.conversion import beamline as bl

    g, b1, b2 = vectors(case, tilt)
    lam = stored_lambda(case) if lam is None else lam
    layout = case["layout"] if layout is None else layout
    if layout == "binned":
        n = len(lam)
        ev = sc.DataArray(sc.ones(dims=["event"], shape=[n], unit="counts"),
                          coords={"wavelength": sc.array(dims=["event"], values=lam, unit=case["lam_unit"],
                                                         dtype=case["lam_dtype"])})
        cut = n // 2
        wl = sc.bins(begin=sc.array(dims=["bin"], values=[0, 0, cut], unit=None, dtype="int64"),
                     end=sc.array(dims=["bin"], values=[0, cut, n], unit=None, dtype="int64"),
                     dim="event", data=ev).bins.coords["wavelength"]
    else:
        wl = sc.array(dims=["wavelength"], values=lam, unit=case["lam_unit"], dtype=case["lam_dtype"])
    args = {
        "incident_beam": sc.vector(b1, unit=case["b1_unit"]),
        "scattered_beam": sc.vector(b2, unit=case["b2_unit"]),
        "wavelength": wl,
        "gravity": sc.vector(g, unit="m/s^2"),
    }
    before = {k: v.copy() for k, v in args.items()}
    out = getattr(bl, fn_name)(**args)
    # the same operand objects must be usable again: unchanged, and giving the same answer
    for k, v in args.items():
        if not sc.identical(v, before[k], equal_nan=True):
            raise Violation("operand-modified", f"{fn_name} modified its operand {k!r} "
                                                f"(unit {before[k].unit if before[k].bins is None else before[k].bins.unit})")
    again = getattr(bl, fn_name)(**args)
    pairs = zip(out.values(), again.values(), strict=True) if isinstance(out, dict) else [(out, again)]
    for a_, b_ in pairs:
        if not sc.identical(a_, b_, equal_nan=True):
            raise Violation("not-repeatable", f"{fn_name} gives a different result when called again with the same operands")
    return out, lam


def flat_values(var, layout):
    if layout == "binned":
        return np.asarray(var.bins.constituents["data"].values, dtype=np.float64)
    return np.asarray(var.values, dtype=np.float64).reshape(-1)


# ---------------------------------------------------------------------------- oracle


def reference(case, lam_stored, tilt=None):
    """Per wavelength: dict with two_theta, phi, gamma, delta/L2, rho/L2 and the misalignment allowance."""
    g, b1, b2 = vectors(case, tilt)
    gm = kin.vec(g)
    b1m = [x * units.LENGTH[case["b1_unit"]] for x in kin.vec(b1)]
    b2m = [x * units.LENGTH[case["b2_unit"]] for x in kin.vec(b2)]
    gn = kin.norm(gm)
    ey = [-x / gn for x in gm]
    d = kin.dot(b1m, ey)
    zp = [p - d * q for p, q in zip(b1m, ey, strict=True)]
    zn = kin.norm(zp)
    ez = [x / zn for x in zp]
    ex = kin.cross(ey, ez)
    L2 = kin.norm(b2m)
    xd, yd, zd = kin.dot(b2m, ex), kin.dot(b2m, ey), kin.dot(b2m, ez)
    # misalignment allowed by the dispatch threshold (absolute 1e-10 in the unit of b1)
    b1_val = kin.vec(b1)
    gb = abs(kin.dot(gm, b1_val)) / gn
    may_be_orthogonal_path = gb <= mp.mpf("1.01e-10")
    allowance = 2 * mp.mpf("1e-10") / kin.norm(b1_val) if may_be_orthogonal_path else mp.mpf(0)
    lam_factor = {"angstrom": units.LENGTH["angstrom"], "nm": units.LENGTH["nm"], "m": units.LENGTH["m"]}[case["lam_unit"]]
    out = []
    for lv in lam_stored:
        lam = mp.mpf(float(lv)) * lam_factor
        delta = kin.gravity_drop(gn, lam, L2)
        raised = [p + delta * q for p, q in zip(b2m, ey, strict=True)]
        tt = kin.kahan_angle(b1m, raised)
        yp = yd + delta
        out.append({
            "two_theta": tt, "phi": mp.atan2(yp, xd), "gamma": mp.atan2(abs(yp), zd),
            "delta_rel": delta / L2, "rho_rel": mp.sqrt(xd * xd + yp * yp) / L2,
            "free": kin.kahan_angle(b1m, b2m), "yd": yd, "zd": zd, "allow": allowance,
            "orth": may_be_orthogonal_path, "yz_rho_rel": mp.sqrt(yp * yp + zd * zd) / L2,
        })
    return out


def tol_for(case, r):
    base = mp.mpf("1e-9") if case["lam_dtype"] == "float64" else mp.mpf("5e-6")
    return base + r["allow"]


def labels_of(case, refs):
    labs = ["path:" + ("optimised(tilt=0)" if case["tilt"] == 0.0 else "general"),
            "lam:" + case["lam_dtype"], "layout:" + case["layout"], "b1:" + case["b1_unit"],
            "b2:" + case["b2_unit"], "g:" + ("axis" if case["g_axis"] is not None else "generic")]
    if case["tilt"] != 0.0:
        labs.append("tilt:1e%d" % math.floor(math.log10(case["tilt"])))
    vis = any(r["delta_rel"] >= mp.mpf("1e-8") for r in refs)
    labs.append("correction:" + ("visible" if vis else "invisible"))
    if any(r["zd"] < 0 for r in refs):
        labs.append("backscattering")
    if any(r["yd"] < 0 for r in refs):
        labs.append("detector-below-beam")
    if case["g_abs"] == 1e-30:
        labs.append("g->0")
    if any(v == 0.0 for v in case["lam"]):
        labs.append("lambda=0")
    return labs, vis


def angle_err(got, ref):
    return abs(mp.mpf(float(got)) - ref)


# ---------------------------------------------------------------------------- facets


def check_construction(case):
    out, lam = call(case, "scattering_angles_with_gravity")
    refs = reference(case, lam)
    labs, vis = labels_of(case, refs)
    tt = flat_values(out["two_theta"], case["layout"])
    ph = flat_values(out["phi"], case["layout"])
    if str(out["two_theta"].bins.constituents["data"].dtype if case["layout"] == "binned"
           else out["two_theta"].dtype) != case["lam_dtype"]:
        raise Violation("dtype", "two_theta dtype differs from the wavelength's precision class")
    if len(tt) != len(refs) or len(ph) != len(refs):
        raise Violation("shape", f"{len(tt)} two_theta / {len(ph)} phi values for {len(refs)} wavelengths")
    import scipp as sc

    for name in ("two_theta", "phi"):
        u = out[name].bins.unit if case["layout"] == "binned" else out[name].unit
        if u != sc.Unit("rad"):
            raise Violation("unit", f"{name} has unit {u}")
    for i, r in enumerate(refs):
        tol = tol_for(case, r)
        e = angle_err(tt[i], r["two_theta"])
        if not math.isfinite(tt[i]) or e > tol:
            raise Violation(
                "two_theta", f"two_theta = {tt[i]!r}, documented construction gives {mp.nstr(r['two_theta'], 17)} "
                f"(gravity-free {mp.nstr(r['free'], 12)}, delta/L2 = {mp.nstr(r['delta_rel'], 3)}, tilt = {case['tilt']!r}); "
                f"error {mp.nstr(e, 3)} > {mp.nstr(tol, 3)}")
        if r["rho_rel"] > mp.mpf("1e-6"):
            ptol = tol / min(r["rho_rel"], 1) * (1 if case["lam_dtype"] == "float64" else 1)
            e = angle_err(ph[i], r["phi"])
            e = min(e, abs(e - 2 * mp.pi))
            if not math.isfinite(ph[i]) or e > ptol:
                raise Violation("phi", f"phi = {ph[i]!r}, documented construction gives {mp.nstr(r['phi'], 17)}; "
                                       f"error {mp.nstr(e, 3)} > {mp.nstr(ptol, 3)}")
    return labs, vis


@st.composite
def continuity_cases(draw):
    case = draw(full_cases(tilt=0.0, axis_g=True, layouts=("dense",)))
    case["eps"] = draw(st.floats(-9, -7).map(lambda e: 10.0**e))
    case["lam_dtype"] = "float64"
    return case


def check_continuity(case):
    out0, lam = call(case, "scattering_angles_with_gravity", tilt=0.0)
    out1, _ = call(case, "scattering_angles_with_gravity", tilt=case["eps"])
    refs = reference(case, lam, tilt=0.0)
    labs, vis = labels_of(case, refs)
    a = flat_values(out0["two_theta"], "dense")
    b = flat_values(out1["two_theta"], "dense")
    bound = 4 * case["eps"] + 1e-9
    for i in range(len(a)):
        if not abs(a[i] - b[i]) <= bound:
            raise Violation(
                "discontinuous", f"two_theta jumps from {a[i]!r} (tilt 0) to {b[i]!r} (tilt {case['eps']!r}): "
                f"|diff| = {abs(a[i] - b[i]):.3e} > {bound:.3e}; delta/L2 = {mp.nstr(refs[i]['delta_rel'], 3)}")
    pa = flat_values(out0["phi"], "dense")
    pb = flat_values(out1["phi"], "dense")
    for i, r in enumerate(refs):
        if r["rho_rel"] > mp.mpf("1e-3"):
            d = abs(pa[i] - pb[i])
            d = min(d, abs(d - 2 * math.pi))
            if not d <= (4 * case["eps"] + 1e-9) / float(r["rho_rel"]):
                raise Violation("discontinuous-phi", f"phi jumps from {pa[i]!r} to {pb[i]!r} at tilt {case['eps']!r}")
    return [*labs, "eps:1e%d" % math.floor(math.log10(case["eps"]))], vis


@st.composite
def limit_cases(draw):
    kind = draw(st.sampled_from(["lambda=0", "g->0", "above-horizontal-beam"]))
    if kind == "above-horizontal-beam":
        case = draw(full_cases(tilt=0.0, axis_g=True, layouts=("dense",)))
        case["g_abs"] = draw(st.one_of(st.just(9.80665), logfloat(-1, 2)))
        case["lam"] = [draw(logfloat(0, 2)) for _ in case["lam"]]
    else:
        case = draw(full_cases(layouts=("dense",)))
        if kind == "lambda=0":
            case["lam"] = [0.0 for _ in case["lam"]]
        else:
            case["g_abs"] = 1e-30
    case["kind"] = kind
    case["lam_dtype"] = "float64"
    return case


def check_limits(case):
    out, lam = call(case, "scattering_angles_with_gravity")
    refs = reference(case, lam)
    labs, _ = labels_of(case, refs)
    labs.append("limit:" + case["kind"])
    tt = flat_values(out["two_theta"], "dense")
    nt = False
    for i, r in enumerate(refs):
        if case["kind"] in ("lambda=0", "g->0"):
            tol = mp.mpf("1e-12") + r["allow"] + 4 * r["delta_rel"]
            e = angle_err(tt[i], r["free"])
            if e > tol:
                raise Violation("limit", f"{case['kind']}: two_theta = {tt[i]!r}, gravity-free angle "
                                         f"{mp.nstr(r['free'], 17)}; error {mp.nstr(e, 3)}")
            nt = True
        else:
            # detector above a horizontal beam, in the forward hemisphere, correction visible
            # (the exact construction must itself be larger by more than the float tolerance)
            if (r["yd"] > 0 and r["zd"] > 0 and r["delta_rel"] > mp.mpf("1e-9") and r["orth"]
                    and r["two_theta"] - r["free"] > mp.mpf("2e-9")):
                if not mp.mpf(float(tt[i])) > r["free"]:
                    raise Violation(
                        "not-larger", f"detector above a horizontal beam: two_theta = {tt[i]!r} is not larger than "
                        f"the gravity-free angle {mp.nstr(r['free'], 17)} (delta/L2 = {mp.nstr(r['delta_rel'], 3)})")
                nt = True
    return labs, nt


@st.composite
def yz_cases(draw):
    kind = draw(st.sampled_from(["orthogonal", "orthogonal", "tilted"]))
    if kind == "orthogonal":
        case = draw(full_cases(tilt=0.0, axis_g=True))
    else:
        case = draw(full_cases(tilt=draw(st.floats(-6, 0).map(lambda e: 10.0**e))))
        case["b1_unit"] = "m"  # |b1| >= 1 m: a tilt >= 1e-6 is above the absolute 1e-10 threshold
    case["kind"] = kind
    return case


def check_yz(case):
    import scipp as sc

    g, b1, b2 = vectors(case)
    refs = None
    try:
        out, lam = call(case, "scattering_angle_in_yz_plane")
    except ValueError as e:
        if case["kind"] == "orthogonal":
            raise Violation("refused-orthogonal", f"incident beam exactly perpendicular to gravity refused: {e}") from None
        return ["yz:tilted-refused"], True
    if case["kind"] == "tilted":
        raise Violation("accepted-tilted", f"incident beam tilted by {case['tilt']!r} rad against the plane "
                                           "perpendicular to gravity was accepted by scattering_angle_in_yz_plane")
    refs = reference(case, lam)
    labs, vis = labels_of(case, refs)
    vals = flat_values(out, case["layout"])
    u = out.bins.unit if case["layout"] == "binned" else out.unit
    if u != sc.Unit("rad"):
        raise Violation("unit", f"gamma has unit {u}")
    for i, r in enumerate(refs):
        if r["yz_rho_rel"] < mp.mpf("1e-6"):
            continue
        tol = tol_for(case, r) / min(r["yz_rho_rel"], 1)
        e = angle_err(vals[i], r["gamma"])
        if not math.isfinite(vals[i]) or e > tol:
            raise Violation("gamma", f"gamma = {vals[i]!r}, atan2(|y_d + delta|, z_d) = {mp.nstr(r['gamma'], 17)}; "
                                     f"error {mp.nstr(e, 3)} > {mp.nstr(tol, 3)}")
    return [*labs, "yz:value"], vis


@st.composite
def binned_cases(draw):
    case = draw(full_cases(layouts=("binned",)))
    case["fn"] = draw(st.sampled_from(["scattering_angles_with_gravity", "scattering_angle_in_yz_plane"]))
    if case["fn"] == "scattering_angle_in_yz_plane":
        case["tilt"] = 0.0
        if case["g_axis"] is None:
            case["g_axis"], case["g_dir"] = 2, None
    return case


def check_binned(case):
    outb, lam = call(case, case["fn"], layout="binned")
    outd, _ = call(case, case["fn"], layout="dense")
    refs = reference(case, lam)
    labs, vis = labels_of(case, refs)
    labs.append("fn:" + case["fn"])
    pairs = ([("two_theta", outb["two_theta"], outd["two_theta"]), ("phi", outb["phi"], outd["phi"])]
             if case["fn"] == "scattering_angles_with_gravity" else [("gamma", outb, outd)])
    for name, vb, vd in pairs:
        a, b = flat_values(vb, "binned"), flat_values(vd, "dense")
        if a.shape != b.shape or not np.array_equal(a, b):
            raise Violation("binned-vs-dense", f"{name}: per-event values {a.tolist()} differ from dense values {b.tolist()}")
        sizes = vb.bins.size().values.tolist()
        n = len(lam)
        if sizes != [0, n // 2, n - n // 2]:
            raise Violation("binned-layout", f"{name}: bin sizes {sizes} changed")
    return labs, True


@st.composite
def pixel_cases(draw):
    case = draw(full_cases(layouts=("dense",)))
    npix = draw(st.integers(2, 3))
    case["dets"] = [{"det_dir": draw(unit_vector()), "L2": draw(logfloat(-1, 2))} for _ in range(npix)]
    case["pix_layout"] = draw(st.sampled_from(["outer", "outer", "zip", "pixel-only"]))
    if case["pix_layout"] == "zip":
        lam = list(case["lam"])
        while len(lam) < npix:
            lam.append(lam[-1] * 1.25 + 0.5)
        case["lam"] = lam[:npix]
    elif case["pix_layout"] == "pixel-only":
        case["lam"] = case["lam"][:1]
    case["fn"] = draw(st.sampled_from(["scattering_angles_with_gravity", "scattering_angles_with_gravity",
                                       "scattering_angle_in_yz_plane"]))
    if case["fn"] == "scattering_angle_in_yz_plane":
        case["tilt"] = 0.0
        if case["g_axis"] is None:
            case["g_axis"], case["g_dir"] = 2, None
    return case


def check_pixels(case):
    """Per-pixel scattered beams (array of vectors) with a wavelength array: outer product of the two
    dims, both on the pixel dim, or a 0-d wavelength.  Every (pixel, wavelength) element is compared
    with the documented construction for that pixel."""
    import scipp as sc
    from scippneutron.conversion import beamline as bl

    sub = [dict(case, det_dir=d["det_dir"], L2=d["L2"]) for d in case["dets"]]
    g, b1, _ = vectors(sub[0])
    b2 = np.array([vectors(c)[2] for c in sub])
    lam = stored_lambda(case)
    layout = case["pix_layout"]
    if layout == "outer":
        wl = sc.array(dims=["wavelength"], values=lam, unit=case["lam_unit"], dtype=case["lam_dtype"])
    elif layout == "zip":
        wl = sc.array(dims=["pixel"], values=lam, unit=case["lam_unit"], dtype=case["lam_dtype"])
    else:
        wl = sc.scalar(lam[0], unit=case["lam_unit"], dtype=case["lam_dtype"])
    out = getattr(bl, case["fn"])(
        incident_beam=sc.vector(b1, unit=case["b1_unit"]),
        scattered_beam=sc.vectors(dims=["pixel"], values=b2, unit=case["b2_unit"]),
        wavelength=wl, gravity=sc.vector(g, unit="m/s^2"))
    outs = {"two_theta": out["two_theta"], "phi": out["phi"]} if isinstance(out, dict) else {"gamma": out}
    npix = len(sub)
    want_dims = {"outer": {"pixel", "wavelength"}, "zip": {"pixel"}, "pixel-only": {"pixel"}}[layout]
    refs_all = []
    for name, var in outs.items():
        if set(var.dims) != want_dims:
            raise Violation("dims", f"{name} has dims {var.dims}, expected {sorted(want_dims)}")
        arr = var.transpose(["pixel", "wavelength"]).values if layout == "outer" else var.values.reshape(npix, 1)
        for i, c in enumerate(sub):
            lam_i = lam if layout == "outer" else ([lam[i]] if layout == "zip" else [lam[0]])
            refs = reference(c, lam_i)
            refs_all += refs
            for j, r in enumerate(refs):
                got = float(arr[i, j])
                tol = tol_for(case, r)
                key = name
                if name == "phi":
                    if r["rho_rel"] <= mp.mpf("1e-6"):
                        continue
                    tol = tol / min(r["rho_rel"], 1)
                elif name == "gamma":
                    if r["yz_rho_rel"] < mp.mpf("1e-6"):
                        continue
                    tol = tol / min(r["yz_rho_rel"], 1)
                e = angle_err(got, r[key])
                if name == "phi":
                    e = min(e, abs(e - 2 * mp.pi))
                if not math.isfinite(got) or e > tol:
                    raise Violation(name, f"pixel {i}, wavelength {j} ({layout} layout): {name} = {got!r}, documented "
                                          f"construction gives {mp.nstr(r[key], 17)}; error {mp.nstr(e, 3)} > {mp.nstr(tol, 3)}")
    labs, vis = labels_of(case, refs_all)
    return [*labs, "pix_layout:" + layout, "fn:" + case["fn"], f"npix:{npix}"], vis


@st.composite
def bank_cases(draw):
    """One incident beam per bank (array of vectors), mixing exactly horizontal and tilted beams."""
    nb = draw(st.integers(2, 3))
    banks = []
    g_axis = draw(st.integers(0, 5))
    g_abs_ = draw(g_abs)
    for k in range(nb):
        t = 0.0 if (k == 0 or draw(st.booleans())) else draw(st.floats(-4, 0).map(lambda e: 10.0**e))
        if k == 1:
            t = draw(st.floats(-4, 0).map(lambda e: 10.0**e))  # at least one tilted, at least one horizontal
        c = draw(geometry(tilt=t, axis_g=True))
        c["g_axis"], c["g_dir"], c["g_abs"] = g_axis, None, g_abs_
        banks.append(c)
    for c in banks[1:]:
        c["b1_unit"], c["b2_unit"] = banks[0]["b1_unit"], banks[0]["b2_unit"]
    n = draw(st.integers(1, 3))
    return {"banks": banks, "lam": draw(st.lists(lam_value, min_size=n, max_size=n)),
            "lam_unit": draw(st.sampled_from(["angstrom", "nm"])), "lam_dtype": "float64",
            "fn": draw(st.sampled_from(["scattering_angles_with_gravity", "scattering_angles_with_gravity",
                                        "scattering_angle_in_yz_plane"]))}


def check_banks(case):
    import scipp as sc
    from scippneutron.conversion import beamline as bl

    banks = [dict(c, lam=case["lam"], lam_unit=case["lam_unit"], lam_dtype="float64", layout="dense") for c in case["banks"]]
    vs = [vectors(c) for c in banks]
    lam = stored_lambda(banks[0])
    args = {
        "incident_beam": sc.vectors(dims=["bank"], values=np.array([v[1] for v in vs]), unit=banks[0]["b1_unit"]),
        "scattered_beam": sc.vectors(dims=["bank"], values=np.array([v[2] for v in vs]), unit=banks[0]["b2_unit"]),
        "wavelength": sc.array(dims=["wavelength"], values=lam, unit=case["lam_unit"]),
        "gravity": sc.vector(vs[0][0], unit="m/s^2"),
    }
    tilted = [c["tilt"] for c in banks if c["tilt"] != 0.0]
    labs = [f"nbanks:{len(banks)}", "fn:" + case["fn"], "mixed-horizontal-and-tilted"]
    if case["fn"] == "scattering_angle_in_yz_plane":
        # any tilted bank (tilt >= 1e-4 here, |b1| >= 1) must make the call refuse
        try:
            bl.scattering_angle_in_yz_plane(**args)
        except ValueError:
            return [*labs, "yz:refused"], True
        raise Violation("accepted-tilted", f"scattering_angle_in_yz_plane accepted an array of incident beams of which "
                                           f"some are tilted by {tilted} rad out of the plane perpendicular to gravity")
    out = bl.scattering_angles_with_gravity(**args)
    refs_all = []
    for name in ("two_theta", "phi"):
        arr = out[name].transpose(["bank", "wavelength"]).values
        for i, c in enumerate(banks):
            refs = reference(c, lam)
            refs_all += refs
            for j, r in enumerate(refs):
                tol = tol_for(c, r)
                if name == "phi":
                    if r["rho_rel"] <= mp.mpf("1e-6"):
                        continue
                    tol = tol / min(r["rho_rel"], 1)
                e = angle_err(float(arr[i, j]), r[name])
                if name == "phi":
                    e = min(e, abs(e - 2 * mp.pi))
                if not math.isfinite(arr[i, j]) or e > tol:
                    raise Violation(name, f"bank {i} (tilt {c['tilt']!r}), wavelength {j}: {name} = {float(arr[i, j])!r}, "
                                          f"documented construction gives {mp.nstr(r[name], 17)}; error {mp.nstr(e, 3)}")
    vis = any(r["delta_rel"] >= mp.mpf("1e-8") for r in refs_all)
    return labs, vis


@st.composite
def large_cases(draw):
    case = draw(full_cases(layouts=("dense",)))
    case["n"] = draw(st.sampled_from([1000, 4095, 4096, 4097, 8192, 8193, 10000, 16385, 20001]))
    case["lam_lo"], case["lam_hi"] = 0.5, draw(st.floats(2.0, 40.0))
    case["lam_unit"] = "angstrom"
    case["fn"] = draw(st.sampled_from(["scattering_angles_with_gravity", "scattering_angles_with_gravity",
                                       "scattering_angle_in_yz_plane"]))
    if case["fn"] == "scattering_angle_in_yz_plane":
        case["tilt"] = 0.0
        if case["g_axis"] is None:
            case["g_axis"], case["g_dir"] = 2, None
    return case


def check_large(case):
    """Long dense wavelength arrays: elements at the ends and around multiples of 1024/4096 are compared
    with the construction; all elements must be finite and equal to what the same call returns for a short
    slice around them."""
    import scipp as sc
    from scippneutron.conversion import beamline as bl

    n = case["n"]
    lam_all = np.linspace(case["lam_lo"], case["lam_hi"], n).astype(case["lam_dtype"])
    out, _ = call(case, case["fn"], lam=lam_all, layout="dense")
    outs = {"two_theta": out["two_theta"], "phi": out["phi"]} if isinstance(out, dict) else {"gamma": out}
    idx = sorted({i for i in [0, 1, n // 2, n - 2, n - 1, 1023, 1024, 1025, 4095, 4096, 4097, 8191, 8192, 8193,
                              16383, 16384, 16385] if 0 <= i < n})
    refs = reference(case, lam_all[idx])
    for name, var in outs.items():
        vals = np.asarray(var.values, dtype=float)
        if vals.shape != (n,):
            raise Violation("shape", f"{name}: {vals.shape} values for {n} wavelengths")
        if not np.all(np.isfinite(vals)):
            k = int(np.argmin(np.isfinite(vals)))
            raise Violation(name, f"{name}[{k}] = {vals[k]!r} in an array of {n} wavelengths")
        for i, r in zip(idx, refs, strict=True):
            tol = tol_for(case, r)
            if name == "phi":
                if r["rho_rel"] <= mp.mpf("1e-6"):
                    continue
                tol = tol / min(r["rho_rel"], 1)
            elif name == "gamma":
                if r["yz_rho_rel"] < mp.mpf("1e-6"):
                    continue
                tol = tol / min(r["yz_rho_rel"], 1)
            e = angle_err(vals[i], r[name])
            if name == "phi":
                e = min(e, abs(e - 2 * mp.pi))
            if e > tol:
                raise Violation(name, f"{name}[{i}] of {n} = {vals[i]!r}, documented construction gives "
                                      f"{mp.nstr(r[name], 17)}; error {mp.nstr(e, 3)} > {mp.nstr(tol, 3)}")
    labs, vis = labels_of(case, refs)
    return [*labs, f"n:{n}", "fn:" + case["fn"]], vis


def m_general_path_sign(case, v):
    return v.kind in ("two_theta", "discontinuous", "not-larger") and (case.get("tilt", 0.0) != 0.0 or "eps" in case)


MATCHERS = {"C04.general_path_lowers_beam": m_general_path_sign}

FACETS = [
    Facet("construction", check_construction, strategy=lambda tier: full_cases(),
          quick=(4, 400), thorough=(16, 6000), min_nontrivial=0.3,
          doc="two_theta and phi vs the documented construction in mpmath, both dispatch paths"),
    Facet("continuity", check_continuity, strategy=lambda tier: continuity_cases(),
          quick=(2, 300), thorough=(16, 3000), min_nontrivial=0.3,
          doc="tilt 0 vs tilt 1e-9..1e-7: result changes by at most 4*tilt + tolerance"),
    Facet("limits", check_limits, strategy=lambda tier: limit_cases(),
          quick=(2, 300), thorough=(16, 3000), min_nontrivial=0.3,
          doc="lambda -> 0 and g -> 0 give the gravity-free angle; larger above a horizontal beam"),
    Facet("yz_plane", check_yz, strategy=lambda tier: yz_cases(),
          quick=(2, 300), thorough=(16, 3000), min_nontrivial=0.3,
          doc="reflectometry variant = atan2(|y_d + delta|, z_d); refuses tilt >= 1e-6, accepts tilt 0"),
    Facet("pixel_arrays", check_pixels, strategy=lambda tier: pixel_cases(),
          quick=(2, 250), thorough=(16, 2500), min_nontrivial=0.3,
          doc="per-pixel scattered beams with wavelength on its own dim (outer product), on the pixel dim, or 0-d"),
    Facet("large_arrays", check_large, strategy=lambda tier: large_cases(),
          quick=(2, 40), thorough=(16, 200), min_nontrivial=0.3,
          doc="dense wavelength arrays of 1000..20001 elements (lengths around multiples of 4096)"),
    Facet("incident_arrays", check_banks, strategy=lambda tier: bank_cases(),
          quick=(2, 200), thorough=(16, 2000), min_nontrivial=0.3,
          doc="one incident beam per bank, some exactly horizontal and some tilted (dispatch over an array)"),
    Facet("binned", check_binned, strategy=lambda tier: binned_cases(),
          quick=(2, 200), thorough=(16, 2000), min_nontrivial=0.3,
          doc="binned wavelengths give per-event values identical to dense ones"),
]


def selftest():
    kin.selftest()
    # 10 angstrom neutron, 10 m flight, g = 9.80665: t = 10 m / 395.6 m/s = 25.28 ms, drop = g t^2 / 2 = 3.133 mm
    d = kin.gravity_drop(mp.mpf("9.80665"), mp.mpf("10e-10"), mp.mpf(10))
    assert abs(d - mp.mpf("3.1331e-3")) < mp.mpf("2e-6"), d
